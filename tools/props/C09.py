"""C09 -- uniform plasma: wall pressure = free-energy difference; exact field gradient."""
import json
import math
import subprocess
from fractions import Fraction

import numpy as np

import gen_eom_profile
import pyrx
import vlib

EXPLANATION = (
    "EOM.wallProfile (per field), EOM._updateGrid and the def-use slice of "
    "EOM._intermediatePressureResults that is handed to Polynomial.integrate are regenerated "
    "from equationOfMotion.py: every use of the wall parameters, of the grid and of the "
    "Boltzmann results carries the version that reaches it; the Boltzmann results may change "
    "only under `if self.includeOffEq:` and every call through self other than an allow-list "
    "of grid-pure methods (whose bodies are checked) counts as a re-mapping of the grid "
    "(fail closed). Coq proves for ALL widths, offsets, vevs and every C1 potential that the "
    "returned gradient is the derivative of the returned profile, that the integral of "
    "dV/dphi.dphi/dz is the potential difference (1 and 2 fields, finite stretch, whole "
    "line, compactified coordinate with weight -dz/dchi, any T(z) when the field part is "
    "T-independent), and that with includeOffEq off and zero incoming Boltzmann results the "
    "GENERATED integrand is that total derivative for the returned wall on one grid. The "
    "real EOM (built through its own __init__) is run on polynomial potentials over wall "
    "shapes, grid sizes and grid configurations, with and without declared particle "
    "species, through _intermediatePressureResults and through wallPressure; its pressure "
    "is compared with the documented quadrature of the exact integrand and with "
    "V(low)-V(high).")

# a wall is RESOLVED by the grid when the documented quadrature rule applied to the exact
# integrand on that grid reproduces V(low)-V(high) to this relative accuracy
RESOLVED = 1e-3

TOLERANCE_RULE = (
    "no fitted tolerance.  For every input the harness evaluates the DOCUMENTED quadrature "
    "(interior Gauss-Chebyshev-Lobatto nodes chi_k=-cos(k pi/M), weights pi/M sqrt(1-chi_k^2), "
    "Jacobian of the grid map) of the EXACT integrand (closed-form tanh profile, closed-form "
    "gradient of the potential) for the returned wall, twice: on the grid the caller sees "
    "(Q_code) and on a grid built by the harness itself from the documented _updateGrid rule "
    "and its own implementation of the 3-scale map (Q_own).  Judged for EVERY input: (i) "
    "|p - Q_code| <= floor |dV|, floor = 1e-9 + 1e-11 max|V|/|dV| (rounding of the finite-"
    "difference gradient; largest observed value is below floor/60); (ii) the code's grid IS "
    "the harness's grid: parameters to 1e-12, positions to 1e-9, Jacobian to 1e-8; (iii) the "
    "property: |p - dV| <= 3 |Q_own - dV| + floor |dV| wherever |Q_own - dV| <= 1e-3 |dV| "
    "(the wall is resolved by the documented grid: decided without the code); elsewhere the "
    "unchanged code violates the property and the input is attributed to the recorded finding "
    "quadrature-does-not-resolve-wall iff (i), (ii) hold and | |p-dV| - |Q_own-dV| | <= 10 "
    "floor |dV|; otherwise it is a violation.")


# ---------------------------------------------------------------------------------------
# models: dimensionless potentials, V = TN^4 v(phi/TN, T/TN), with closed-form gradient

class Model:
    def __init__(self, kind, params, TN, scalar_scale=False):
        from WallGo.effectivePotential import EffectivePotential, VeffDerivativeSettings
        from WallGo.fields import Fields
        self.kind, self.p, self.TN = kind, params, TN
        self.nf = dict(quartic1=1, sextic1=1, twofield=2, threefield=3)[kind]
        model = self

        class Pot(EffectivePotential):
            fieldCount = model.nf
            effectivePotentialError = 1e-15

            def evaluate(self, fields, temperature):
                fields = Fields(fields)
                x = [fields.getField(i) / TN for i in range(model.nf)]
                return TN ** 4 * model.v(x, np.asarray(temperature) / TN)

        self.veff = Pot()
        scale = float(TN) if scalar_scale else [float(TN)] * self.nf
        self.veff.configureDerivatives(VeffDerivativeSettings(
            temperatureVariationScale=0.1 * TN, fieldValueVariationScale=scale))

    # dimensionless potential and gradient; x = list of arrays, t = T/TN
    def v(self, x, t):
        p = self.p
        if self.kind == "quartic1":
            return (p["D"] * (t ** 2 - p["t0"] ** 2) * x[0] ** 2 - p["E"] * t * x[0] ** 3
                    + p["lam"] / 4 * x[0] ** 4 - p["g"] * math.pi ** 2 / 90 * t ** 4)
        if self.kind == "sextic1":
            return (p["a2"] * (t ** 2 + p["c"]) * x[0] ** 2 - p["a4"] * x[0] ** 4
                    + p["a6"] * x[0] ** 6 - p["g"] * t ** 4)
        r = (0.5 * (-p["muh2"] + p["ch"] * t ** 2) * x[0] ** 2 + 0.25 * p["lh"] * x[0] ** 4
             + 0.5 * (-p["mus2"] + p["cs"] * t ** 2) * x[1] ** 2 + 0.25 * p["ls"] * x[1] ** 4
             + 0.25 * p["lhs"] * x[0] ** 2 * x[1] ** 2 - p["a"] * t ** 4)
        if self.kind == "threefield":
            r = r + (0.5 * p["m3"] * x[2] ** 2 + 0.25 * p["l3"] * x[2] ** 4
                     + 0.25 * p["lh3"] * x[0] ** 2 * x[2] ** 2
                     + 0.25 * p["ls3"] * x[1] ** 2 * x[2] ** 2)
        return r

    def dv(self, x, t):
        p = self.p
        if self.kind == "quartic1":
            return [2 * p["D"] * (t ** 2 - p["t0"] ** 2) * x[0] - 3 * p["E"] * t * x[0] ** 2
                    + p["lam"] * x[0] ** 3]
        if self.kind == "sextic1":
            return [2 * p["a2"] * (t ** 2 + p["c"]) * x[0] - 4 * p["a4"] * x[0] ** 3
                    + 6 * p["a6"] * x[0] ** 5]
        g = [(-p["muh2"] + p["ch"] * t ** 2) * x[0] + p["lh"] * x[0] ** 3
             + 0.5 * p["lhs"] * x[0] * x[1] ** 2,
             (-p["mus2"] + p["cs"] * t ** 2) * x[1] + p["ls"] * x[1] ** 3
             + 0.5 * p["lhs"] * x[0] ** 2 * x[1]]
        if self.kind == "threefield":
            g[0] = g[0] + 0.5 * p["lh3"] * x[0] * x[2] ** 2
            g[1] = g[1] + 0.5 * p["ls3"] * x[1] * x[2] ** 2
            g.append(p["m3"] * x[2] + p["l3"] * x[2] ** 3 + 0.5 * p["lh3"] * x[0] ** 2 * x[2]
                     + 0.5 * p["ls3"] * x[1] ** 2 * x[2])
        return g

    def V(self, point, T):
        """exact potential at one field-space point (physical units)"""
        return float(self.TN ** 4 * self.v([float(q) / self.TN for q in point], T / self.TN))

    def gradient(self, fields, T):
        """exact dV/dphi_i on an array of field values (n, nf), T scalar or (n,)"""
        f = np.asarray(fields, dtype=float)
        x = [f[:, i] / self.TN for i in range(self.nf)]
        g = self.dv(x, np.asarray(T, dtype=float) / self.TN)
        return self.TN ** 3 * np.stack(g, axis=1)

    def ends(self):
        """(low-T phase, high-T phase) at T = TN.  Minima of the potential, except for the
        three-field model where the third component of the low phase is a fixed non-minimal
        value (the identity does not depend on the end points being minima)."""
        p, TN = self.p, self.TN
        if self.kind == "quartic1":
            disc = 9 * p["E"] ** 2 - 8 * p["lam"] * p["D"] * (1 - p["t0"] ** 2)
            return [TN * (3 * p["E"] + math.sqrt(disc)) / (2 * p["lam"])], [0.0]
        if self.kind == "sextic1":
            a2 = p["a2"] * (1 + p["c"])
            x2 = (4 * p["a4"] + math.sqrt(16 * p["a4"] ** 2 - 48 * a2 * p["a6"])) / (12 * p["a6"])
            return [TN * math.sqrt(x2)], [0.0]
        v = TN * math.sqrt((p["muh2"] - p["ch"]) / p["lh"])
        w = TN * math.sqrt((p["mus2"] - p["cs"]) / p["ls"])
        if self.kind == "threefield":
            return [v, 0.0, p["u3"] * v], [0.0, w, 0.0]
        return [v, 0.0], [0.0, w]


# ---------------------------------------------------------------------------------------
# collaborators of EOM: subclasses of the real classes with the constructor bypassed, so that
# the real EOM.__init__ (isinstance asserts, attribute set-up) runs

def zero_boltzmann(grid, nparticles):
    """zero Boltzmann results, built exactly as EOM.wallPressure builds them"""
    from WallGo.containers import BoltzmannDeltas
    from WallGo.polynomial import Polynomial
    from WallGo.results import BoltzmannResults
    zp = Polynomial(np.zeros((nparticles, grid.M - 1)), grid, direction=("Array", "z"),
                    basis=("Array", "Cardinal"))
    deltas = BoltzmannDeltas(Delta00=zp, Delta02=zp, Delta20=zp, Delta11=zp)
    return BoltzmannResults(deltaF=np.zeros((nparticles, grid.M - 1, grid.N - 1, grid.N - 1)),
                            Deltas=deltas, truncationError=0.0,
                            linearizationCriterion1=np.zeros(nparticles),
                            linearizationCriterion2=np.zeros(nparticles))


def make_particles(model, n):
    from WallGo import Particle
    out = []
    for k in range(n):
        y2 = 0.5 + 0.3 * k
        i0 = k % model.nf

        def msq(fields, y2=y2, i0=i0):
            return y2 * np.asarray(fields)[..., i0] ** 2

        def dmsq(fields, y2=y2, i0=i0):
            f = np.asarray(fields)
            out_ = np.zeros_like(f, dtype=float)
            out_[..., i0] = 2 * y2 * f[..., i0]
            return out_
        out.append(Particle("p%d" % k, index=k, msqVacuum=msq, msqDerivative=dmsq,
                            statistics="Fermion", totalDOFs=12 - 6 * k))
    return out


def make_eom(model, M, offEq, ratio=0.5, smoothing=0.1, mfpT=100.0, nparticles=0,
             hydro=None, **kw):
    """A real EOM built by its own __init__ around a real Grid3Scales."""
    from WallGo.boltzmann import BoltzmannSolver
    from WallGo.equationOfMotion import EOM
    from WallGo.grid3Scales import Grid3Scales
    from WallGo.hydrodynamics import Hydrodynamics
    from WallGo.polynomial import Polynomial
    from WallGo.containers import BoltzmannDeltas
    from WallGo.results import BoltzmannResults
    from WallGo.thermodynamics import Thermodynamics
    from WallGo.fields import Fields
    TN = model.TN
    grid = Grid3Scales(M, 5, 40.0 / TN, 40.0 / TN, 5.0 / TN, TN, ratio, smoothing)
    particles = make_particles(model, nparticles)

    class StubBoltzmann(BoltzmannSolver):
        """solver stub: NON-zero deltas for every declared species"""

        def __init__(self):      # pylint: disable=super-init-not-called
            self.grid = grid
            self.offEqParticles = particles
            self.calls = 0

        def setBackground(self, background):
            self.background = background

        def getDeltas(self):
            self.calls += 1
            n = len(particles)
            x = np.linspace(-1, 1, grid.M - 1)
            c = np.array([(0.3 + 0.1 * k) * TN ** 2 * np.exp(-4 * x ** 2) for k in range(n)]
                         ).reshape(n, grid.M - 1)
            zp = Polynomial(c, grid, direction=("Array", "z"), basis=("Array", "Cardinal"))
            deltas = BoltzmannDeltas(Delta00=zp, Delta02=zp, Delta20=zp, Delta11=zp)
            return BoltzmannResults(
                deltaF=np.zeros((n, grid.M - 1, grid.N - 1, grid.N - 1)), Deltas=deltas,
                truncationError=0.0, linearizationCriterion1=np.zeros(n),
                linearizationCriterion2=np.zeros(n))

    lo, hi = model.ends()

    class _FE:
        def __init__(self, vev):
            self.vev = vev

        def interpolationRangeMax(self):
            return 10.0 * TN

        def interpolationRangeMin(self):
            return 0.1 * TN

        def __call__(self, T):
            class _R:
                fieldsAtMinimum = Fields(self.vev)
            return _R()

    class StubThermo(Thermodynamics):
        def __init__(self):      # pylint: disable=super-init-not-called
            self.effectivePotential = model.veff
            self.Tnucl = TN
            self.freeEnergyLow = _FE(lo)
            self.freeEnergyHigh = _FE(hi)

    class StubHydro(Hydrodynamics):
        def __init__(self):      # pylint: disable=super-init-not-called
            self.Tnucl = TN
            self.vJ = 0.95
            self.boundaries = hydro

        def findHydroBoundaries(self, vwTry):
            return self.boundaries(vwTry)

    eom = EOM(StubBoltzmann(), StubThermo(), StubHydro(), grid, model.nf, mfpT / TN,
              (0.1, 100.0), (-10.0, 10.0), includeOffEq=offEq, **kw)
    return eom


# ---------------------------------------------------------------------------------------
# the reference: documented quadrature of the exact integrand

# ---------------------------------------------------------------------------------------
# the harness's OWN grid: the documented re-mapping rule of EOM._updateGrid (the rule that
# the Coq model updateGridN states and that is tied to the code by certified evaluation) and
# the documented Grid3Scales map.  Nothing below calls the code under test.

def expected_grid_params(widths, offsets, vMid, mfp, includeOffEq, ratio, smoothing):
    w, o = np.asarray(widths, dtype=float), np.asarray(offsets, dtype=float)
    hi_, lo_ = np.max((1 - o) * w), np.min((-1 - o) * w)
    L = (hi_ - lo_) / 2
    centre = (hi_ + lo_) / 2 - L * math.log(2) / 2
    gamma = 1 / math.sqrt(1 - vMid ** 2)
    floor_ = L * (0.5 + 1.05 * smoothing) / ratio
    on = 1.0 if includeOffEq else 0.0
    return dict(tin=max(mfp * gamma * on, floor_), tout=max(mfp / gamma * on, floor_), L=L,
                centre=centre, r=ratio, s=smoothing)


def ref_map(par, x):
    """z(chi) and dz/dchi of the documented 3-scale map (5 arctanh terms), own implementation"""
    L, r, s, tin, tout = par["L"], par["r"], par["s"], par["tin"], par["tout"]

    def a_of(tail):
        return math.sqrt(4 * s * L * r ** 2 * (2 * r * tail - L * (1 + s))) / abs(
            2 * r * tail - L * (1 + 2 * s))
    aI, aO = a_of(tin), a_of(tout)
    at = lambda u: np.arctanh(np.asarray(u) + 0j).real      # noqa: E731

    def total(x):
        x = np.asarray(x, dtype=float)
        sO, sI = np.sqrt(aO ** 2 + (x - r) ** 2), np.sqrt(aI ** 2 + (x + r) ** 2)
        dO1, dO2 = math.sqrt(aO ** 2 + (1 - r) ** 2), math.sqrt(aO ** 2 + (1 + r) ** 2)
        dI1, dI2 = math.sqrt(aI ** 2 + (1 - r) ** 2), math.sqrt(aI ** 2 + (1 + r) ** 2)
        t1 = (1 - r) * (2 * r * tout - L) * at((1 - x + sO) / dO1) / dO1 / r
        t2 = -(1 + r) * (2 * r * tout - L) * at((1 + x - sO) / dO2) / dO2 / r
        t3 = (1 - r) * (2 * r * tin - L) * at((1 + x - sI) / dI1) / dI1 / r
        t4 = -(1 + r) * (2 * r * tin - L) * at((1 - x + sI) / dI2) / dI2 / r
        t5 = (2 * tin + 2 * tout - 4 * s * L / r) * np.arctanh(x)
        return (t1 + t2 + t3 + t4 + t5) / 2
    x = np.asarray(x, dtype=float)
    z = total(x) - total(0.0) + par["centre"]
    j = (2 * tin - L / r) * (1 - (x + r) / np.sqrt(aI ** 2 + (x + r) ** 2)) / 2
    j = j + (2 * tout - L / r) * (1 + (x - r) / np.sqrt(aO ** 2 + (x - r) ** 2)) / 2
    j = (j + (1 - 2 * s) * L / r) / (1 - x ** 2)
    return z, j


def grid_vs_reference(grid, par, TN):
    """is the code's grid the documented grid for the wall it was last mapped to?"""
    M = grid.M
    chi = -np.cos(np.arange(1, M) * np.pi / M)
    z, j = ref_map(par, chi)
    out = dict()
    attrs = dict(tin=grid.tailLengthInside, tout=grid.tailLengthOutside, L=grid.wallThickness,
                 centre=grid.wallCenter)
    out["param_rel"] = float(max(abs(float(attrs[k]) - par[k]) / (abs(par[k]) + par["L"])
                                 for k in attrs))
    xi = np.asarray(grid.xiValues, dtype=float)
    out["xi_rel"] = float(np.max(np.abs(xi - z) / (np.abs(z) + par["L"]))) \
        if xi.shape == z.shape else 1.0
    jc = np.asarray(grid.getCompactificationDerivatives()[0], dtype=float)
    out["jac_ref_rel"] = float(np.max(np.abs(jc - j) / np.abs(j))) if jc.shape == j.shape else 1.0
    return out, chi, z, j


def grid_jacobian_check(grid):
    """Relative difference between getCompactificationDerivatives and a 5-point central
    difference of decompactify, evaluated in extended precision (the map reaches |z| ~ 1e4
    wall widths for long tails: in binary64 the difference quotient is rounding-limited)
    with three steps; per node the best step counts and the rounding of the difference
    quotient itself (10 eps |z| / (h |J|)) is discounted.  Also returns the finite-difference
    Jacobian and whether the map reaches the two phases at chi = +-(1 - 1e-9)."""
    chi64 = np.asarray(grid.chiValues, dtype=float)
    dzdchi = np.asarray(grid.getCompactificationDerivatives()[0], dtype=float)
    err, best = None, None
    for dt in (np.longdouble, np.float64):
        chi = chi64.astype(dt)
        zeros = np.zeros_like(chi)
        try:
            z0 = grid.decompactify(chi, zeros, zeros)[0]
        except Exception:       # noqa: BLE001  (extended precision not supported)
            continue
        eps = float(np.finfo(np.asarray(z0).dtype).eps)
        for hf in (4e-3, 1e-3, 2.5e-4):
            h = dt(hf) * (1 - np.abs(chi))
            Z = lambda k: grid.decompactify(chi + k * h, zeros, zeros)[0]  # noqa: E731
            fd = np.asarray((Z(-2) - 8 * Z(-1) + 8 * Z(1) - Z(2)) / (12 * h), dtype=float)
            rb = 10 * eps * np.abs(np.asarray(z0, dtype=float)) / (
                np.asarray(h, dtype=float) * np.abs(dzdchi))
            e1 = np.maximum(np.abs(fd - dzdchi) / np.abs(dzdchi) - rb, 0.0)
            if err is None:
                err, best = e1, fd
            else:
                best = np.where(e1 < err, fd, best)
                err = np.minimum(err, e1)
        break
    zeros = np.zeros_like(chi64)
    xi_ok = float(np.max(np.abs(grid.decompactify(chi64, zeros, zeros)[0] - grid.xiValues)))
    ends = grid.decompactify(np.array([-1 + 1e-9, 1 - 1e-9]), np.zeros(2), np.zeros(2))[0]
    return float(np.max(err)), xi_ok, best, dzdchi, [float(ends[0]), float(ends[1])]


def reference_quadrature(model, M, chi, z, lo, hi, widths, offsets, Tprof, jac):
    lo, hi = np.asarray(lo, dtype=float), np.asarray(hi, dtype=float)
    w, o = np.asarray(widths, dtype=float), np.asarray(offsets, dtype=float)
    th = np.tanh(z[:, None] / w[None, :] + o[None, :])
    phi = lo[None, :] + 0.5 * (hi - lo)[None, :] * (1 + th)
    dphi = 0.5 * (hi - lo)[None, :] * (1 - th ** 2) / w[None, :]
    g = np.sum(model.gradient(phi, Tprof) * dphi, axis=1)
    wq = np.pi / M * np.sqrt(1 - chi ** 2)
    return float(-np.sum(wq * g * jac)), phi


def evaluate(model, eom, lo, hi, p, wpo, Tprof, Tref, gridpar):
    """everything that is judged about one returned (pressure, wall) pair"""
    from WallGo.fields import Fields
    from WallGo.polynomial import Polynomial
    grid = eom.grid
    TN = model.TN
    out = dict(M=int(grid.M), tails=[float(grid.tailLengthInside * TN),
                                     float(grid.tailLengthOutside * TN)],
               aInOut=[float(grid.aIn), float(grid.aOut)])
    dV = model.V(lo, Tref) - model.V(hi, Tref)
    out.update(pressure=float(p), deltaV=dV, rel=abs(float(p) - dV) / abs(dV),
               returned=[[float(x) * TN for x in wpo.widths], [float(x) for x in wpo.offsets]])
    vs = max(abs(model.V(lo, Tref)), abs(model.V(hi, Tref))) / abs(dV)
    out["floor"] = 1e-9 + 1e-11 * vs
    jac_rel, xi_ok, jfd, jcode, zends = grid_jacobian_check(grid)
    out["jac_rel"], out["xi_consistent"] = jac_rel, xi_ok / (1.0 / TN)
    # the map reaches both phases (hypothesis of the limit clause: xi -> -+infinity at
    # chi -> -+1): the exact profile at chi = -+(1 - 1e-9)
    lo_a, hi_a = np.asarray(lo, dtype=float), np.asarray(hi, dtype=float)
    w_a = np.asarray(wpo.widths, dtype=float)
    o_a = np.asarray(wpo.offsets, dtype=float)
    span0 = np.max(np.abs(hi_a - lo_a))
    tl = np.tanh(zends[0] / w_a + o_a)
    tr = np.tanh(zends[1] / w_a + o_a)
    out["limit_gap"] = float(max(np.max(np.abs(0.5 * (hi_a - lo_a) * (1 + tl))),
                                 np.max(np.abs(0.5 * (hi_a - lo_a) * (1 - tr)))) / span0)
    chi_c = np.asarray(grid.chiValues, dtype=float)
    M = int(grid.M)
    if chi_c.shape != (M - 1,) or not np.allclose(
            chi_c, -np.cos(np.arange(1, M) * np.pi / M), rtol=0, atol=1e-14):
        out["ref"] = None
        return out
    Tp = np.array(Tprof, dtype=float, copy=True)
    # (1) the documented quadrature of the exact integrand ON THE CODE'S GRID
    q, phi = reference_quadrature(model, M, chi_c, np.asarray(grid.xiValues, dtype=float), lo, hi,
                                  wpo.widths, wpo.offsets, Tp, jcode if jac_rel <= 1e-5 else jfd)
    out["ref"] = q
    out["code_vs_ref"] = abs(float(p) - q) / abs(dV)
    # (2) ... and ON THE HARNESS'S OWN GRID for the wall the grid was last mapped to: whether
    # the wall is RESOLVED is decided there, independently of the code
    gv, chi_r, z_r, j_r = grid_vs_reference(grid, gridpar, TN)
    out.update(gv)
    out["gridpar"] = {k: float(v) for k, v in gridpar.items()}
    q2, _ = reference_quadrature(model, M, chi_r, z_r, lo, hi, wpo.widths, wpo.offsets, Tp, j_r)
    out["ref_own_grid"] = q2
    out["intrinsic"] = abs(q2 - dV) / abs(dV)
    out["intrinsic_code_grid"] = abs(q - dV) / abs(dV)
    out["resolved"] = out["intrinsic"] <= RESOLVED
    out["tol"] = 3 * out["intrinsic"] + out["floor"]
    # the statement of Coq lemmas integrand_1/2 evaluated with the code's own pieces for the
    # RETURNED wall on the grid the caller sees
    fields, dphi = eom.wallProfile(grid.xiValues, Fields(lo), Fields(hi), wpo)
    dVdPhi = model.veff.derivField(fields, Tprof)
    dVdz = np.sum(np.array(dVdPhi * dphi), axis=1)
    dzdchi, _, _ = grid.getCompactificationDerivatives()
    pm = float(Polynomial(dVdz, grid).integrate(weight=-dzdchi))
    out["slice_rel"] = abs(pm - float(p)) / abs(dV)
    # the grid reaches both phases: end points of the integral (hypothesis of the limit clause)
    span = np.max(np.abs(np.asarray(hi, dtype=float) - np.asarray(lo, dtype=float)))
    out["end_gap"] = float(max(np.max(np.abs(phi[0] - np.asarray(lo, dtype=float))),
                               np.max(np.abs(phi[-1] - np.asarray(hi, dtype=float)))) / span)
    return out


def t_profile(case, n, TN):
    if case.get("Tvar", 0.0):
        x = np.linspace(-1.0, 1.0, n)
        return TN * (1.0 + case["Tvar"] * np.tanh(2.0 * x))
    return TN * np.ones(n)


def build_model(case):
    return Model(case["kind"], case["params"], case["TN"], case.get("scalar_scale", False))


CONSTRUCTED = dict(tin=40.0, tout=40.0, L=5.0, centre=0.0)     # in units of 1/TN (make_eom)


def one_step(model, eom, lo, hi, wp, vMid, Tprof, mult):
    from WallGo.fields import Fields
    n = eom.grid.M - 1
    return eom._intermediatePressureResults(
        wp, Fields(lo), Fields(hi), 0.0, 0.0, vMid,
        zero_boltzmann(eom.grid, len(eom.particles)), float(Tprof[-1]), float(Tprof[0]),
        temperatureProfileInput=np.array(Tprof, copy=True),
        velocityProfileInput=vMid * np.ones(n), multiplier=mult)


def run_case(case):
    """Evaluate the property on the real EOM._intermediatePressureResults for one input."""
    from WallGo.containers import WallParams
    model = build_model(case)
    TN, nf = model.TN, model.nf
    lo, hi = model.ends()
    eom = make_eom(model, case["M"], case["offEq"], case["ratio"], case["smoothing"],
                   case["mfpT"], case.get("nparticles", 0))
    n = case["M"] - 1
    vMid = case["vMid"]
    Tprof = t_profile(case, n, TN)
    mfp = case["mfpT"] / TN

    def expected(w_):
        return expected_grid_params(w_.widths, w_.offsets, vMid, mfp, case["offEq"],
                                    case["ratio"], case["smoothing"])

    def step(wp, mult):
        return one_step(model, eom, lo, hi, wp, vMid, Tprof, mult)

    widths = np.array(case["widthsT"], dtype=float) / TN
    offsets = np.array(case["offsets"], dtype=float)
    wp = WallParams(widths=widths.copy(), offsets=offsets.copy())
    if case.get("as_constructed"):
        # the grid exactly as its constructor left it (never re-mapped)
        gridpar = dict({k: v / TN for k, v in CONSTRUCTED.items()}, r=case["ratio"],
                       s=case["smoothing"])
    else:
        eom._updateGrid(wp, vMid)            # same call as in EOM.wallPressure
        gridpar = expected(wp)
    if case.get("external_remap"):
        # history on the shared Grid3Scales object: EOM maps it to another wall, then the
        # grid's other owner (solver / manager) re-maps it through the grid's own method
        eom._updateGrid(WallParams(widths=2.5 * wp.widths, offsets=0.5 * wp.offsets), vMid)
        eom.grid.changePositionFalloffScale(gridpar["tin"], gridpar["tout"], gridpar["L"],
                                            gridpar["centre"])
    start = None
    if case["mode"] == "imposed":
        p, wpo, _, _ = step(wp, 0.0)
    else:
        # let the step move the wall, on a grid that resolves the wall it moves to: find the
        # minimum of the action, re-map the grid to it, start the checked step from a
        # perturbed shape
        for _ in range(2):
            _, wp, _, _ = step(wp, 1.0)
            eom._updateGrid(wp, vMid)
            gridpar = expected(wp)
        startp = WallParams(widths=wp.widths * np.array(case["wfac"][:nf]),
                            offsets=wp.offsets + np.array(([0.0] + case["dofs"])[:nf]))
        start = [[float(x) * TN for x in startp.widths], [float(x) for x in startp.offsets]]
        p, wpo, _, _ = step(startp, case["multiplier"])
    out = evaluate(model, eom, lo, hi, p, wpo, Tprof, float(Tprof[0]), gridpar)
    out["start"] = start
    out["solver_calls"] = eom.boltzmannSolver.calls
    return out


def run_history(case):
    """ONE EOM, a sequence of walls / plasma velocities as solveWall produces them: the grid is
    re-mapped before every call (by EOM._updateGrid, sometimes by its other owner),
    includeOffEq is switched by attribute assignment (what WallGoManager does after
    constructing the EOM).  Every call is judged."""
    from WallGo.containers import WallParams
    model = build_model(case)
    TN = model.TN
    lo, hi = model.ends()
    eom = make_eom(model, case["M"], case["offEq0"], case["ratio"], case["smoothing"],
                   case["mfpT"], case.get("nparticles", 0))
    n = case["M"] - 1
    mfp = case["mfpT"] / TN
    Tprof = TN * np.ones(n)
    outs = []
    for st in case["steps"]:
        eom.includeOffEq = st["offEq"]           # attribute assignment, as manager.py does
        wp = WallParams(widths=np.array(st["widthsT"], dtype=float) / TN,
                        offsets=np.array(st["offsets"], dtype=float))
        gridpar = expected_grid_params(wp.widths, wp.offsets, st["vMid"], mfp, st["offEq"],
                                       case["ratio"], case["smoothing"])
        if st["external"]:
            eom.grid.changePositionFalloffScale(gridpar["tin"], gridpar["tout"], gridpar["L"],
                                                gridpar["centre"])
        else:
            eom._updateGrid(wp, st["vMid"])
        calls0 = eom.boltzmannSolver.calls
        p, wpo, _, _ = one_step(model, eom, lo, hi, wp, st["vMid"], Tprof, 0.0)
        o = evaluate(model, eom, lo, hi, p, wpo, Tprof, TN, gridpar)
        o["solver_calls"] = eom.boltzmannSolver.calls - calls0
        o["offEq"], o["vMid"] = st["offEq"], st["vMid"]
        outs.append(o)
    return outs


def bag_boundaries(model, lo, hi, Tp, vp):
    """exact junction conditions for V = V0(phi) - a T^4 (same radiation term in both
    phases) when the plasma enters the wall at (T+, v+); None if there is no solution"""
    a = model.p["a"] * 1.0
    V0lo = model.V(lo, 0.0)
    V0hi = model.V(hi, 0.0)
    wp_ = 4 * a * Tp ** 4
    g2 = 1 / (1 - vp ** 2)
    c1 = wp_ * g2 * vp
    c2 = wp_ * g2 * vp ** 2 + a * Tp ** 4 - V0hi
    K = c2 + V0lo
    disc = 16 * K ** 2 - 12 * c1 ** 2
    if disc < 0:
        return None
    roots = [(4 * K + s * math.sqrt(disc)) / (6 * c1) for s in (1, -1)]
    roots = [r for r in roots if 0 < r < 1]
    if not roots:
        return None
    vm = min(roots, key=lambda r: abs(r - vp))
    Tm4 = (c2 + V0lo - c1 * vm) / a
    if Tm4 <= 0:
        return None
    return c1, c2, Tp, Tm4 ** 0.25, 0.5 * (vp + vm)


def driver_boundaries(model, lo, hi, case):
    """detonation-like: (T+, v+) = (TN, vw), the branch findPlasmaProfilePoint selects when
    T+ = Tnucl; deflagration-like: heated plasma in front, subsonic"""
    TN = model.TN
    if case["branch"] == "detonation":
        vp = case["vw"]
        while bag_boundaries(model, lo, hi, TN, vp) is None and vp < 0.94:
            vp += 0.02           # below the Jouguet velocity of this potential
        return bag_boundaries(model, lo, hi, TN, vp)
    return bag_boundaries(model, lo, hi, case["Tplus"] * TN, case["vplus"])


def run_driver_case(case):
    """End to end: EOM.__init__ -> wallPressure -> _intermediatePressureResults (first call
    with the REAL findPlasmaProfile, then the iteration) with stubbed hydrodynamics; the
    field part of the potential does not depend on temperature (second clause)."""
    from WallGo.containers import WallParams
    model = build_model(case)
    TN = model.TN
    lo, hi = model.ends()
    eom = make_eom(model, case["M"], False, case["ratio"], case["smoothing"], case["mfpT"],
                   case.get("nparticles", 0),
                   hydro=lambda vw: driver_boundaries(model, lo, hi, case),
                   forceEnergyConservation=case["forceEnergyConservation"],
                   forceImproveConvergence=case["improve"])
    wp = WallParams(widths=np.array(case["widthsT"], dtype=float) / TN,
                    offsets=np.array(case["offsets"], dtype=float))
    outs = []
    vMid = driver_boundaries(model, lo, hi, case)[4]
    for _ in range(2):      # second call: the grid is re-mapped to the relaxed wall
        gridpar = expected_grid_params(wp.widths, wp.offsets, vMid, case["mfpT"] / TN, False,
                                       case["ratio"], case["smoothing"])
        calls0 = eom.boltzmannSolver.calls
        p, wp, _, bg, _ = eom.wallPressure(case["vw"], wp)
        Tprof = np.array(bg.temperatureProfile[1:-1], dtype=float, copy=True)
        o = evaluate(model, eom, lo, hi, p, wp, Tprof, TN, gridpar)
        o["solver_calls"] = eom.boltzmannSolver.calls - calls0
        o["success"] = bool(eom.successWallPressure and eom.successTemperatureProfile)
        o["Trange"] = [float(np.min(Tprof) / TN), float(np.max(Tprof) / TN)]
        outs.append(o)
    return outs


# ---------------------------------------------------------------------------------------
# generators

def gen_params(rng, kind):
    if kind == "quartic1":
        p = dict(D=rng.choice([0.15, 0.2, 0.3]), E=rng.choice([0.03, 0.05]),
                 lam=rng.choice([0.08, 0.1]), g=100.0)
        r = 9 * p["E"] ** 2 / (8 * p["lam"] * p["D"])
        p["t0"] = math.sqrt(1 - rng.uniform(0.2, 0.9) * r)     # both phases exist at T = TN
        return p
    if kind == "sextic1":
        return dict(a2=rng.choice([0.05, 0.08]), c=rng.choice([0.0, 0.5]),
                    a4=rng.choice([0.25, 0.3]), a6=rng.choice([0.12, 0.15]), g=30.0)
    p = dict(muh2=rng.choice([0.7, 0.78, 0.9]), lh=rng.choice([0.1, 0.13]),
             mus2=rng.choice([0.8, 0.9]), ls=rng.choice([0.8, 1.0]),
             lhs=rng.choice([1.0, 1.2, 1.5]), ch=rng.choice([0.3, 0.4]),
             cs=rng.choice([0.2, 0.25]), a=10.0)
    if kind == "threefield":
        p.update(m3=rng.choice([0.3, 0.6]), l3=rng.choice([0.5, 1.0]), lh3=rng.choice([0.2, 0.6]),
                 ls3=rng.choice([0.2, 0.6]), u3=rng.choice([0.2, -0.4]))
    return p


def gen_case(rng, tier_M):
    fam = rng.choice(["quartic1", "twofield", "twofield", "twofield_Tindep", "sextic1",
                      "threefield", "species", "species"])
    kind = dict(twofield_Tindep="twofield", species=rng.choice(["quartic1", "twofield"])).get(
        fam, fam)
    params = gen_params(rng, kind)
    if fam == "twofield_Tindep":
        params.update(ch=0.0, cs=0.0, a=rng.choice([0.5, 2.0]), muh2=params["muh2"] - 0.35,
                      mus2=params["mus2"] - 0.25)
    nf = dict(quartic1=1, sextic1=1, twofield=2, threefield=3)[kind]
    w0 = rng.uniform(2.0, 12.0)
    widths = [w0] + [w0 * math.exp(rng.uniform(-math.log(3), math.log(3)))
                     for _ in range(nf - 1)]
    case = dict(kind=kind, family=fam, params=params, TN=rng.choice([1.0, 100.0, 100.0, 1e4]),
                M=rng.choice(tier_M), offEq=rng.random() < 0.55,
                vMid=rng.choice([0.0, 0.05, 0.3, 0.6, 0.9, 0.99]),
                ratio=rng.choice([0.3, 0.5, 0.5, 0.7]),
                smoothing=rng.choice([0.03, 0.1, 0.1, 0.3]),
                mfpT=rng.choice([30.0, 100.0, 100.0, 300.0]),
                scalar_scale=rng.random() < 0.3, widthsT=widths, mode="imposed")
    if fam == "species":
        # the configuration of real runs that neglect the out-of-equilibrium part: species are
        # declared, includeOffEq is off; the solver stub would return NON-zero deltas
        case.update(offEq=False, nparticles=rng.choice([1, 2]))
    moved = fam not in ("twofield_Tindep", "threefield") and rng.random() < 0.4
    if moved:
        # (_toWallParams pins the first offset to 0 for a wall that the step moves)
        case["offsets"] = [0.0] + [rng.uniform(-2.0, 2.0) for _ in range(nf - 1)]
        case.update(mode="moved", multiplier=rng.choice([1.0, 0.5, 0.25]),
                    wfac=[rng.uniform(0.7, 1.4), rng.uniform(0.7, 1.4)],
                    dofs=[rng.uniform(-0.3, 0.3)])
    else:
        case["offsets"] = [rng.choice([0.0, rng.uniform(-2.0, 2.0)])] + \
            [rng.uniform(-2.0, 2.0) for _ in range(nf - 1)]
    if fam == "twofield_Tindep":
        case["Tvar"] = rng.choice([0.02, 0.05])
    case["external_remap"] = rng.random() < 0.2
    case["as_constructed"] = (not moved) and (not case["external_remap"]) and rng.random() < 0.05
    return case


def gen_history_case(rng, nsteps=12):
    kind = rng.choice(["quartic1", "twofield", "twofield", "threefield"])
    nf = dict(quartic1=1, twofield=2, threefield=3)[kind]
    nparticles = rng.choice([0, 0, 1, 2])
    case = dict(kind=kind, family="history", params=gen_params(rng, kind),
                TN=rng.choice([1.0, 100.0]), M=rng.choice([41, 60, 100, 140]),
                ratio=rng.choice([0.3, 0.5, 0.7]), smoothing=rng.choice([0.03, 0.1, 0.3]),
                mfpT=rng.choice([30.0, 100.0]), nparticles=nparticles, mode="history",
                scalar_scale=rng.random() < 0.3)
    # with declared species the EOM is CONSTRUCTED with includeOffEq=True and switched off by
    # attribute before use (WallGoManager); without species the flag flips once on the way
    case["offEq0"] = True if nparticles else rng.random() < 0.5
    flip = rng.randint(1, nsteps - 1)
    w = [rng.uniform(3.0, 8.0)]
    w += [w[0] * math.exp(rng.uniform(-0.8, 0.8)) for _ in range(nf - 1)]
    o = [rng.uniform(-1.5, 1.5) for _ in range(nf)]
    steps = []
    for k in range(nsteps):
        w = [min(12.0, max(2.0, x * math.exp(rng.uniform(-0.35, 0.35)))) for x in w]
        lo_ = max(w) / 3.0
        w = [max(x, lo_) for x in w]               # widths stay within a factor 3
        o = [min(2.0, max(-2.0, x + rng.uniform(-0.5, 0.5))) for x in o]
        if nparticles:
            off = False
        else:
            off = case["offEq0"] if k < flip else not case["offEq0"]
        steps.append(dict(widthsT=list(w), offsets=list(o), offEq=off,
                          vMid=rng.choice([0.0, 0.05, 0.3, 0.6, 0.9, 0.99]),
                          external=rng.random() < 0.15))
    case["steps"] = steps
    return case


def gen_driver_case(rng):
    params = gen_params(rng, "twofield")
    params.update(ch=0.0, cs=0.0, a=rng.choice([5.0, 10.0]), muh2=params["muh2"] - 0.35,
                  mus2=params["mus2"] - 0.25)
    case = dict(kind="twofield", family="driver", params=params, TN=rng.choice([1.0, 100.0]),
                M=rng.choice([50, 60, 80, 100]), ratio=rng.choice([0.3, 0.5, 0.7]),
                smoothing=rng.choice([0.03, 0.1, 0.3]), mfpT=100.0,
                nparticles=rng.choice([0, 1]),
                widthsT=[rng.uniform(2.5, 5.0), rng.uniform(2.5, 5.0)], offsets=[0.0, 0.0],
                forceEnergyConservation=rng.random() < 0.7, improve=rng.random() < 0.3)
    if rng.random() < 0.5:
        case.update(branch="detonation", vw=rng.choice([0.75, 0.85]))
    else:
        case.update(branch="deflagration", vw=rng.choice([0.4, 0.5]),
                    Tplus=rng.choice([1.02, 1.05]), vplus=rng.choice([0.2, 0.35]))
    return case


KNOWN_KEY = "quadrature-does-not-resolve-wall"
# three fields, widths (10.1, 18.7, 22.0)/T, offsets (0, 1.75, -1.48), M = 41, ratioPointsWall
# 0.3, equal tails (includeOffEq off): inside the quantifier, unchanged code ~19 % off
KNOWN_INPUT = dict(
    kind="threefield", family="threefield",
    params=dict(muh2=0.78, lh=0.13, mus2=0.9, ls=1.0, lhs=1.2, ch=0.4, cs=0.25, a=10.0, m3=0.3,
                l3=0.5, lh3=0.2, ls3=0.2, u3=0.2),
    TN=100.0, M=41, offEq=False, vMid=0.3, ratio=0.3, smoothing=0.1, mfpT=100.0,
    scalar_scale=False, widthsT=[10.1, 18.7, 22.0], offsets=[0.0, 1.75, -1.48], mode="imposed",
    external_remap=False, as_constructed=False)


def report_known(ctx, key, what, rep):
    """a hit of the recorded class.  Until the entry of findings/C09_known_entries.json is
    merged into known_findings.json the hit is only counted (coverage.pending_known)"""
    listed = any(k.get("property") == "C09" and k.get("key") == key
                 for k in getattr(ctx, "known", {}).get("findings", []))
    if listed or not hasattr(ctx, "cov"):
        ctx.fail_input(what, rep, key=key)
    else:
        d = ctx.cov.setdefault("pending_known", {})
        d[key] = d.get(key, 0) + 1


def judge(ctx, case, res, label=""):
    """compare one evaluation with the property; report failing inputs"""
    tag = "%sM=%d offEq=%s vMid=%s %s/%s %s T=%g r=%g s=%g" % (
        label, res["M"], res.get("offEq", case.get("offEq", False)),
        res.get("vMid", case.get("vMid", case.get("vw"))),
        case["family"], case["kind"], case.get("mode", "driver"), case["TN"], case["ratio"],
        case["smoothing"])
    rep = dict(case=case, result=res)
    off_eq = res.get("offEq", case.get("offEq", False))
    if res["jac_rel"] > 1e-5 or res["xi_consistent"] > 1e-9:
        ctx.fail_input(
            "grid Jacobian is not the derivative of the grid map (rel. diff %.2e, tails*T "
            "%s) [%s]" % (res["jac_rel"], res["tails"], tag),
            dict(kind="jacobian", **rep), key="jacobian-not-derivative")
    if not res["limit_gap"] < 1e-9:
        ctx.fail_input(
            "the grid map does not reach the two phases at chi = -+(1 - 1e-9): the exact "
            "profile there is off by %.2e of the vev difference [%s]" % (res["limit_gap"], tag),
            dict(kind="limit", **rep), key="grid-map-does-not-reach-phases")
    if res.get("ref") is None:
        ctx.fail_input("grid nodes are not the Gauss-Chebyshev-Lobatto points [%s]" % tag,
                       dict(kind="nodes", **rep), key="grid-nodes")
        return
    if res["slice_rel"] > max(1e-11, 1e-3 * res["floor"]):
        ctx.fail_input(
            "returned pressure is not the integral of dV/dphi.dphi/dz for the RETURNED wall "
            "parameters (rel. diff %.2e) [%s]" % (res["slice_rel"], tag),
            dict(kind="slice", **rep), key="integrand-not-returned-wall")
    if not res["code_vs_ref"] <= res["floor"]:
        ctx.fail_input(
            "pressure %.10e differs from the documented quadrature of the exact integrand "
            "%.10e (rel. diff %.2e > %.1e) [%s]" % (
                res["pressure"], res["ref"], res["code_vs_ref"], res["floor"], tag),
            dict(kind="reference", **rep), key="pressure-not-reference-quadrature")
    placed = res["param_rel"] <= 1e-12 and res["xi_rel"] <= 1e-9 and res["jac_ref_rel"] <= 1e-8
    if not placed:
        ctx.fail_input(
            "the grid is not the documented grid of the wall it was mapped to: parameters "
            "(tails, thickness, centre) off by %.2e, positions by %.2e, Jacobian by %.2e "
            "(relative) from the harness's own map for %s [%s]" % (
                res["param_rel"], res["xi_rel"], res["jac_ref_rel"], res["gridpar"], tag),
            dict(kind="placement", **rep), key="grid-not-where-the-wall-is")
    if res["resolved"]:
        if not res["rel"] <= res["tol"]:
            ctx.fail_input(
                "pressure %.10e != V(low)-V(high) %.10e on a wall that the documented grid "
                "resolves (rel. diff %.2e > %.1e) [%s]" % (
                    res["pressure"], res["deltaV"], res["rel"], res["tol"], tag),
                dict(kind="pressure", **rep), key="pressure-not-deltaV")
    else:
        # in the quantifier of the property (widths within x3, |offset| <= 2, M >= 40) but the
        # documented Gauss-Lobatto rule on the documented grid does not reproduce dV: the
        # unchanged code IS off here.  Class rule of the recorded finding = this mechanism and
        # nothing else: right grid, right quadrature of the right integrand, and the whole
        # deviation is the intrinsic error of the rule.
        mech = placed and res["code_vs_ref"] <= res["floor"] and \
            abs(res["rel"] - res["intrinsic"]) <= 10 * res["floor"] + 1e-6 * res["intrinsic"]
        if mech:
            report_known(ctx, KNOWN_KEY,
                         "pressure %.6e is %.2e (relative) off V(low)-V(high) %.6e: the "
                         "Gauss-Lobatto rule on the documented grid does not resolve this wall "
                         "(intrinsic error %.2e) [%s]" % (res["pressure"], res["rel"],
                                                        res["deltaV"], res["intrinsic"], tag),
                         dict(kind="unresolved", **rep))
        else:
            ctx.fail_input(
                "pressure %.10e != V(low)-V(high) %.10e (rel. diff %.2e) and the deviation is "
                "not the intrinsic error %.2e of the documented rule [%s]" % (
                    res["pressure"], res["deltaV"], res["rel"], res["intrinsic"], tag),
                dict(kind="pressure", **rep), key="pressure-not-deltaV")
    if case.get("nparticles") and not off_eq and res.get("solver_calls"):
        ctx.fail_input("Boltzmann solver called %d times although includeOffEq is off [%s]"
                       % (res["solver_calls"], tag),
                       dict(kind="solver", **rep), key="solver-called-without-offEq")


# ---------------------------------------------------------------------------------------
# wallProfile / _updateGrid: certified correspondence and derivative check

def profile_cases(ctx, rng, npts):
    """real wallProfile on multi-field arrays at dyadic inputs -> rows for Coq"""
    from WallGo.containers import WallParams
    from WallGo.equationOfMotion import EOM
    from WallGo.fields import Fields
    eom = make_eom(Model("quartic1", gen_params(rng, "quartic1"), 1.0), 40, False)
    rows = []
    for _ in range(npts):
        nf = rng.choice([1, 2, 3])
        lo = [Fraction(rng.randint(-2000, 2000), 8) for _ in range(nf)]
        hi = [Fraction(rng.randint(-2000, 2000), 8) for _ in range(nf)]
        w = [Fraction(rng.randint(4, 400), 1024) for _ in range(nf)]
        d = [Fraction(rng.randint(-64, 64), 32) for _ in range(nf)]
        z = [Fraction(rng.randint(-600, 600), 1024) for _ in range(3)]
        wp = WallParams(widths=np.array([float(x) for x in w]),
                        offsets=np.array([float(x) for x in d]))
        f, g = eom.wallProfile(np.array([float(x) for x in z]), Fields([float(x) for x in lo]),
                               Fields([float(x) for x in hi]), wp)
        f, g = np.asarray(f), np.asarray(g)
        fs, gs = eom.wallProfile(float(z[0]), Fields([float(x) for x in lo]),
                                 Fields([float(x) for x in hi]), wp)
        if not (np.allclose(np.ravel(fs), f[0], rtol=0, atol=0) and
                np.allclose(np.ravel(gs), g[0], rtol=1e-15, atol=0)):
            ctx.fail_input("wallProfile scalar and array call disagree",
                           dict(kind="profile-branches", z=str(z[0])), key="profile-branches")
        for k in range(3):
            for i in range(nf):
                rows.append((z[k], lo[i], hi[i], w[i], d[i], float(f[k, i]), float(g[k, i])))
                ctx.count("profile_certified_eval", (str(z[k]), str(w[i]), str(d[i])))
    return rows


def eval_file(rows):
    hdr = """From Coq Require Import Reals Lra.
From Interval Require Import Tactic.
From WG Require Import Lib.NumpySem.
From GenC09 Require Import EomProfile.
Local Open Scope R_scope.
Definition e0 := mk_env tt.
Ltac ev := unfold wallProfile; cbv zeta; cbn [fst snd]; unfold tanh, sinh, cosh;
           interval with (i_prec 90).
"""
    goals = []
    for z, lo, hi, w, d, f, g in rows:
        call = "(wallProfile e0 %s %s %s %s %s)" % tuple(pyrx.rlit(x) for x in (z, lo, hi, w, d))
        for proj, y in (("fst", f), ("snd", g)):
            q = Fraction(y)
            tol = abs(q) * Fraction(1, 10 ** 12) + abs(hi - lo) * Fraction(1, 10 ** 13) / \
                (w if proj == "snd" else 1) + Fraction(1, 10 ** 300)
            goals.append("Goal Rabs (%s %s - %s) <= %s.\nProof. ev. Qed." % (
                proj, call, pyrx.rlit(q), pyrx.rlit(tol)))
    return hdr + "\n".join(goals) + "\n"


def grid_rows(ctx, rng, n):
    """real EOM._updateGrid -> (inputs as exact rationals, resulting grid parameters)"""
    from WallGo.containers import WallParams
    rows = []
    for _ in range(n):
        nf = rng.choice([1, 2])
        model = Model("quartic1" if nf == 1 else "twofield",
                      gen_params(rng, "quartic1" if nf == 1 else "twofield"), 1.0)
        offEq = rng.random() < 0.5
        w = [rng.randint(8, 512) / 64.0 for _ in range(nf)]
        o = [rng.choice([0.0, rng.randint(-64, 64) / 32.0])] + \
            [rng.randint(-64, 64) / 32.0 for _ in range(nf - 1)]
        v = rng.choice([0.0, 0.05, 0.3, 0.6, 0.9, 0.99])
        eom = make_eom(model, 40, offEq, rng.choice([0.3, 0.5, 0.7]),
                       rng.choice([0.03, 0.1, 0.3]), rng.choice([25.0, 100.0, 350.0]))
        eom._updateGrid(WallParams(widths=np.array(w), offsets=np.array(o)), v)
        g = eom.grid
        rows.append(dict(nf=nf, offEq=offEq, w=w, o=o, v=v, mfp=float(eom.meanFreePathScale),
                         smoothing=float(g.smoothing), ratio=float(g.ratioPointsWall),
                         out=[float(g.tailLengthInside), float(g.tailLengthOutside),
                              float(g.wallThickness), float(g.wallCenter)]))
        ctx.count("updateGrid_certified_eval", rows[-1],
                  bucket="%d fields/%s" % (nf, "offEq" if offEq else "eq"))
    return rows


def grid_eval_file(rows):
    F = vlib.frac
    hdr = """From Coq Require Import Reals Lra.
From Interval Require Import Tactic.
From WG Require Import Lib.NumpySem.
From GenC09 Require Import EomProfile.
Local Open Scope R_scope.
(* Rmax / Rmin are eliminated by cases; the infeasible case is refuted by interval *)
Ltac case_le a b :=
  let H := fresh "H" in
  destruct (Rle_dec a b) as [H|H];
  [ first [ (exfalso; apply (Rle_not_lt _ _ H); interval with (i_prec 90)) | clear H ]
  | first [ (exfalso; apply H; interval with (i_prec 90)) | clear H ] ].
Ltac ev := unfold updateGrid1, updateGrid2; cbv zeta; cbn [fst snd];
           cbn [ug_meanFreePathScale ug_includeOffEq smoothing ratioPointsWall];
           unfold Rmax, Rmin;
           repeat match goal with |- context [Rle_dec ?a ?b] =>
             tryif (match a with context [Rle_dec _ _] => idtac end) then fail else
             tryif (match b with context [Rle_dec _ _] => idtac end) then fail else
             case_le a b end;
           interval with (i_prec 90).
"""
    goals = []
    projs = ["fst (fst (fst %s))", "snd (fst (fst %s))", "snd (fst %s)", "snd %s"]
    for r in rows:
        env = "(mk_ug_env %s %s %s %s)" % (pyrx.rlit(F(r["mfp"])), "1" if r["offEq"] else "0",
                                           pyrx.rlit(F(r["smoothing"])), pyrx.rlit(F(r["ratio"])))
        args = " ".join("%s %s" % (pyrx.rlit(F(a)), pyrx.rlit(F(b)))
                        for a, b in zip(r["w"], r["o"]))
        call = "(updateGrid%d %s %s %s)" % (r["nf"], env, args, pyrx.rlit(F(r["v"])))
        for pj, y in zip(projs, r["out"]):
            q = F(y)
            tol = abs(q) * Fraction(1, 10 ** 12) + Fraction(1, 10 ** 15)
            goals.append("Goal Rabs (%s - %s) <= %s.\nProof. ev. Qed." % (
                pj % call, pyrx.rlit(q), pyrx.rlit(tol)))
    return hdr + "\n".join(goals) + "\n"


def profile_derivative_check(ctx, rng, n):
    """dPhidz against a 4th-order central difference of the profile itself (real code)"""
    from WallGo.containers import WallParams
    from WallGo.equationOfMotion import EOM
    from WallGo.fields import Fields
    eom = make_eom(Model("quartic1", gen_params(rng, "quartic1"), 1.0), 40, False)
    for _ in range(n):
        nf = rng.choice([1, 2, 3])
        lo = [rng.uniform(-300, 300) for _ in range(nf)]
        hi = [rng.uniform(-300, 300) for _ in range(nf)]
        w0 = rng.uniform(0.01, 0.3)
        w = [w0] + [w0 * math.exp(rng.uniform(-math.log(3), math.log(3)))
                    for _ in range(nf - 1)]
        d = [rng.uniform(-2, 2) for _ in range(nf)]
        wp = WallParams(widths=np.array(w), offsets=np.array(d))
        z = np.linspace(-6, 6, 97) * max(w)
        h = 1e-3 * min(w)
        F = lambda s: np.asarray(eom.wallProfile(z + s * h, Fields(lo), Fields(hi), wp)[0])  # noqa
        num = (F(-2) - 8 * F(-1) + 8 * F(1) - F(2)) / (12 * h)
        g = np.asarray(eom.wallProfile(z, Fields(lo), Fields(hi), wp)[1])
        rel = float(np.max(np.abs(g - num)) / (np.max(np.abs(num)) + 1e-300))
        ctx.count("profile_derivative_direct", dict(w=w, d=d), bucket="%d fields" % nf)
        if not rel < 1e-8:
            ctx.fail_input("dPhidz is not the z-derivative of the profile (rel. diff %.2e)"
                           % rel, dict(kind="profile-derivative", lo=lo, hi=hi, widths=w,
                                       offsets=d, rel=rel), key="dPhidz-not-derivative")


def compile_files(ctx, paths, jobs=3, timeout=900):
    """coqc on generated evaluation files, at most `jobs` at a time; a timeout (load) is
    inconclusive, not a broken correspondence"""
    pending = list(paths)
    running = []
    while pending or running:
        while pending and len(running) < jobs:
            name, p = pending.pop(0)
            running.append((name, subprocess.Popen(
                ["timeout", str(timeout), "coqc"] + ctx.coq_args() + [p], cwd=ctx.bdir,
                stdout=subprocess.PIPE, stderr=subprocess.PIPE, text=True)))
        name, pr = running.pop(0)
        _, err = pr.communicate()
        if pr.returncode == 124:
            ctx.log("certified evaluation %s timed out (machine load): inconclusive" % name)
            ctx.cov.setdefault("inconclusive", []).append(name)
        elif pr.returncode != 0:
            ctx.broken.append("correspondence: certified evaluation %s" % name)
            ctx.log("certified evaluation failed", vlib.tail(err, 8))


# ---------------------------------------------------------------------------------------

def run(ctx):
    src = vlib.read_src("equationOfMotion.py")
    gen_ok = True
    info = None
    try:
        text, info = gen_eom_profile.generate(src)
        ctx.write("EomProfile.v", text, sources=dict(
            file="src/WallGo/equationOfMotion.py", sha=vlib.sha(src), spans=info["spans"]))
        ctx.log("pressure slice: returned wall version %d, grid versions %s, Boltzmann "
                "results updated only under %s" % (
                    info["result"]["wall"], sorted(info["grid_versions"]),
                    [g["guard"] for g in info["guards"]]))
    except pyrx.TranslateError as e:
        ctx.log("translator failed:", e)
        ctx.broken.append("translator: %s" % e)
        gen_ok = False
    except (Exception, RecursionError) as e:      # noqa: BLE001
        # a crash of the generator is a broken tie, never a reason to skip the other layers
        ctx.log("translator crashed: %r" % e)
        ctx.broken.append("translator crashed: %r" % e)
        gen_ok = False
    proved = gen_ok and ctx.prove(extra=["EomProfile.v"])
    ctx.trusted += ["tools/pyrx.py + tools/gen_eom_profile.py (AST translator: per-field "
                    "scalarisation of wallProfile/_updateGrid, versioned def-use slice of "
                    "_intermediatePressureResults, allow-list of grid-pure EOM methods)",
                    "Coquelicot 3.x (real analysis library)",
                    "Interval tactic (certified evaluation; uses kernel primitive floats/ints)"]
    rng = ctx.rng
    # --- certified correspondence of the generated wallProfile / _updateGrid --------------
    try:
        rows = profile_cases(ctx, rng, ctx.n(4, 40))
        grows = grid_rows(ctx, rng, ctx.n(6, 40))
        if gen_ok and proved is not False:
            files = []
            for k in range(0, len(rows), 40):
                files.append(("Profile_%d" % (k // 40), ctx.write(
                    "Cases/Profile_%d.v" % (k // 40), eval_file(rows[k:k + 40]))))
            files.append(("UpdateGrid", ctx.write("Cases/UpdateGrid.v",
                                                  grid_eval_file(grows))))
            compile_files(ctx, files)
        ctx.log("certified evaluations done (%d wallProfile rows, %d _updateGrid rows)" % (
            len(rows), len(grows)))
        ctx.sample(dict(profile_row=[str(x) for x in rows[0]]))
        profile_derivative_check(ctx, rng, ctx.n(20, 200))
    except Exception as ex:          # noqa: BLE001
        import traceback
        ctx.log("profile correspondence raised", traceback.format_exc())
        ctx.broken.append("harness: profile correspondence raised %r" % ex)
    # --- the recorded finding is replayed first, deterministically -----------------------------
    try:
        res = run_case(KNOWN_INPUT)
        ctx.count("known_input_replayed", KNOWN_INPUT)
        judge(ctx, KNOWN_INPUT, res, label="recorded input ")
        ctx.cov["known_input"] = dict(rel=res["rel"], intrinsic=res["intrinsic"],
                                      code_vs_ref=res["code_vs_ref"], placed=res["xi_rel"])
        if res["resolved"]:
            ctx.log("recorded input %s is now resolved (rel %.2e): the finding may be fixed"
                    % (KNOWN_KEY, res["rel"]))
    except Exception as ex:          # noqa: BLE001
        ctx.fail_input("EOM raised %r on the recorded input" % ex,
                       dict(kind="raise", case=KNOWN_INPUT), key="raises")
    # --- direct validation on the real EOM ------------------------------------------------
    tier_M = [40, 41, 44, 48, 50, 55, 60, 70, 80, 100, 120, 140, 160, 200] if ctx.quick else \
        [40, 41, 42, 43, 45, 47, 50, 53, 57, 60, 64, 70, 75, 80, 90, 100, 120, 140, 160,
         200, 240]
    resolution = {}
    worst = dict(code_vs_ref_over_floor=0.0, rel_over_tol=0.0)

    def account(case, res):
        if res.get("ref") is None:
            return
        k = "M<60" if res["M"] < 60 else ("M<100" if res["M"] < 100 else "M>=100")
        k += "/unequal tails" if abs(res["tails"][0] - res["tails"][1]) > 1e-9 else "/equal tails"
        d = resolution.setdefault(k, dict(resolved=0, unresolved=0, worst_intrinsic=0.0))
        d["resolved" if res["resolved"] else "unresolved"] += 1
        d["worst_intrinsic"] = max(d["worst_intrinsic"], res["intrinsic"])
        worst["code_vs_ref_over_floor"] = max(worst["code_vs_ref_over_floor"],
                                              res["code_vs_ref"] / res["floor"])
        if res["resolved"]:
            worst["rel_over_tol"] = max(worst["rel_over_tol"], res["rel"] / res["tol"])

    for _ in range(ctx.n(300, 3000)):
        case = gen_case(rng, tier_M)
        try:
            res = run_case(case)
        except Exception as ex:      # noqa: BLE001
            import traceback
            ctx.log("EOM raised", traceback.format_exc().strip().splitlines()[-1])
            ctx.fail_input("EOM._intermediatePressureResults raised %r" % ex,
                           dict(kind="raise", case=case), key="raises")
            continue
        unequal = abs(res["aInOut"][0] - res["aInOut"][1]) > 1e-3 * res["aInOut"][0]
        ctx.count("pressure_direct", case, bucket="%s/%s/%s/%s" % (
            case["family"], "offEq" if case["offEq"] else "eq", case["mode"],
            "aIn!=aOut" if unequal else "aIn==aOut"))
        if case["external_remap"]:
            ctx.count("grid_remapped_by_other_owner", nontrivial=False)
        ctx.count("jacobian_hypothesis")
        ctx.count("configuration", bucket="r=%g s=%g T=%g" % (case["ratio"], case["smoothing"],
                                                              case["TN"]), nontrivial=False)
        judge(ctx, case, res)
        account(case, res)
        if len(ctx.cov["samples"]) < 5:
            ctx.sample(dict(case=case, pressure=res["pressure"], deltaV=res["deltaV"],
                            reference_quadrature=res.get("ref"), rel=res["rel"],
                            jacobian_rel=res["jac_rel"], tails=res["tails"]))
    ctx.log("direct validation of _intermediatePressureResults done")
    # --- histories: one EOM, 12 re-mappings, includeOffEq switched by attribute ---------------
    for _ in range(ctx.n(12, 120)):
        case = gen_history_case(rng)
        try:
            outs = run_history(case)
        except Exception as ex:      # noqa: BLE001
            import traceback
            ctx.log("history raised", traceback.format_exc().strip().splitlines()[-1])
            ctx.fail_input("EOM raised %r in a sequence of calls on one object" % ex,
                           dict(kind="raise-history", case=case), key="raises")
            continue
        for k, res in enumerate(outs):
            ctx.count("history_step", dict(case=case["steps"][k], k=k, M=case["M"]),
                      bucket="call %d-%d" % (4 * (k // 4) + 1, 4 * (k // 4) + 4))
            judge(ctx, case, res, label="call %d of a history " % (k + 1))
            account(case, res)
    ctx.log("histories done")
    # --- end to end through EOM.__init__ / wallPressure / _getNextPressure ------------------
    for _ in range(ctx.n(5, 40)):
        case = gen_driver_case(rng)
        try:
            outs = run_driver_case(case)
        except Exception as ex:      # noqa: BLE001
            import traceback
            ctx.log("wallPressure raised", traceback.format_exc().strip().splitlines()[-1])
            ctx.fail_input("EOM.wallPressure raised %r" % ex, dict(kind="raise-driver",
                                                                   case=case), key="raises")
            continue
        for k, res in enumerate(outs):
            ctx.count("wallPressure_end_to_end", dict(case=case, call=k),
                      bucket="call %d/%s" % (k, "resolved" if res.get("resolved") else
                                             "unresolved"))
            if not res["success"]:
                ctx.fail_input("wallPressure reports failure (temperature profile / "
                               "convergence) in a uniform bag-type plasma",
                               dict(kind="driver-failure", case=case, result=res),
                               key="driver-reports-failure")
            judge(ctx, case, res, label="wallPressure call %d " % k)
            account(case, res)
        if len(ctx.cov["samples"]) < 6:
            ctx.sample(dict(driver_case=case, results=[
                dict(pressure=o["pressure"], deltaV=o["deltaV"], rel=o["rel"],
                     returned=o["returned"], Trange=o["Trange"]) for o in outs]))
    ctx.cov["resolution"] = resolution
    ctx.cov["calibration"] = dict(
        note="no fitted tolerance; worst observed ratios on this run", worst=worst,
        rule=TOLERANCE_RULE)
    ctx.log("largest |p-Q_ref|/floor %.3g, largest |p-dV|/tol on resolved walls %.3g" % (
        worst["code_vs_ref_over_floor"], worst["rel_over_tol"]))
    ctx.cov["rule"] = (
        "potentials (dimensionless couplings, T = 1, 100 or 1e4): 1-field quartic, 1-field "
        "sextic (finite-difference gradient not exact), 2-field quartic with portal coupling, "
        "the same with T-independent field part and a varying temperature profile, 3-field "
        "quartic (low phase with a non-minimal third component); scalar or list "
        "fieldValueVariationScale; first width 2..12/T, other widths within a factor 3, all "
        "offsets in [-2,2] (first offset 0 when the step moves the wall); M from 40 to 200 "
        "(240 thorough); Grid3Scales with ratioPointsWall in {0.3,0.5,0.7}, smoothing in "
        "{0.03,0.1,0.3}, mean free path 30,100,300/T; tails from EOM._updateGrid with "
        "includeOffEq False and True, vMid in {0,0.05,0.3,0.6,0.9,0.99}; family 'species': "
        "includeOffEq False with 1-2 declared Particle objects and a solver stub returning "
        "non-zero deltas, zero initial Boltzmann results built as wallPressure does; wall "
        "imposed (multiplier 0) or moved (multiplier 1, 0.5, 0.25 from a perturbed start on a "
        "grid re-mapped to the action minimum); in 20% of the cases the shared grid is first "
        "mapped to another wall and then re-mapped by changePositionFalloffScale from outside "
        "EOM; EOM always built by its own __init__; "
        "end-to-end: wallPressure called twice with stubbed hydrodynamics (exact bag junction "
        "conditions), real findPlasmaProfile, both iteration algorithms; distinct = distinct "
        "case dictionary")
    ctx.assumptions += [
        "Gauss-Lobatto quadrature error of Polynomial.integrate: NOT assumed small; measured "
        "for every input as the error of the documented rule on the exact integrand "
        "(coverage.resolution); the property is judged on the walls it resolves to 1e-3",
        "grid.getCompactificationDerivatives()[0] is the derivative of the map chi -> z used "
        "for grid.xiValues and the outermost nodes reach the two phases (hypotheses of the "
        "theorems; the first is proved by C17; both validated on every grid used here)",
        "effectivePotential.derivField is the gradient of evaluate (finite differences: "
        "C19/C08; compared here with the closed-form gradient through the reference "
        "quadrature, including a sextic potential)",
        "numpy broadcasting in wallProfile is elementwise (validated by the certified "
        "evaluation on multi-field arrays); np.sum(axis=1) is the sum over fields",
        "the allow-listed methods wallProfile, _toWallParams, findPlasmaProfile, action and "
        "the EOM methods they call do not re-map self.grid (their bodies are checked for "
        "calls through self.grid / self.boltzmannSolver; scipy callbacks are trusted)"]


def replay(rep):
    print(json.dumps({k: v for k, v in rep.items() if k != "result"}, indent=1))
    if "case" not in rep:
        return 0

    class _C:
        failed = []

        def fail_input(self, what, replay, key=None):
            self.failed.append((key, what))
    c = _C()
    if rep["case"].get("family") == "history":
        for k, res in enumerate(run_history(rep["case"])):
            print("re-evaluated call %d: rel %.3e intrinsic %.3e code_vs_ref %.3e xi_rel %.3e "
                  "param_rel %.3e" % (k + 1, res["rel"], res["intrinsic"], res["code_vs_ref"],
                                      res["xi_rel"], res["param_rel"]))
            judge(c, rep["case"], res, label="call %d of a history " % (k + 1))
    elif rep["case"].get("family") == "driver":
        for k, res in enumerate(run_driver_case(rep["case"])):
            print("re-evaluated call %d:" % k, json.dumps(res, indent=1))
            judge(c, rep["case"], res, label="wallPressure call %d " % k)
    else:
        res = run_case(rep["case"])
        print("re-evaluated:", json.dumps(res, indent=1))
        judge(c, rep["case"], res)
    for key, what in c.failed:
        print("FAILS:", key, what)
    print("->", "FAILS" if c.failed else "passes")
    return 1 if c.failed else 0
