"""C19 -- finite-difference derivatives: exactness, bounds, shapes."""
import itertools
import json
import math
from fractions import Fraction

import numpy as np

import gen_helpers
import vlib

EXPLANATION = (
    "Tables, row-selection rule and the call-site facts of EffectivePotential are "
    "regenerated from helpers.py / effectivePotential.py (the rest of derivative, gradient, "
    "hessian is pinned structurally, fail closed); Coq proves every row exact on all "
    "polynomials up to degree #points-1 (central rows one more), the Hessian stencil exact "
    "on bivariate total degree 3/5, that the VALUE returned by the executable model of "
    "`derivative` is the exact derivative for every x, every dx != 0 and every bounds "
    "(derivative_value_exact, unconditional), that no evaluation point leaves the bounds "
    "when the interval is at least as wide as the stencil, what happens when it is narrower "
    "(known finding), and the index/slot consistency of the EffectivePotential call sites. "
    "The executable model is compared exactly with the running implementation on dyadic "
    "inputs (wide, narrow, negative step); the property itself is evaluated on the "
    "implementation for non-dyadic floats, arrays, every axis selection, and histories of "
    "one EffectivePotential object.")

K_WIDE = {(2, 1): 2, (2, 2): 3, (4, 1): 4, (4, 2): 5}
DEG = {(2, 1): 1, (2, 2): 2, (4, 1): 3, (4, 2): 4}      # guaranteed for every row


# rounding model: the weighted sum  sum_i (c_i/dx^n) f(P_i)  with f evaluated by Horner in
# binary64 is within (2 deg + #points + 3) eps ~ 2e-15 of the exact value, relative to
# B = max|c| * sum_i A(P_i) / dx^n,  A(P) = sum_k |a_k| |P|^k  (observed on the unchanged tree
# over 36000 inputs of all families: <= 1.8e-16 B).  Tolerance 4e-15 B.
CMAX = {(2, 1): Fraction(1), (4, 1): Fraction(3), (2, 2): Fraction(2), (4, 2): Fraction(19, 2)}
RTOL = Fraction(4, 10 ** 15)
MARGINS = {}


def rounding_bound(coeffs, pts, dxe, order, n):
    A = lambda q: sum(abs(Fraction(c)) * abs(Fraction(q)) ** i for i, c in enumerate(coeffs))
    return CMAX[(order, n)] * sum(A(p) for p in pts) / abs(dxe) ** n


def value_ok(family, got, want, coeffs, pts, dxe, order, n):
    """|got - want| <= 4e-15 B; the largest ratio err/tol per family goes to the evidence"""
    tol = RTOL * rounding_bound(coeffs, pts, dxe, order, n) + Fraction(1, 10 ** 300)
    err = abs(Fraction(got) - Fraction(want))
    MARGINS[family] = max(MARGINS.get(family, 0.0), float(err / tol))
    return err <= tol


class Rec:
    """Polynomial with integer coefficients that records EVERY call (derivative evaluates
    f twice)."""

    def __init__(self, coeffs):
        self.c = coeffs
        self.calls = []

    @property
    def pts(self):
        return self.calls

    def __call__(self, x, *args):
        x = np.asarray(x, dtype=float)
        self.calls.append(x.copy())
        r = np.zeros_like(x)
        for k in reversed(self.c):
            r = r * x + k
        return r

    def exact(self, q):
        r = Fraction(0)
        for k in reversed(self.c):
            r = r * q + k
        return r

    def dexact(self, q, n):
        c = list(self.c)
        for _ in range(n):
            c = [k * i for i, k in enumerate(c)][1:]
        r = Fraction(0)
        for k in reversed(c):
            r = r * q + k
        return r


def gen_case(rng, dyadic=True, narrow=False, negdx=False, critical=False):
    order = rng.choice([2, 4])
    n = rng.choice([1, 2])
    e = rng.randint(-34, 10)
    if dyadic:
        dx = Fraction(rng.randint(1, 64)) * Fraction(2) ** e
    else:
        dx = Fraction(rng.uniform(0.1, 1.0) * 10.0 ** rng.randint(-8, 1))
    K = K_WIDE[(order, n)]
    kind = rng.choice(["none", "lower", "upper", "both", "both"])
    width_steps = rng.randint(K, 12) if rng.random() < 0.7 else rng.randint(K, 4000)
    if narrow:
        # 0 < width < K*dx, in eighths of a step (both sides of one step)
        kind = "both"
        width_steps = Fraction(rng.randint(1, 8 * K - 1), 8)
    if critical:
        # width == fl(K*dx) (or one ulp either side): the boundary of `wide` in binary64
        kind = "both"
        width_steps = K
    base = Fraction(rng.randint(-40, 40)) * Fraction(2) ** e * 64 if dyadic else \
        Fraction(rng.uniform(-3, 3))
    zero_end = rng.random() < 0.25      # a bound exactly 0 (what derivT passes)
    lb = base
    if zero_end:
        lb = Fraction(0) if rng.random() < 0.5 else -width_steps * dx
    ub = lb + width_steps * dx
    if critical:
        ub = Fraction(float(np.nextafter(float(lb) + K * float(dx),
                                         rng.choice([-np.inf, np.inf, float(lb) + K * float(dx)]))))
        lb = Fraction(float(lb))
    elif not dyadic and not narrow:
        # Non-dyadic floats: keep a relative margin 2^-20 above the critical width K*dx.
        # At EXACTLY that width with x on a step multiple the one-sided row reaches the far
        # bound exactly, and binary64 rounding of x - 3*dx can land 1 ulp outside (seen on
        # the unchanged tree in a thorough run); the theorem is about exact arithmetic
        # under `wide`, which then holds only up to rounding.  The dyadic family (exact
        # arithmetic) still probes width == K*dx.
        ub = Fraction(float(ub + K * dx * Fraction(1, 2 ** 20)))
        if ub - lb < K * dx * (1 + Fraction(1, 2 ** 21)):
            ub = Fraction(float(lb + (width_steps + 1) * dx))
    if not dyadic and narrow:
        lb, ub = Fraction(float(lb)), Fraction(float(ub))
        if not ub > lb:
            ub = Fraction(float(lb + dx))
    # position relative to the bounds: exactly j steps from either, or in between
    pos = rng.choice(["at", "steps", "between", "interior"])
    if critical:
        pos = rng.choice(["at", "steps", "steps", "steps"])
    j = rng.randint(0, 3)
    side = rng.choice(["lo", "hi"])
    if pos == "at":
        x = lb if side == "lo" else ub
    elif pos == "steps":
        x = lb + j * dx if side == "lo" else ub - j * dx
    elif pos == "between":
        off = Fraction(rng.randint(1, 7), 8) * dx + j * dx
        x = lb + off if side == "lo" else ub - off
    else:
        x = lb + (ub - lb) * Fraction(rng.randint(1, 15), 16)
    if not dyadic:
        x = Fraction(float(x))
    x = min(max(x, lb), ub)
    bounds = {"none": None, "lower": (lb, None), "upper": (None, ub),
              "both": (lb, ub)}[kind]
    deg = DEG[(order, n)]
    coeffs = [rng.randint(-9, 9) for _ in range(deg + 1 if rng.random() < 0.7 else rng.randint(1, deg + 1))]
    return dict(order=order, n=n, x=x, dx=-dx if negdx else dx, bounds=bounds,
                coeffs=coeffs, pos=pos,
                kind=kind + ("0" if zero_end else "") + ("-narrow" if narrow else "")
                + ("-critical" if critical else "")
                + ("-negdx" if negdx else ""), dyadic=dyadic,
                int_bounds=rng.random() < 0.5)


def fixed_case(order, n, x, dx, lb, ub, coeffs):
    return dict(order=order, n=n, x=Fraction(x), dx=Fraction(dx),
                bounds=(Fraction(lb), Fraction(ub)), coeffs=coeffs, pos="fixed",
                kind="both-narrow", dyadic=True, int_bounds=False)


def run_impl(case):
    from WallGo import helpers
    f = Rec(case["coeffs"])
    b = case["bounds"]
    bounds = None
    if b is not None:
        def num(v):
            f = float(v)
            return int(f) if f == int(f) and case.get("int_bounds") else f
        bounds = (num(b[0]) if b[0] is not None else -np.inf,
                  num(b[1]) if b[1] is not None else np.inf)
    res = helpers.derivative(f, float(case["x"]), n=case["n"], order=case["order"],
                             bounds=bounds, dx=float(case["dx"]))
    pts = [Fraction(float(p)) for p in np.asarray(f.calls[0]).ravel()]
    return float(res), pts, f


def jcase(c):
    d = dict(c)
    d["x"] = float(c["x"]).hex()
    d["dx"] = float(c["dx"]).hex()
    if c["bounds"] is not None:
        d["bounds"] = [None if v is None else float(v).hex() for v in c["bounds"]]
    return d


def check_direct(ctx, case, res, pts, f):
    """The property evaluated on the implementation (exact rational bookkeeping).  Every
    clause is judged for every input: an out-of-bounds hit of the known class does not
    switch off the judgement of the value."""
    order, n = case["order"], case["n"]
    x = Fraction(float(case["x"]))
    b = case["bounds"]
    ok = True
    # the exact step  fl(x + dx) - x
    dxe = Fraction(float(float(x) + float(case["dx"]))) - x
    # every call of f uses the same abscissas
    for other in f.calls[1:]:
        if not np.array_equal(np.asarray(other), np.asarray(f.calls[0])):
            ctx.fail_input(
                "derivative(order=%d,n=%d) evaluates f a second time at other abscissas "
                "%s (first call %s)" % (order, n, np.asarray(other).ravel().tolist(),
                                        np.asarray(f.calls[0]).ravel().tolist()),
                dict(kind="second_call", case=jcase(case)), key="second-evaluation-differs")
            ok = False
    allpts = [Fraction(float(p)) for c in f.calls for p in np.asarray(c).ravel()]
    # never outside the bounds
    if b is not None and case["dx"] > 0:
        lo = Fraction(float(b[0])) if b[0] is not None else None
        hi = Fraction(float(b[1])) if b[1] is not None else None
        for p in allpts:
            if (lo is not None and p < lo) or (hi is not None and p > hi):
                # class rule of the recorded finding: BOTH bounds finite and the interval
                # narrower than the stencil (width < K * exact step)
                # ... or wider by less than the rounding of the abscissas (relative 2^-48) with
                # an excursion of at most 2 ulp of the bound: in exact arithmetic the point
                # is inside (stays_in_bounds), binary64 rounds x + p*dx one ulp past it
                K = K_WIDE[(order, n)]
                narrow = lo is not None and hi is not None and hi - lo < K * dxe
                if not narrow and lo is not None and hi is not None and \
                        hi - lo < K * dxe * (1 + Fraction(1, 2 ** 48)):
                    excess = lo - p if p < lo else p - hi
                    edge = float(lo if p < lo else hi)
                    narrow = excess <= 2 * Fraction(math.ulp(edge))
                ctx.fail_input(
                    "derivative(order=%d,n=%d) evaluates outside the bounds at %r%s" %
                    (order, n, float(p), " (interval narrower than the stencil)"
                     if narrow else ""),
                    dict(kind="out_of_bounds", case=jcase(case), point=float(p).hex()),
                    key="narrow-bounds" if narrow else "out-of-bounds-wide-interval")
                ok = False
                break
    # exactness: the stencil value in exact arithmetic on the recorded points
    if not math.isfinite(res):
        ctx.fail_input("derivative(order=%d,n=%d) returns %r" % (order, n, res),
                       dict(kind="inexact", case=jcase(case), got=repr(res)),
                       key="non-finite-result")
        return False
    want = f.dexact(x, n)
    fam = "narrow" if "narrow" in case["kind"] else ("critical" if "critical" in case["kind"]
                                                     else ("dyadic" if case["dyadic"]
                                                           else "float"))
    if not value_ok(fam, res, want, case["coeffs"], pts, dxe, order, n):
        ctx.fail_input(
            "derivative(order=%d,n=%d) is not exact on a degree-%d polynomial: got %r, "
            "exact %r%s" % (order, n, len(case["coeffs"]) - 1, res, float(want),
                            " (narrow interval)" if "narrow" in case["kind"] else ""),
            dict(kind="inexact", case=jcase(case), got=res, want=float(want)),
            key="inexact-%d-%d" % (order, n))
        return False
    return ok


def corr_cases(ctx, cases_with_results):
    """Coq side: model evaluation points == recorded points (exactly) and model value
    within tolerance of the implementation's value, by vm_compute."""
    header = ("From Coq Require Import List ZArith QArith Qabs Bool.\n"
              "From WG Require Import Lib.Stencil.\nFrom GenC19 Require Import Tables.\n"
              "Import ListNotations.\n"
              "Definition eqlist (a b : list Q) : bool := (length a =? length b)%nat && "
              "forallb (fun p => Qeq_bool (fst p) (snd p)) (combine a b).\n"
              "Definition chk (n order : Z) (x dx : Q) (lb ub : bound) (poly : list Q) "
              "(pts : list Q) (res tol : Q) : bool :=\n"
              "  let coefT := if (n =? 1)%Z then (if (order =? 2)%Z then "
              "FIRST_DERIV_COEFF_2 else FIRST_DERIV_COEFF_4) else (if (order =? 2)%Z "
              "then SECOND_DERIV_COEFF_2 else SECOND_DERIV_COEFF_4) in\n"
              "  let posT := if (n =? 1)%Z then (if (order =? 2)%Z then "
              "FIRST_DERIV_POS_2 else FIRST_DERIV_POS_4) else (if (order =? 2)%Z "
              "then SECOND_DERIV_POS_2 else SECOND_DERIV_POS_4) in\n"
              "  match eval_points offset posT order x dx lb ub, "
              "derivQ offset coefT posT (Z.to_nat n) order (pevalQ poly) x dx lb ub with\n"
              "  | Some p, Some v => eqlist p pts && Qabs_le v res tol\n"
              "  | _, _ => false end.\n")
    terms = []
    for case, res, pts in cases_with_results:
        b = case["bounds"]
        lb = "NegInf" if b is None or b[0] is None else "(Fin %s)" % vlib.coq_Q(b[0])
        ub = "PosInf" if b is None or b[1] is None else "(Fin %s)" % vlib.coq_Q(b[1])
        x = Fraction(float(case["x"]))
        dx = Fraction(float(case["dx"]))
        # rounding model: the weighted sum is accurate to a few ulp of sum|c_i f(P_i)|/dx^n
        absval = lambda q: sum(abs(Fraction(c)) * abs(q) ** i
                               for i, c in enumerate(case["coeffs"]))
        dxe = Fraction(float(float(x) + float(dx))) - x
        tol = 2 * RTOL * rounding_bound(case["coeffs"], pts, dxe, case["order"], case["n"])
        # a short literal for Coq (binary64 value, rounded up); exact zero polynomial: 1e-30
        tol = Fraction(float(tol) * (1 + 2.0 ** -40)) if tol > Fraction(1, 10 ** 300) \
            else Fraction(1, 10 ** 30)
        terms.append("chk %d %d %s %s %s %s [%s] [%s] %s %s" % (
            case["n"], case["order"], vlib.coq_Q(x), vlib.coq_Q(dx), lb, ub,
            "; ".join(vlib.coq_Q(c) for c in case["coeffs"]),
            "; ".join(vlib.coq_Q(p) for p in pts), vlib.coq_Q(Fraction(res)),
            vlib.coq_Q(tol)))
    bad = ctx.run_cases("corr", header, terms, per_file=250)
    return bad


# ---------------------------------------------------------------------------------------
# multivariate integer polynomials of the proved exactness class

def make_poly(rng, nv, order, nterms=6):
    """total degree <= 3 (order 2) / 5 (order 4) -- the class of hessian_exact -- and degree
    <= order along each variable -- the class of gradient_exact; integer coefficients"""
    d = 3 if order == 2 else 5
    monos = [m for m in itertools.product(range(order + 1), repeat=nv) if sum(m) <= d]
    terms = {m: rng.randint(-5, 5) for m in rng.sample(monos, min(len(monos), nterms))}
    rec = []

    def f(xs, *args):
        xs = np.asarray(xs, dtype=float)
        rec.append(xs.copy())
        r = np.zeros(xs.shape[:-1])
        for m, c in terms.items():
            t = c * np.ones(xs.shape[:-1])
            for i, p in enumerate(m):
                t = t * xs[..., i] ** p
            r = r + t
        return r

    def exact(point, dd):
        tot = Fraction(0)
        for m, c in terms.items():
            t = Fraction(c)
            for i, p in enumerate(m):
                k = dd[i]
                if k > p:
                    t = 0
                    break
                for s in range(k):
                    t *= (p - s)
                t *= Fraction(float(point[i])) ** (p - k)
            tot += t
        return tot

    def size(point):
        return sum(abs(c) * math.prod((abs(float(v)) + 1) ** p for v, p in zip(point, m))
                   for m, c in terms.items()) + 1

    return terms, f, exact, size, rec


def axis_list(a, nv):
    if a is None:
        return list(range(nv))
    if isinstance(a, int):
        return [a % nv]
    return [k % nv for k in a]


def shape_values(ctx, rng, ncases):
    """Results have the shape of the input plus the gradient/Hessian axes AND hold the
    right numbers in every slot: every lead shape with distinct points, every kind of axis
    selection (None, int, negative, lists in non-sorted order, negative entries, repeated
    entries), every way of giving the step (array dx, float dx, dx=None with float / array
    scale)."""
    from WallGo import helpers
    for it in range(ncases):
        order = rng.choice([2, 4])
        nv = rng.randint(1, 3)
        terms, f, exact, size, rec = make_poly(rng, nv, order)
        lead = rng.choice([(), (4,), (2, 3), (1,), (2, 1, 2)])
        dyadic = rng.random() < 0.5
        if dyadic:
            e = rng.randint(-10, 1)
            x = np.array([rng.randint(-16, 16) * 2.0 ** (e + 2)
                          for _ in range(int(np.prod(lead, dtype=int)) * nv)]
                         ).reshape(lead + (nv,))
            dxs = [rng.randint(1, 8) * 2.0 ** e for _ in range(nv)]
        else:
            x = np.array([rng.uniform(-2, 2) for _ in range(int(np.prod(lead, dtype=int)) * nv)]
                         ).reshape(lead + (nv,))
            dxs = [rng.uniform(0.1, 1) * 10.0 ** rng.randint(-4, -1) for _ in range(nv)]
        if rng.random() < 0.15:
            x = np.round(x * 4).astype(int)          # integer-typed input
        stepkind = rng.choice(["array", "float", "scale-float", "scale-array", "list-scale"])
        kw = {}
        if stepkind == "array":
            kw["dx"] = np.array(dxs)
            eff = dxs
        elif stepkind == "float":
            kw["dx"] = float(dxs[0])
            eff = [dxs[0]] * nv
        elif stepkind == "scale-float":
            kw["scale"] = float(rng.choice([0.5, 1.0, 2.0]))
            eff = None
        else:
            sc = [rng.choice([0.5, 1.0, 2.0, 3.0]) for _ in range(nv)]
            kw["scale"] = np.array(sc) if stepkind == "scale-array" else sc
            eff = None
        perm = list(range(nv))
        rng.shuffle(perm)
        gaxes = [None, rng.randint(-nv, nv - 1), [nv - 1], list(range(nv))[::-1], perm,
                 [-1, 0], [0, 0], [rng.randint(-nv, nv - 1) for _ in range(rng.randint(1, 4))]]
        flat = x.reshape(-1, nv)

        def steps(k):
            # effective step sizes (for the rounding model only)
            if eff is not None:
                return eff
            s = kw["scale"]
            s = [float(s)] * nv if isinstance(s, float) else list(np.asarray(s, dtype=float))
            return [v * 1e-16 ** (1 / (k + order)) for v in s]

        def tol(point, want, k, axes):
            st = steps(k)
            den = math.prod(st[a] for a in axes)
            # rounding model: the stencil combines values with sum|coefficient| <= 2.25 (Hessian,
            # order 4), each value carries the evaluation error of the polynomial itself,
            # ~ 2 * degree * (#terms) * eps * size <= ~20 eps size; 1e-13 ~ 450 eps leaves a
            # factor ~10 (1e-14 was seen to fire: exact 0.0, got -3.6e-12, VERIF_SEED=32)
            return 1e-13 * size(point) / den + 5e-10 * abs(want)

        case0 = dict(order=order, nv=nv, terms={str(k): v for k, v in terms.items()},
                     x=np.asarray(x).tolist(), lead=list(lead), step=stepkind,
                     kw={k: np.asarray(v).tolist() for k, v in kw.items()},
                     int_x=bool(np.asarray(x).dtype.kind == "i"))
        for axis in gaxes:
            al = axis_list(axis, nv)
            case = dict(case0, fn="gradient", axis=axis)
            ctx.count("shape_value", case)
            try:
                g = helpers.gradient(f, x, order=order, axis=axis, **kw)
            except Exception as e:
                ctx.fail_input("gradient raised %r for axis=%r, x.shape=%s, step=%s" % (
                    e, axis, x.shape, stepkind), dict(kind="shape_value", case=case),
                    key="raises-gradient")
                continue
            if np.shape(g) != lead + (len(al),):
                ctx.fail_input("gradient shape %s, expected %s (axis=%r)" % (
                    np.shape(g), lead + (len(al),), axis),
                    dict(kind="shape_value", case=case), key="shape-gradient")
                continue
            gf = np.asarray(g).reshape(-1, len(al))
            bad = None
            for pi, point in enumerate(flat):
                for k, a in enumerate(al):
                    dd = [1 if j == a else 0 for j in range(nv)]
                    want = float(exact(point, dd))
                    if not abs(gf[pi, k] - want) <= tol(point, want, 1, [a]):
                        bad = (pi, k, a, float(gf[pi, k]), want)
                        break
                if bad:
                    break
            if bad:
                ctx.fail_input(
                    "gradient(axis=%r)[point %d, slot %d] should be df/dx_%d = %r, got %r "
                    "(x.shape=%s, step=%s)" % (axis, bad[0], bad[1], bad[2], bad[4], bad[3],
                                               x.shape, stepkind),
                    dict(kind="shape_value", case=case), key="value-gradient-axis")
        haxes = [(None, None), (rng.randint(-nv, nv - 1), None), ([nv - 1], [0]), (-1, 0),
                 (perm, list(range(nv))[::-1]), ([-1, 0], perm), ([0, 0], [-1]),
                 ([rng.randint(-nv, nv - 1) for _ in range(rng.randint(1, 3))],
                  [rng.randint(-nv, nv - 1) for _ in range(rng.randint(1, 3))])]
        for xa, ya in haxes:
            xl, yl = axis_list(xa, nv), axis_list(ya, nv)
            case = dict(case0, fn="hessian", xAxis=xa, yAxis=ya)
            ctx.count("shape_value", case)
            try:
                h = helpers.hessian(f, x, order=order, xAxis=xa, yAxis=ya, **kw)
            except Exception as e:
                ctx.fail_input("hessian raised %r for xAxis=%r, yAxis=%r, x.shape=%s" % (
                    e, xa, ya, x.shape), dict(kind="shape_value", case=case),
                    key="raises-hessian")
                continue
            if np.shape(h) != lead + (len(xl), len(yl)):
                ctx.fail_input("hessian shape %s, expected %s (xAxis=%r, yAxis=%r)" % (
                    np.shape(h), lead + (len(xl), len(yl)), xa, ya),
                    dict(kind="shape_value", case=case), key="shape-hessian")
                continue
            hf = np.asarray(h).reshape(-1, len(xl), len(yl))
            bad = None
            for pi, point in enumerate(flat):
                for i, a in enumerate(xl):
                    for j, b in enumerate(yl):
                        dd = [0] * nv
                        dd[a] += 1
                        dd[b] += 1
                        want = float(exact(point, dd))
                        if not abs(hf[pi, i, j] - want) <= tol(point, want, 2, [a, b]):
                            bad = (pi, i, j, a, b, float(hf[pi, i, j]), want)
                            break
                    if bad:
                        break
                if bad:
                    break
            if bad:
                ctx.fail_input(
                    "hessian(xAxis=%r, yAxis=%r)[point %d, %d, %d] should be "
                    "d2f/dx_%d dx_%d = %r, got %r (x.shape=%s, step=%s)" % (
                        xa, ya, bad[0], bad[1], bad[2], bad[3], bad[4], bad[6], bad[5],
                        x.shape, stepkind),
                    dict(kind="shape_value", case=case), key="value-hessian-axis")


def grad_hess_points(ctx, rng, ncases):
    """evaluation points of gradient recorded and compared with the model's
    x + s_k e_axis dx  (exact, dyadic); f evaluated exactly once."""
    from WallGo import helpers
    for _ in range(ncases):
        order = rng.choice([2, 4])
        nv = rng.randint(1, 3)
        terms, f, exact, size, rec = make_poly(rng, nv, order)
        e = rng.randint(-12, 3)
        dx = [rng.randint(1, 8) * 2.0 ** e for _ in range(nv)]
        x0 = [rng.randint(-16, 16) * 2.0 ** (e + 2) for _ in range(nv)]
        x = np.array(x0)
        gcase = dict(order=order, nv=nv, terms={str(k): v for k, v in terms.items()},
                     x=x0, dx=dx)
        helpers.gradient(f, x, order=order, dx=np.array(dx))
        ctx.count("gradient_points", gcase)
        pts = rec[0].reshape(-1, nv)
        tb = helpers.FIRST_DERIV_POS[str(order)][0]
        want_pts = set()
        for s in tb:
            for i in range(nv):
                p = list(x0)
                p[i] = x0[i] + s * dx[i]
                want_pts.add(tuple(p))
        if len(rec) != 1 or set(map(tuple, pts.tolist())) != want_pts:
            ctx.fail_input("gradient evaluation points differ from x + s_k e_i dx_i",
                           dict(kind="gradient_points", case=gcase),
                           key="gradient-points")
        rec.clear()
        helpers.hessian(f, x, order=order, dx=np.array(dx))
        pts = rec[0].reshape(-1, nv)
        hp = helpers.HESSIAN_POS[str(order)]
        want_pts = set()
        for k in range(hp.shape[1]):
            for i in range(nv):
                for j in range(nv):
                    p = list(x0)
                    p[i] += hp[0, k] * dx[i]
                    p[j] += hp[1, k] * dx[j]
                    want_pts.add(tuple(p))
        if len(rec) != 1 or set(map(tuple, pts.tolist())) != want_pts:
            ctx.fail_input("hessian evaluation points differ from x + sx_k e_i dx_i + "
                           "sy_k e_j dx_j", dict(kind="hessian_points", case=gcase),
                           key="hessian-points")


# ---------------------------------------------------------------------------------------
# helpers.derivative on arrays and on the other kinds of input

def array_family(ctx, rng, ncases):
    """One call on an ARRAY whose elements sit at lb, lb+dx/2, lb+dx, lb+3dx/2, lb+2dx,
    interior, ..., ub (mixed stencil rows in one fancy-indexing call): shape, abscissas and
    values per element must equal the scalar call, bit for bit; all abscissas inside."""
    from WallGo import helpers
    for it in range(ncases):
        order = rng.choice([2, 4])
        n = rng.choice([1, 2])
        K = K_WIDE[(order, n)]
        ints = rng.random() < 0.25
        if ints:
            dx, lb = 1.0, float(rng.randint(-5, 5))
            ub = lb + 2 * K + 4
            xs = [lb, lb + 1, lb + 2, lb + K + 1, lb + K + 2, ub - 2, ub - 1, ub]
            xs = xs + [lb + 3] * (12 - len(xs))
            x = np.array(xs).astype(int)
            bounds = (int(lb), int(ub))
        else:
            if rng.random() < 0.5:
                dx = rng.randint(1, 16) * 2.0 ** rng.randint(-20, 4)
            else:
                dx = rng.uniform(0.1, 1.0) * 10.0 ** rng.randint(-6, 1)
            lb = rng.choice([0.0, rng.uniform(-3, 3)])
            ub = lb + (2 * K + 3 + 2.0 ** -10) * dx
            xs = [lb, lb + dx / 2, lb + dx, lb + 1.5 * dx, lb + 2 * dx, lb + (K + 1.25) * dx,
                  0.5 * (lb + ub), ub - 2 * dx, ub - 1.5 * dx, ub - dx, ub - dx / 2, ub]
            x = np.clip(np.array(xs), lb, ub)
            bounds = rng.choice([(lb, ub), [lb, ub], np.array([lb, ub]), (lb, np.inf),
                                 (-np.inf, ub)])
        shape = rng.choice([(12,), (3, 4), (2, 3, 2), (12, 1)])
        x = x.reshape(shape)
        coeffs = [rng.randint(-9, 9) for _ in range(DEG[(order, n)] + 1)]
        f = Rec(coeffs)
        case = dict(order=order, n=n, x=x.tolist(), dx=dx,
                    bounds=[float(bounds[0]), float(bounds[1])], coeffs=coeffs,
                    shape=list(shape), ints=ints, bounds_type=type(bounds).__name__)
        ctx.count("array", case, bucket="o%d n%d %s" % (order, n, "int" if ints else "flt"))
        try:
            r = helpers.derivative(f, x, n=n, order=order, bounds=bounds, dx=dx)
        except Exception as e:
            ctx.fail_input("derivative raised %r on an array input of shape %s" % (e, shape),
                           dict(kind="array", case=case), key="raises")
            continue
        if np.shape(r) != shape:
            ctx.fail_input("derivative result shape %s for input shape %s" %
                           (np.shape(r), shape), dict(kind="array", case=case),
                           key="shape-derivative")
            continue
        calls = list(f.calls)
        lo, hi = float(bounds[0]), float(bounds[1])
        if any(np.any(c < lo) or np.any(c > hi) for c in calls):
            ctx.fail_input("derivative on an array evaluates outside the bounds %r" % (
                [lo, hi],), dict(kind="array", case=case),
                key="out-of-bounds-wide-interval")
        if any(not np.array_equal(c, calls[0]) for c in calls[1:]):
            ctx.fail_input("derivative evaluates f a second time at other abscissas "
                           "(array input)", dict(kind="array", case=case),
                           key="second-evaluation-differs")
        P = calls[0].reshape(calls[0].shape[0], -1)
        rf = np.asarray(r).reshape(-1)
        xf = x.reshape(-1)
        for i in range(xf.size):
            g = Rec(coeffs)
            xi = xf[i].item()                     # python int or float
            ri = helpers.derivative(g, xi, n=n, order=order, bounds=bounds, dx=dx)
            pi = np.asarray(g.calls[0]).ravel()
            # abscissas bit for bit; the value up to summation order (numpy's vectorised product
            # and sum over the stencil may round differently from the scalar call: 1 ulp seen,
            # 4.0 vs 4.000000000000002, VERIF_SEED=40)
            _ps = sorted(set(pi.tolist()))
            _dxe = min(b - a for a, b in zip(_ps, _ps[1:])) if len(_ps) > 1 else 1.0
            _tolv = float(2 * RTOL * rounding_bound(coeffs, pi.tolist(), _dxe, order, n))
            if not np.array_equal(pi, P[:, i]) or not (
                    abs(float(ri) - float(rf[i])) <= _tolv):
                ctx.fail_input(
                    "derivative(f, x)[%d] differs from derivative(f, x[%d]) (x[%d]=%r): "
                    "value %r vs %r, abscissas %s vs %s" % (
                        i, i, i, xi, float(rf[i]), float(ri), P[:, i].tolist(),
                        pi.tolist()), dict(kind="array", case=case, index=i),
                    key="array-vs-scalar")
                break
            want = g.dexact(Fraction(xi), n)
            dxe = Fraction(float(float(xi) + dx)) - Fraction(xi)
            if not value_ok("array", float(ri), want, coeffs,
                            [Fraction(float(p)) for p in pi], dxe, order, n):
                ctx.fail_input(
                    "derivative(order=%d,n=%d) on %s x=%r inexact: got %r want %r" % (
                        order, n, "integer-typed" if ints else "float", xi, float(ri),
                        float(want)), dict(kind="array", case=case, index=i),
                    key="inexact-%d-%d" % (order, n))
                break


def misc_inputs(ctx, rng, ncases):
    """n = 0, extra args, vector-valued f (the coeff.reshape path used by
    FreeEnergy.derivative), dx=None with float epsilon/scale, integer-typed scalar x."""
    from WallGo import helpers
    for it in range(ncases):
        order = rng.choice([2, 4])
        n = rng.choice([1, 2])
        K = K_WIDE[(order, n)]
        deg = DEG[(order, n)]
        m = rng.randint(1, 3)
        polys = [Rec([rng.randint(-9, 9) for _ in range(deg + 1)]) for _ in range(m)]
        a, b = rng.randint(-4, 4), rng.randint(-4, 4)
        nev = [0]

        def vec(x, *args):
            nev[0] += 1
            x = np.asarray(x, dtype=float)
            s = (args[0] * x + args[1]) if args else 0.0
            return np.stack([p(x) + s for p in polys], axis=-1)

        dx = rng.randint(1, 16) * 2.0 ** rng.randint(-12, 2)
        lb = rng.choice([0.0, float(rng.randint(-3, 3))])
        ub = lb + (2 * K + 2) * dx
        xs = np.array([lb, lb + dx / 2, lb + dx, lb + 2 * dx, 0.5 * (lb + ub), ub - dx, ub])
        xin = rng.choice([xs, xs.reshape(7, 1), float(xs[rng.randint(0, 6)])])
        args = [a, b] if rng.random() < 0.6 else None
        case = dict(order=order, n=n, dx=dx, bounds=[lb, ub], m=m,
                    polys=[p.c for p in polys], args=args, x=np.asarray(xin).tolist())
        ctx.count("misc", case)
        for k in (n, 0):
            for p in polys:
                p.calls.clear()
            try:
                r = helpers.derivative(vec, xin, n=k, order=order, bounds=(lb, ub), dx=dx,
                                       args=args)
            except Exception as e:
                ctx.fail_input("derivative raised %r on a vector-valued f (n=%d, args=%r)"
                               % (e, k, args), dict(kind="misc", case=case), key="raises")
                break
            want_shape = np.shape(xin) + (m,)
            if np.shape(r) != want_shape:
                ctx.fail_input("derivative of a vector-valued f has shape %s, expected %s"
                               % (np.shape(r), want_shape), dict(kind="misc", case=case),
                               key="shape-derivative")
                break
            if any(np.any(c < lb) or np.any(c > ub) for p in polys for c in p.calls):
                ctx.fail_input("derivative (vector-valued f) evaluates outside the bounds",
                               dict(kind="misc", case=case),
                               key="out-of-bounds-wide-interval")
            xf = np.asarray(xin, dtype=float).reshape(-1)
            rf = np.asarray(r).reshape(-1, m)
            bad = False
            for i, xv in enumerate(xf):
                for j, p in enumerate(polys):
                    want = p.dexact(Fraction(float(xv)), k)
                    if args:
                        want += [a * Fraction(float(xv)) + b, a, 0][k]
                    mag = (sum(abs(c) for c in p.c) + abs(a) + abs(b)) * \
                        (abs(xv) + (K + 1) * dx + 1) ** deg / dx ** k
                    if abs(float(rf[i, j]) - float(want)) > 1e-12 * mag + 1e-9 * abs(
                            float(want)):
                        ctx.fail_input(
                            "derivative(n=%d, order=%d) of component %d of a vector-valued "
                            "f at x=%r (args=%r): got %r want %r" % (
                                k, order, j, float(xv), args, float(rf[i, j]), float(want)),
                            dict(kind="misc", case=case, n=k), key="inexact-vector-valued")
                        bad = True
                        break
                if bad:
                    break
        # dx=None: the step is scale * epsilon ** (1/(n+order)); integer-typed scalar x
        p = Rec([rng.randint(-9, 9) for _ in range(deg + 1)])
        scale = rng.choice([0.5, 1.0, 3.0])
        eps = rng.choice([1e-16, 1e-12, 1e-8])
        xi = rng.choice([rng.randint(0, 5), np.int64(rng.randint(0, 5)), float(rng.randint(0, 5)),
                         rng.uniform(0, 5)])
        case = dict(order=order, n=n, coeffs=p.c, scale=scale, eps=eps, x=repr(xi))
        ctx.count("misc", case)
        try:
            r = helpers.derivative(p, xi, n=n, order=order, bounds=(0, np.inf), epsilon=eps,
                                   scale=scale)
        except Exception as e:
            ctx.fail_input("derivative raised %r with dx=None, x=%r" % (e, xi),
                           dict(kind="misc", case=case), key="raises")
            continue
        pts = np.asarray(p.calls[0]).ravel()
        step = scale * eps ** (1 / (n + order))
        d = np.diff(pts) / step
        if pts.min() < 0 or not np.all((np.abs(d - 1) < 1e-6) | (np.abs(d - 2) < 1e-6)):
            ctx.fail_input("derivative with dx=None uses abscissas %s (expected spacing "
                           "scale*eps^(1/(n+order)) = %r, never below 0)" % (
                               pts.tolist(), step), dict(kind="misc", case=case),
                           key="default-step")
        want = float(p.dexact(Fraction(float(xi)), n))
        mag = sum(abs(c) for c in p.c) * (abs(float(xi)) + 5 * step + 1) ** deg / step ** n
        if abs(float(r) - want) > 1e-12 * mag + 1e-9 * abs(want):
            ctx.fail_input("derivative with dx=None (scale=%r, epsilon=%r) at x=%r: got %r "
                           "want %r" % (scale, eps, xi, float(r), want),
                           dict(kind="misc", case=case), key="inexact-default-step")


def step_limits(ctx, rng, ncases):
    """Boundary of the quantifier 'every step size': the step is what the exact-step trick
    makes of it, fl(x+dx)-x.  For dx >= ulp(x) that is non-zero and every clause is judged
    (finite result, abscissas inside the bounds, exact up to rounding).  Below ulp(x)/2 the
    step collapses to 0 and the result is nan on the unchanged tree: outside the quantifier
    (|x|/dx < 2^53 is the hypothesis), logged as an observation, not judged.
    dx < 0 is likewise outside (a step size is a magnitude); the VALUE is still judged
    (derivative_value_exact covers every dx != 0), the abscissas are only counted."""
    from WallGo import helpers
    nan_seen = below = rejected = 0
    neg_out = neg = 0
    for it in range(ncases):
        order = rng.choice([2, 4])
        n = rng.choice([1, 2])
        deg = DEG[(order, n)]
        x = rng.uniform(0.5, 1.0) * 10.0 ** rng.randint(0, 10)
        u = math.ulp(x)
        coeffs = [rng.randint(-9, 9) for _ in range(deg + 1)]
        f = Rec(coeffs)
        dx = u * rng.choice([1.0, 1.5, 2.0, 3.0, 8.0, 1000.0])
        lb = rng.choice([x, x - dx, x - 3 * u, 0.0])
        case = dict(order=order, n=n, x=x.hex(), dx=dx.hex(), bounds=[lb.hex(), None],
                    coeffs=coeffs, pos="ulp", kind="lower-ulp")
        ctx.count("step_limits", case)
        r = helpers.derivative(f, x, n=n, order=order, bounds=(lb, np.inf), dx=dx)
        pts = np.asarray(f.calls[0]).ravel()
        if not math.isfinite(float(r)):
            ctx.fail_input("derivative returns %r for dx = %g ulp(x) (x=%r): the exact "
                           "step fl(x+dx)-x is non-zero there" % (float(r), dx / u, x),
                           dict(kind="ulp", case=case), key="non-finite-result")
        elif pts.min() < lb:
            ctx.fail_input("derivative with dx = %g ulp(x) evaluates below the bound" % (
                dx / u), dict(kind="ulp", case=case), key="out-of-bounds-wide-interval")
        else:
            dxe = Fraction(float(x + dx)) - Fraction(x)
            want = f.dexact(Fraction(x), n)
            if not value_ok("ulp_step", float(r), want, coeffs,
                            [Fraction(float(p)) for p in pts], dxe, order, n):
                ctx.fail_input("derivative with dx = %g ulp(x) inexact beyond rounding: got "
                               "%r want %r" % (dx / u, float(r), float(want)),
                               dict(kind="ulp", case=case), key="inexact-%d-%d" % (order, n))
        # below the resolution of x: observation only
        g = Rec(coeffs)
        below += 1
        try:
            r0 = helpers.derivative(g, x, n=n, order=order, dx=u * 0.25)
            nan_seen += not math.isfinite(float(r0))
        except AssertionError:
            rejected += 1
        # negative step: value judged, abscissas counted
        h = Rec(coeffs)
        dxn = -rng.uniform(0.1, 1.0) * 10.0 ** rng.randint(-6, 0)
        xs = rng.choice([0.0, -dxn, rng.uniform(0, 2) * -dxn, rng.uniform(0, 3)])
        neg += 1
        try:
            rn = helpers.derivative(h, xs, n=n, order=order, bounds=(0.0, np.inf), dx=dxn)
        except AssertionError:
            rejected += 1
            continue
        pn = np.asarray(h.calls[0]).ravel()
        neg_out += bool(pn.min() < 0)
        dxe = Fraction(float(xs + dxn)) - Fraction(xs)
        want = h.dexact(Fraction(xs), n)
        if not value_ok("negative_step", float(rn), want, coeffs,
                        [Fraction(float(p)) for p in pn], dxe, order, n):
            ctx.fail_input("derivative with a negative step dx=%r: value inexact (got %r, "
                           "want %r)" % (dxn, float(rn), float(want)),
                           dict(kind="negdx", x=xs, dx=dxn, order=order, n=n, coeffs=coeffs),
                           key="inexact-%d-%d" % (order, n))
    ctx.log("observation (outside the quantifier): dx < ulp(x)/2 -> non-finite result in "
            "%d of %d calls; dx < 0 with bounds (0, inf) -> abscissas below 0 in %d of %d "
            "calls (value exact in all); %d calls rejected by an assertion" % (
                nan_seen, below, neg_out, neg, rejected))


# ---------------------------------------------------------------------------------------
# EffectivePotential level

def _mono_poly(rng, nf):
    """monomials in (fields..., T): total degree <= 4, degree <= 4 per variable (inside the
    exactness class of the order-4 gradient, hessian and derivT stencils)"""
    monos = [m for m in itertools.product(range(5), repeat=nf + 1)
             if 1 <= sum(m) <= 4 and m[nf] <= 3]
    chosen = rng.sample(monos, min(len(monos), 8))
    # make sure every second derivative is exercised: phi_0^2, phi_0 T, T^2 present
    for m in ([2] + [0] * nf, [1] + [0] * (nf - 1) + [1], [0] * nf + [2], [0] * nf + [3]):
        m = tuple(m[:nf + 1])
        if m not in chosen:
            chosen.append(m)
    return chosen


def _pot_exact(params, monos, point, dd):
    tot = 0.0
    for m in monos:
        t = float(params["c" + "".join(map(str, m))])
        for i, p in enumerate(m):
            k = dd[i]
            if k > p:
                t = 0.0
                break
            for s in range(k):
                t *= (p - s)
            t *= float(point[i]) ** (p - k)
        tot += t
    return tot


def make_potential_class(nf, monos):
    from WallGo import EffectivePotential, Fields

    class Poly(EffectivePotential):
        fieldCount = nf
        effectivePotentialError = 1e-15

        def __init__(self, params):
            self.modelParameters = dict(params)
            self.seenT = []

        def evaluate(self, fields, temperature):
            T = np.asarray(temperature, dtype=float)
            self.seenT.append(float(np.min(T)))
            fs = np.asarray(fields)
            r = 0.0
            for m in monos:
                t = self.modelParameters["c" + "".join(map(str, m))]
                for i in range(nf):
                    if m[i]:
                        t = t * fs[..., i] ** m[i]
                if m[nf]:
                    t = t * T ** m[nf]
                r = r + t
            return r

    return Poly


ENTRY_POINTS = ["derivT", "derivField", "deriv2FieldT", "deriv2Field2", "allSecondDerivatives"]


def _flatten(res):
    if isinstance(res, tuple):
        return np.concatenate([np.asarray(r, dtype=float).ravel() for r in res])
    return np.asarray(res, dtype=float).ravel()


def potential_history(ctx, rng, ncases):
    """Histories on ONE EffectivePotential object: evaluate every derivative entry point,
    mutate modelParameters IN PLACE, evaluate the same point again, re-configure the
    derivative scales, evaluate again ... Every result is compared (a) with a FRESH object
    carrying the current parameters and settings (must be bit-identical: the derivative
    routines have no state), (b) with the exact derivatives of the polynomial potential.
    Points: N field points with an array T that contains 0, dT, 2dT and interior values;
    fieldCount 1, 2, 3; integer- and float-typed fields."""
    import WallGo
    from WallGo import Fields
    for it in range(ncases):
        nf = rng.choice([1, 2, 2, 3])
        monos = _mono_poly(rng, nf)
        Poly = make_potential_class(nf, monos)
        params = {"c" + "".join(map(str, m)): float(rng.randint(-5, 5) or 1) for m in monos}
        pot = Poly(params)
        params0 = dict(params)

        def new_settings():
            return WallGo.VeffDerivativeSettings(
                temperatureVariationScale=rng.choice([0.1, 1.0, 1.1, 2.0, 2]),  # int: coerced by configureDerivatives
                fieldValueVariationScale=rng.choice(
                    [1.0, 0.5, [rng.choice([0.5, 1.0, 2.0]) for _ in range(nf)]]))

        settings = new_settings()
        settings0 = [settings.temperatureVariationScale,
                     np.asarray(settings.fieldValueVariationScale).tolist()]
        pot.configureDerivatives(settings)

        def dT_of(s):
            return s.temperatureVariationScale * 1e-15 ** (1 / 5)

        # two points: a batch with an array T (incl. T at and next to the bound 0) and a
        # single point with scalar T
        N = rng.choice([1, 3, 5])
        ints = rng.random() < 0.3
        vals = [[rng.randint(-3, 3) if ints else rng.uniform(-3, 3) for _ in range(nf)]
                for _ in range(N)]
        d0 = dT_of(settings)
        Tpool = [0.0, d0, 2 * d0, 0.5 * d0, 1.5 * d0, rng.uniform(0.2, 3.0),
                 rng.uniform(0.2, 3.0)]
        Tarr = np.array([rng.choice(Tpool) for _ in range(N)])
        single = [rng.randint(-3, 3) if ints else rng.uniform(-3, 3) for _ in range(nf)]
        points = [("batch", vals, Tarr.tolist()), ("single", [single], rng.choice(Tpool))]
        log = []

        def call(obj, name, pt):
            F = Fields(*[np.array(v) for v in pt[1]]) if len(pt[1]) > 1 else Fields(pt[1][0])
            T = np.array(pt[2]) if isinstance(pt[2], list) else pt[2]
            return getattr(obj, name)(F, T)

        def exact(name, pt, par):
            out = []
            Ts = pt[2] if isinstance(pt[2], list) else [pt[2]] * len(pt[1])
            for v, T in zip(pt[1], Ts):
                P = [float(q) for q in v] + [float(T)]
                e = lambda *idx: _pot_exact(par, monos, P, [idx.count(i) for i in
                                                               range(nf + 1)])
                if name == "derivT":
                    out.append([e(nf)])
                elif name == "derivField":
                    out.append([e(i) for i in range(nf)])
                elif name == "deriv2FieldT":
                    out.append([e(i, nf) for i in range(nf)])
                elif name == "deriv2Field2":
                    out.append([e(i, j) for i in range(nf) for j in range(nf)])
            if name == "allSecondDerivatives":
                return np.concatenate([
                    np.ravel(exact("deriv2Field2", pt, par)),
                    np.ravel(exact("deriv2FieldT", pt, par)),
                    np.ravel([[_pot_exact(par, monos, [float(q) for q in v] + [float(T)],
                                          [0] * nf + [2])] for v, T in zip(pt[1], Ts)])])
            return np.ravel(out)

        last = [None]

        def evaluate_all():
            # every (entry point, point) pair in random order, except that the point
            # evaluated LAST before the mutation / re-configuration comes first: a result
            # remembered per point must not survive the change
            pairs = [(name, pt) for name in ENTRY_POINTS for pt in points]
            rng.shuffle(pairs)
            pairs.sort(key=lambda q: q[1][0] != last[0])
            for name, pt in pairs:
                last[0] = pt[0]
                if True:
                    log.append(["eval", name, pt[0]])
                    case = dict(nf=nf, monos=[list(m) for m in monos], params0=params0,
                                settings0=settings0,
                                params=dict(pot.modelParameters), history=list(log),
                                points=[[p[0], p[1], p[2]] for p in points],
                                settings=[settings.temperatureVariationScale,
                                          np.asarray(settings.fieldValueVariationScale).tolist()],
                                ints=ints)
                    ctx.count("potential_history", case)
                    pot.seenT.clear()
                    try:
                        got = _flatten(call(pot, name, pt))
                    except Exception as e:
                        ctx.fail_input("EffectivePotential.%s raised %r after the history %s"
                                       % (name, e, log), dict(kind="history", case=case),
                                       key="potential-raises")
                        return False
                    # (only derivT passes bounds; the Hessian stencils are central in T)
                    if name == "derivT" and min(pot.seenT) < 0:
                        ctx.fail_input(
                            "EffectivePotential.derivT evaluates the potential at T=%r < 0"
                            % min(pot.seenT), dict(kind="history", case=case),
                            key="derivT-negative-temperature")
                    fresh = Poly(dict(pot.modelParameters))
                    fresh.configureDerivatives(settings)
                    ref = _flatten(call(fresh, name, pt))
                    if got.shape != ref.shape or not np.array_equal(got, ref):
                        ctx.fail_input(
                            "EffectivePotential.%s depends on the object's history: after "
                            "%s it returns %s, a fresh object with the same parameters and "
                            "settings returns %s" % (name, log, got.tolist()[:6],
                                                     ref.tolist()[:6]),
                            dict(kind="history", case=case), key="potential-history")
                        return False
                    want = exact(name, pt, pot.modelParameters)
                    tl = 1e-6 if name in ("derivT", "derivField") else 2e-4
                    if got.shape != want.shape or np.max(np.abs(got - want)) > tl * (
                            1 + np.max(np.abs(want))):
                        ctx.fail_input(
                            "EffectivePotential.%s inexact on a quartic potential (%d "
                            "fields, %s, T=%s): got %s want %s" % (
                                name, nf, "int" if ints else "float", pt[2],
                                got.tolist()[:6], want.tolist()[:6]),
                            dict(kind="history", case=case), key="potential-" + name)
                        return False
            return True

        ok = evaluate_all()
        for step in range(rng.randint(2, 3)):
            if not ok:
                break
            if rng.random() < 0.65:
                ks = rng.sample(sorted(pot.modelParameters), rng.randint(1, len(monos)))
                for k in ks:
                    pot.modelParameters[k] = float(rng.randint(-6, 6) or 2)   # in place
                log.append(["mutate", {k: pot.modelParameters[k] for k in ks}])
            else:
                settings = new_settings()
                pot.configureDerivatives(settings)
                log.append(["configure", settings.temperatureVariationScale,
                            np.asarray(settings.fieldValueVariationScale).tolist()])
            ok = evaluate_all()


def potential_level(ctx, rng, ncases):
    """The derivative routines as EffectivePotential uses them (derivT with bounds
    (0, inf); derivField / deriv2Field2 / deriv2FieldT on the combined (fields, T)
    array), on a polynomial potential of the exactness class, for float- and
    integer-typed field input and temperatures within a few steps of T = 0."""
    import WallGo
    from WallGo import EffectivePotential, Fields

    class Poly(EffectivePotential):
        fieldCount = 2
        effectivePotentialError = 1e-15

        def evaluate(self, fields, temperature):
            self.seenT.append(np.min(np.asarray(temperature)))
            f = Fields(fields)
            a, b = f.getField(0), f.getField(1)
            T = np.asarray(temperature)
            return (3 * a ** 2 - 2 * a * b + b ** 2 * T + 0.5 * a ** 3 - a * b * T ** 2
                    + 0.25 * a ** 4 + 2 * T ** 3 - T * a)

    def exact(a, b, T):
        dVda = 6 * a - 2 * b + 1.5 * a ** 2 - b * T ** 2 + a ** 3 - T
        dVdb = -2 * a + 2 * b * T - a * T ** 2
        dVdT = b ** 2 - 2 * a * b * T + 6 * T ** 2 - a
        H = [[6 + 3 * a + 3 * a ** 2, -2 - T ** 2], [-2 - T ** 2, 2 * T]]
        dT = [-2 * b * T - 1, 2 * b - 2 * a * T]
        return [dVda, dVdb], dVdT, H, dT

    pot = Poly()
    pot.seenT = []
    scaleT = rng.choice([0.1, 1.0, 1.1])
    pot.configureDerivatives(WallGo.VeffDerivativeSettings(
        temperatureVariationScale=scaleT, fieldValueVariationScale=[1.0, 2.0]))
    dT = scaleT * 1e-15 ** (1 / 5)
    for _ in range(ncases):
        ints = rng.random() < 0.5
        a, b = (rng.randint(-3, 3), rng.randint(-3, 3)) if ints else \
            (rng.uniform(-3, 3), rng.uniform(-3, 3))
        T = rng.choice([0.0, dT, 2 * dT, 2 * dT * (1 + 1e-9), 0.5 * dT, 1.5 * dT,
                        rng.uniform(0.2, 3.0), rng.uniform(0.2, 3.0)])
        fields = Fields([a, b])
        g, dt, H, gt = exact(float(a), float(b), T)
        case = dict(a=a, b=b, T=T, int_fields=ints, scaleT=scaleT)
        pot.seenT.clear()
        got_dt = float(np.asarray(pot.derivT(fields, T)).ravel()[0])
        ctx.count("potential_level", case)
        if min(pot.seenT) < 0:
            ctx.fail_input("EffectivePotential.derivT(T=%r) evaluates the potential at "
                           "T=%r < 0" % (T, float(min(pot.seenT))),
                           dict(kind="potential", what="negative T", case=case),
                           key="derivT-negative-temperature")
        tol = 1e-6
        if abs(got_dt - dt) > tol * (1 + abs(dt)):
            ctx.fail_input("derivT inexact on a cubic-in-T potential: got %r want %r" %
                           (got_dt, dt), dict(kind="potential", case=case),
                           key="potential-derivT")
        got_g = np.asarray(pot.derivField(fields, T)).ravel()
        got_H = np.asarray(pot.deriv2Field2(fields, T)).reshape(2, 2)
        got_gt = np.asarray(pot.deriv2FieldT(fields, T)).ravel()
        for name, got, want, tl in (("derivField", got_g, g, 1e-7),
                                    ("deriv2Field2", got_H.ravel(), np.ravel(H), 1e-4),
                                    ("deriv2FieldT", got_gt, gt, 1e-4)):
            if np.max(np.abs(np.asarray(got) - np.asarray(want))) > tl * (
                    1 + np.max(np.abs(want))):
                ctx.fail_input("EffectivePotential.%s inexact on a quartic potential "
                               "(fields %s, T=%r): got %s want %s" % (
                                   name, "int" if ints else "float", T,
                                   np.asarray(got).tolist(), np.asarray(want).tolist()),
                               dict(kind="potential", fn=name, case=case),
                               key="potential-" + name)


def outside_family(ctx, rng, ncases):
    """x OUTSIDE the stated bounds (by one ulp, 1e-12, 5e-11, 1e-10 relative/absolute, one
    step, nan; either side; scalar or one element of an array) must be REFUSED before f is
    evaluated: that assertion is the only thing between a bad x and an evaluation outside
    the bounds (Coq: rejected_or_in_bounds over the translated guard).  Also the documented
    refusals of gradient/hessian: axis outside [-n, n)."""
    from WallGo import helpers
    for it in range(ncases):
        order = rng.choice([2, 4])
        n = rng.choice([0, 1, 2])
        lb = rng.choice([0.0, 0.0, rng.uniform(-3, 3), float(rng.randint(-3, 3))])
        width = rng.uniform(0.5, 4.0)
        ub = lb + width
        kind = rng.choice(["lower", "upper", "both"])
        bounds = {"lower": (lb, np.inf), "upper": (-np.inf, ub), "both": (lb, ub)}[kind]
        side = "lo" if kind == "lower" else ("hi" if kind == "upper" else
                                             rng.choice(["lo", "hi"]))
        edge = lb if side == "lo" else ub
        sgn = -1.0 if side == "lo" else 1.0
        dx = rng.uniform(0.1, 1.0) * 10.0 ** rng.randint(-6, -1)
        how = rng.choice(["ulp", "1e-12", "5e-11", "1e-10", "1e-9rel", "step", "nan"])
        xo = {"ulp": float(np.nextafter(edge, sgn * np.inf)), "1e-12": edge + sgn * 1e-12,
              "5e-11": edge + sgn * 5e-11, "1e-10": edge + sgn * 1e-10,
              "1e-9rel": edge + sgn * 1e-9 * max(1.0, abs(edge)), "step": edge + sgn * dx,
              "nan": float("nan")}[how]
        if how != "nan" and not (xo < lb or xo > ub):
            xo = float(np.nextafter(edge, sgn * np.inf))
        f = Rec([1, 3, -2])
        if rng.random() < 0.5:
            xin = xo
        else:
            inside = np.clip(np.array([lb + 3 * dx, lb + 5 * dx, ub - 3 * dx]), *sorted(
                (max(lb, -1e300), min(ub, 1e300)))) if kind == "both" else \
                np.array([edge - sgn * 3 * dx, edge - sgn * 5 * dx, edge - sgn * dx])
            xin = inside.copy()
            xin[rng.randint(0, 2)] = xo
        case = dict(order=order, n=n, x=np.asarray(xin).tolist(), dx=dx,
                    bounds=[float(bounds[0]), float(bounds[1])], how=how, side=side)
        ctx.count("outside", case, bucket="%s %s n%d" % (how, side, n))
        try:
            r = helpers.derivative(f, xin, n=n, order=order, bounds=bounds, dx=dx)
        except AssertionError:
            if f.calls:
                ctx.fail_input("derivative evaluated f at %s before refusing x=%r outside "
                               "the bounds %r" % (np.asarray(f.calls[0]).ravel().tolist(), xin,
                                                  bounds),
                               dict(kind="outside", case=case), key="x-outside-evaluated")
            continue
        except Exception as e:
            ctx.fail_input("derivative raised %r (not the documented AssertionError) for x "
                           "outside the bounds" % e, dict(kind="outside", case=case),
                           key="x-outside-raises-other")
            continue
        pts = np.concatenate([np.asarray(c).ravel() for c in f.calls]) if f.calls else []
        ctx.fail_input(
            "derivative ACCEPTS x=%r outside the bounds %r (%s beyond the %s bound) and "
            "evaluates f at %s (result %s)" % (
                xin, tuple(float(b) for b in bounds), how, "lower" if side == "lo" else "upper",
                np.asarray(pts).tolist(), np.asarray(r).tolist()),
            dict(kind="outside", case=case), key="x-outside-bounds-accepted")
    # axis selections outside [-n, n) are refused
    for nv in (1, 2, 3):
        x = np.arange(1.0, nv + 1.0)
        g = lambda X: (np.asarray(X) ** 2).sum(-1)
        for bad in (nv, -nv - 1, [0, nv], [-nv - 1]):
            for fn, kw in ((helpers.gradient, dict(axis=bad)), (helpers.hessian, dict(xAxis=bad)),
                           (helpers.hessian, dict(yAxis=bad))):
                ctx.count("outside")
                try:
                    fn(g, x, dx=0.1, **kw)
                except AssertionError:
                    continue
                except Exception as e:
                    pass
                ctx.fail_input("%s accepts the axis selection %r for %d variables" % (
                    fn.__name__, bad, nv), dict(kind="axis_range", nv=nv, bad=bad,
                                                fn=fn.__name__, kw=list(kw)),
                    key="axis-out-of-range-accepted")


def potential_shapes(ctx, rng, ncases):
    """SHAPES (np.shape, before any flattening) and values of the five EffectivePotential
    entry points for the kinds of input the production path uses: FieldPoint (1-D, what
    FreeEnergy.tracePhase passes), Fields with one / N points; temperature as python float,
    int, numpy scalar, 0-d array, length-1 / length-N list or array.  Contract (docstrings):
    T is a scalar or a 1-D array with one entry per field point.  derivT has the shape of T;
    the others have lead = fields.shape[:-1] followed by (nf,), (nf,), (nf, nf) and, for
    allSecondDerivatives, (nf, nf), (nf,), ()."""
    import WallGo
    from WallGo import Fields
    from WallGo.fields import FieldPoint
    for it in range(ncases):
        nf = rng.choice([1, 2, 3])
        monos = _mono_poly(rng, nf)
        Poly = make_potential_class(nf, monos)
        params = {"c" + "".join(map(str, m)): float(rng.randint(-5, 5) or 1) for m in monos}
        pot = Poly(params)
        tscale = rng.choice([0.5, 1.0, 2])
        pot.configureDerivatives(WallGo.VeffDerivativeSettings(
            temperatureVariationScale=tscale, fieldValueVariationScale=1.0))
        dT = float(tscale) * 1e-15 ** (1 / 5)
        ints = rng.random() < 0.3
        N = rng.choice([2, 3, 5])
        rows = [[rng.randint(-3, 3) if ints else rng.uniform(-3, 3) for _ in range(nf)]
                for _ in range(N)]
        tv = [rng.choice([0.0, dT, 2 * dT, 1.5 * dT, rng.uniform(0.2, 3.0)]) for _ in range(N)]
        t0 = rng.choice([0.0, dT, 2, 1, tv[0], rng.uniform(0.2, 3.0)])
        combos = []
        for fk, F, lead, pts in (
                ("FieldPoint", FieldPoint(np.array(rows[0])), (), [rows[0]]),
                ("Fields1", Fields(rows[0]), (1,), [rows[0]])):
            for tk, T in (("float", float(t0)), ("int", int(t0) if float(t0) == int(t0) else 1),
                          ("np.float64", np.float64(t0)), ("0d", np.array(float(t0)))):
                combos.append((fk, tk, F, T, lead, (), pts, [float(T)]))
        combos.append(("FieldPoint", "arr1", FieldPoint(np.array(rows[0])), np.array([tv[0]]),
                       (), (1,), [rows[0]], [tv[0]]))
        for tk, T in (("list1", [tv[0]]), ("arr1", np.array([tv[0]]))):
            combos.append(("Fields1", tk, Fields(rows[0]), T, (1,), (1,), [rows[0]], [tv[0]]))
        FN = Fields(*[np.array(r) for r in rows])
        for tk, T in (("listN", list(tv)), ("arrN", np.array(tv))):
            combos.append(("FieldsN", tk, FN, T, (N,), (N,), rows, tv))
        # N points, one temperature: the gradient/Hessian entry points broadcast it (derivT
        # does not: observation, see `observations`)
        combos.append(("FieldsN", "float", FN, float(t0), (N,), None, rows, [float(t0)] * N))
        for fk, tk, F, T, lead, tshape, pts, Ts in combos:
            want_shapes = {"derivT": tshape, "derivField": lead + (nf,),
                           "deriv2FieldT": lead + (nf,), "deriv2Field2": lead + (nf, nf),
                           "allSecondDerivatives": (lead + (nf, nf), lead + (nf,), lead)}
            for name in ENTRY_POINTS:
                if want_shapes[name] is None:
                    continue
                case = dict(nf=nf, monos=[list(m) for m in monos], params=params, fields=fk,
                            T=tk, rows=pts, temps=Ts, entry=name, tscale=tscale, ints=ints)
                ctx.count("potential_shapes", case, bucket="%s %s" % (fk, tk))
                try:
                    res = getattr(pot, name)(F, T)
                except Exception as e:
                    ctx.fail_input("EffectivePotential.%s(%s, T as %s) raised %r" % (
                        name, fk, tk, e), dict(kind="pshape", case=case),
                        key="potential-raises")
                    continue
                got_shapes = tuple(np.shape(r) for r in res) if isinstance(res, tuple) \
                    else np.shape(res)
                if got_shapes != want_shapes[name]:
                    ctx.fail_input(
                        "EffectivePotential.%s(%s, T as %s of shape %s) returns shape %s, "
                        "expected %s" % (name, fk, tk, np.shape(T), got_shapes,
                                         want_shapes[name]), dict(kind="pshape", case=case),
                        key="potential-shape-" + name)
                    continue
                flat = _flatten(res)
                ex = []
                P = [[float(q) for q in v] + [float(t)] for v, t in zip(pts, Ts)]
                e = lambda Pt, *idx: _pot_exact(params, monos, Pt, [idx.count(i) for i in
                                                                    range(nf + 1)])
                if name == "derivT":
                    ex = [e(Pt, nf) for Pt in P]
                elif name == "derivField":
                    ex = [e(Pt, i) for Pt in P for i in range(nf)]
                elif name == "deriv2FieldT":
                    ex = [e(Pt, i, nf) for Pt in P for i in range(nf)]
                elif name == "deriv2Field2":
                    ex = [e(Pt, i, j) for Pt in P for i in range(nf) for j in range(nf)]
                else:
                    ex = [e(Pt, i, j) for Pt in P for i in range(nf) for j in range(nf)] + \
                        [e(Pt, i, nf) for Pt in P for i in range(nf)] + \
                        [e(Pt, nf, nf) for Pt in P]
                ex = np.array(ex)
                tl = 1e-6 if name in ("derivT", "derivField") else 2e-4
                if flat.shape != ex.shape or np.max(np.abs(flat - ex)) > tl * (
                        1 + np.max(np.abs(ex))):
                    ctx.fail_input("EffectivePotential.%s(%s, T as %s) inexact: got %s want %s"
                                   % (name, fk, tk, flat.tolist()[:6], ex.tolist()[:6]),
                                   dict(kind="pshape", case=case), key="potential-" + name)


def observations(ctx):
    """Inputs OUTSIDE the quantifier that raise (loudly) on the unchanged tree; logged, not
    judged: (1) derivT(N > 1 field points, scalar T): the lambda handed to derivative cannot
    broadcast N points against the 4 stencil temperatures; (2) the gradient/Hessian entry
    points with ONE field point and a T array of length 3 (docstring: T is a scalar or has
    one entry per field point); (3) numpy-integer axes (docstring: list, int or None;
    isinstance(np.int64(0), int) is False); (4) negative temperatureVariationScale: derivT(0)
    evaluates at T < 0 (derivT_bound_positive_step assumes dT > 0)."""
    import WallGo
    from WallGo import helpers, Fields
    Poly = make_potential_class(2, [(2, 0, 1), (0, 3, 0), (1, 1, 2)])
    par = {"c201": 1.0, "c030": 1.0, "c112": 1.0}
    pot = Poly(par)
    pot.configureDerivatives(WallGo.VeffDerivativeSettings(1.0, 1.0))
    out = []

    def probe(label, fn):
        try:
            r = fn()
            out.append("%s -> ok shape %s" % (label, np.shape(r) if not isinstance(r, tuple)
                                              else [np.shape(z) for z in r]))
        except Exception as e:
            out.append("%s -> %s" % (label, type(e).__name__))
    F3 = Fields([1.0, 2.0], [3.0, 4.0], [0.5, 0.25])
    F1 = Fields([1.0, 2.0])
    probe("derivT(3 points, scalar T)", lambda: pot.derivT(F3, 1.5))
    probe("derivField(1 point, T of shape (3,))",
          lambda: pot.derivField(F1, np.array([0.5, 1.0, 2.0])))
    g = lambda X: (np.asarray(X) ** 2).sum(-1)
    probe("gradient(axis=np.int64(0))",
          lambda: helpers.gradient(g, np.array([1.0, 2.0]), dx=0.1, axis=np.int64(0)))
    probe("hessian(xAxis=np.int64(0))",
          lambda: helpers.hessian(g, np.array([1.0, 2.0]), dx=0.1, xAxis=np.int64(0)))
    neg = Poly(par)
    neg.configureDerivatives(WallGo.VeffDerivativeSettings(-1.0, 1.0))
    neg.seenT.clear()
    try:
        neg.derivT(F1, 0.0)
        out.append("derivT(T=0) with temperatureVariationScale=-1 -> min T evaluated %r" %
                   min(neg.seenT))
    except Exception as e:
        out.append("derivT(T=0) with temperatureVariationScale=-1 -> %s" % type(e).__name__)
    ctx.log("observations (outside the quantifier, not judged): " + "; ".join(out))



# ---------------------------------------------------------------------------------------
# recorded finding: replayed deterministically at the start of every run

KNOWN_NARROW = dict(x=0.5, dx=1.0, n=1, order=2, bounds=[0.0, 1.0])
# the Coq refutation witnesses (Props/C19.v: stays_in_bounds_narrow_refuted): the recorded
# input, and x=3/4, dx=1, bounds (0, K-1/2) for the four tables
WITNESSES = [(2, 1, Fraction(1, 2), 1, 0, 1)] + [
    (o, n, Fraction(3, 4), 1, 0, K_WIDE[(o, n)] - Fraction(1, 2))
    for (o, n) in ((2, 1), (2, 2), (4, 1), (4, 2))]


def known_replays(ctx):
    """Known finding `narrow-bounds` (D5).  Judged on BOTH clauses: the abscissas (expected
    to leave the bounds: recorded finding) and the value (must be exact: Coq
    derivative_value_exact makes no assumption on the width).  If the recorded input stops
    leaving the bounds, that is only acceptable when the value returned is still exact;
    otherwise it is a violation with this concrete input."""
    from WallGo import helpers
    k = KNOWN_NARROW
    f = Rec([1, 3])
    try:
        res = float(helpers.derivative(f, k["x"], n=k["n"], order=k["order"],
                                       bounds=tuple(k["bounds"]), dx=k["dx"]))
    except Exception as e:
        ctx.fail_input("the recorded narrow-interval input now raises %r" % e,
                       dict(kind="narrow", **k), key="narrow-bounds-raises")
        return
    pts = np.concatenate([np.asarray(c).ravel() for c in f.calls])
    outside = bool(pts.min() < k["bounds"][0] or pts.max() > k["bounds"][1])
    exact = abs(res - 3.0) <= 1e-12
    rep = dict(kind="narrow", points=pts.tolist(), value=res, **k)
    if outside:
        ctx.fail_input("derivative with bounds narrower than the stencil (width < K*dx) "
                       "evaluates outside them, e.g. x=0.5, dx=1, bounds=(0,1): points %s"
                       % pts.tolist(), rep, key="narrow-bounds")
        if not exact:
            ctx.fail_input("recorded narrow-interval input: value %r is not the exact "
                           "derivative 3 of 1+3x any more" % res, rep,
                           key="narrow-bounds-value-inexact")
    elif exact:
        ctx.log("KNOWN-FINDING-GONE: property=C19 key=narrow-bounds: the recorded input "
                "x=0.5, dx=1, bounds=(0,1) now stays inside the bounds AND returns the exact "
                "derivative; move the entry to \"fixed\" in known_findings.json")
    else:
        ctx.fail_input(
            "recorded narrow-interval input (x=0.5, dx=1, bounds=(0,1), f=1+3x) no longer "
            "evaluates outside the bounds (points %s) but the value is now WRONG: %r "
            "instead of 3" % (pts.tolist(), res), rep, key="narrow-bounds-gone-inexact")


def run(ctx):
    src = vlib.read_src("helpers.py")
    psrc = vlib.read_src("effectivePotential.py")
    known_replays(ctx)
    gen_ok = True
    try:
        text, tb = gen_helpers.generate(src)
        ctx.write("Tables.v", text, sources={"file": "src/WallGo/helpers.py",
                                             "sha": vlib.sha(src)})
    except gen_helpers.TranslateError as e:
        ctx.log("translator failed:", e)
        ctx.broken.append("translator: %s" % e)
        gen_ok = False
    pot_ok = True
    try:
        ptext, facts = gen_helpers.potential_facts(psrc, src)
        ctx.write("PotFacts.v", ptext, sources={"file": "src/WallGo/effectivePotential.py",
                                                "sha": vlib.sha(psrc)})
    except gen_helpers.TranslateError as e:
        ctx.log("translator (effectivePotential.py) failed:", e)
        ctx.broken.append("translator(effectivePotential): %s" % e)
        pot_ok = False
    if gen_ok and pot_ok:
        ctx.prove(extra=["Tables.v", "PotFacts.v"])
    elif gen_ok:
        # still compile the tables: the correspondence files need them
        ok, out, err = ctx.coqc(ctx.bdir + "/Tables.v")
        gen_ok = ok
    # --- correspondence + direct validation ------------------------------------
    cases = []

    def one(case, counter):
        try:
            res, pts, f = run_impl(case)
        except Exception as e:  # implementation raised on an admissible input
            if case["dx"] < 0 and isinstance(e, AssertionError):
                ctx.count("rejected_negdx")     # dx < 0 is outside the quantifier
                return None
            ctx.fail_input("derivative raised %r" % e, dict(kind="raise",
                                                           case=jcase(case)),
                           key="raises")
            return None
        ctx.count(counter, jcase(case), bucket="o%d n%d %s %s" % (
            case["order"], case["n"], case["kind"], case["pos"]))
        check_direct(ctx, case, res, pts, f)
        return (case, res, pts)

    # the refutation witnesses of the Coq file, replayed on the implementation
    for (o, n, x, dx, lb, ub) in WITNESSES:
        r = one(fixed_case(o, n, x, dx, lb, ub, [1, 3, -2, 1, 2][:DEG[(o, n)] + 1]),
                "dyadic")
        if r:
            cases.append(r)
    for i in range(ctx.n(300, 4000)):
        r = one(gen_case(ctx.rng, dyadic=True), "dyadic")
        if r:
            cases.append(r)
            if i < 3:
                ctx.sample(dict(case=jcase(r[0]), result=r[1],
                                points=[float(p) for p in r[2]]))
    for i in range(ctx.n(120, 1500)):
        r = one(gen_case(ctx.rng, dyadic=True, narrow=True), "dyadic_narrow")
        if r:
            cases.append(r)
    for i in range(ctx.n(60, 600)):
        # negative step: model == implementation (points and value); bounds not judged
        r = one(gen_case(ctx.rng, dyadic=True, negdx=True, narrow=ctx.rng.random() < 0.3),
                "dyadic_negdx")
        if r:
            cases.append(r)
    if gen_ok:
        bad = corr_cases(ctx, cases)
        for b in bad:
            ctx.broken.append("correspondence:eval_points/derivQ %s" % b["file"])
            ctx.log("correspondence failure", json.dumps(b)[:400])
            for idx in b["cases"][:3]:
                c, res, pts = cases[idx]
                ctx.log("  case", jcase(c), "impl points", [float(p) for p in pts],
                        "impl result", res)
    # non-dyadic floats: bounds and exactness on the implementation only
    for i in range(ctx.n(1500, 30000)):
        one(gen_case(ctx.rng, dyadic=False), "float")
    for i in range(ctx.n(250, 4000)):
        one(gen_case(ctx.rng, dyadic=False, narrow=True), "float_narrow")
    # width == fl(K*dx) +- 1 ulp with x on step multiples: an excursion of an ulp is in the
    # class of the recorded finding iff the interval is narrower than K exact steps
    for i in range(ctx.n(300, 5000)):
        one(gen_case(ctx.rng, dyadic=False, critical=True), "float_critical")
    # recorded instance (found by seed 28): interval wide in exact arithmetic by less than
    # a rounding error, x + 3 dx rounds one ulp above the upper bound
    fh = float.fromhex
    one(dict(order=4, n=1, x=Fraction(fh("0x1.2a6a11149329dp+0")),
             dx=Fraction(fh("0x1.600223f5d7519p+1")),
             bounds=(Fraction(fh("-0x1.959a36d71b795p+0")), Fraction(fh("0x1.2d4edd1af3e27p+3"))),
             coeffs=[-7, 2, -5, 1], pos="fixed", kind="both-critical", dyadic=False,
             int_bounds=False), "float_critical")
    array_family(ctx, ctx.rng, ctx.n(40, 600))
    misc_inputs(ctx, ctx.rng, ctx.n(40, 600))
    step_limits(ctx, ctx.rng, ctx.n(40, 600))
    shape_values(ctx, ctx.rng, ctx.n(40, 500))
    grad_hess_points(ctx, ctx.rng, ctx.n(40, 400))
    potential_level(ctx, ctx.rng, ctx.n(60, 600))
    potential_history(ctx, ctx.rng, ctx.n(12, 150))
    potential_shapes(ctx, ctx.rng, ctx.n(10, 120))
    outside_family(ctx, ctx.rng, ctx.n(150, 2000))
    observations(ctx)
    ctx.cov["margins"] = {k: round(v, 4) for k, v in sorted(MARGINS.items())}
    ctx.log("largest |error| / tolerance per family:", ctx.cov["margins"])
    ctx.cov["rule"] = (
        "cases = (order, n, x, dx, bounds, integer polynomial of the proved degree); "
        "x placed at / j steps from / between steps of either bound or interior; dx "
        "over >10 decades; wide and narrow (0 < width < K dx) intervals; negative steps; "
        "arrays with mixed rows; every axis selection; histories on one "
        "EffectivePotential; distinct = distinct case tuple; all are non-trivial "
        "(non-constant positions; constant polynomials allowed as degree-0 members)")
    ctx.assumptions += [
        "binary64 rounding of the weighted sum is not modelled (tolerance 6e-8 relative "
        "to sum|c_i f_i|/dx^n)",
        "'every step size' is read as: the exact step fl(x+dx)-x is non-zero (|x|/dx < 2^53) "
        "and dx > 0; below that the unchanged code returns nan, for dx < 0 it evaluates on "
        "the wrong side of a bound (observations logged by step_limits, not judged)",
        "numpy broadcasting/reshape plumbing is validated by value (shape_values, "
        "array_family, misc_inputs), not proved; the rest of derivative/gradient/hessian is "
        "pinned structurally against the modelled reference"]


def replay(rep):
    from WallGo import helpers
    print(json.dumps(rep, indent=1, default=str)[:4000])
    if rep.get("kind") in ("out_of_bounds", "inexact", "second_call"):
        c = rep["case"]
        f = Rec(c["coeffs"])
        b = c["bounds"]
        bounds = None if b is None else tuple(
            (float.fromhex(v) if v is not None else (-np.inf if i == 0 else np.inf))
            for i, v in enumerate(b))
        r = helpers.derivative(f, float.fromhex(c["x"]), n=c["n"], order=c["order"],
                               bounds=bounds, dx=float.fromhex(c["dx"]))
        print("result", r, "exact", float(f.dexact(Fraction(float.fromhex(c["x"])), c["n"])),
              "points", [np.asarray(p).ravel().tolist() for p in f.calls], "bounds", bounds)
    elif rep.get("kind") == "narrow":
        f = Rec([1, 3])
        r = helpers.derivative(f, rep["x"], n=rep["n"], order=rep["order"],
                               bounds=tuple(rep["bounds"]), dx=rep["dx"])
        print("result", float(r), "(exact derivative of 1+3x: 3)", "points",
              [np.asarray(p).ravel().tolist() for p in f.calls], "bounds", rep["bounds"])
    elif rep.get("kind") == "outside":
        c = rep["case"]
        f = Rec([1, 3, -2])
        x = np.array(c["x"]) if isinstance(c["x"], list) else c["x"]
        try:
            r = helpers.derivative(f, x, n=c["n"], order=c["order"], bounds=tuple(c["bounds"]),
                                   dx=c["dx"])
            print("ACCEPTED: result", np.asarray(r).tolist(), "f evaluated at",
                  [np.asarray(p).ravel().tolist() for p in f.calls])
        except AssertionError as e:
            print("refused (AssertionError):", str(e)[:120], "; f evaluated", len(f.calls),
                  "times")
    elif rep.get("kind") == "pshape":
        import WallGo
        from WallGo import Fields
        from WallGo.fields import FieldPoint
        c = rep["case"]
        Poly = make_potential_class(c["nf"], [tuple(m) for m in c["monos"]])
        pot = Poly(c["params"])
        pot.configureDerivatives(WallGo.VeffDerivativeSettings(
            temperatureVariationScale=c["tscale"], fieldValueVariationScale=1.0))
        rows = [np.array(r) for r in c["rows"]]
        F = FieldPoint(rows[0]) if c["fields"] == "FieldPoint" else Fields(*rows)
        T = {"float": lambda t: float(t[0]), "int": lambda t: int(t[0]),
             "np.float64": lambda t: np.float64(t[0]), "0d": lambda t: np.array(t[0]),
             "arr1": lambda t: np.array(t[:1]), "list1": lambda t: list(t[:1]),
             "listN": lambda t: list(t), "arrN": lambda t: np.array(t)}[c["T"]](c["temps"])
        res = getattr(pot, c["entry"])(F, T)
        print(c["entry"], "(", c["fields"], ", T =", repr(T), ") has shape",
              [np.shape(r) for r in res] if isinstance(res, tuple) else np.shape(res))
        print("value", _flatten(res).tolist())
    elif rep.get("kind") == "shape_value":
        c = rep["case"]
        terms = {tuple(int(t) for t in k.strip("()").split(",") if t.strip()): v
                 for k, v in c["terms"].items()}

        def f(xs, *a):
            xs = np.asarray(xs, dtype=float)
            r = np.zeros(xs.shape[:-1])
            for m, cf in terms.items():
                t = cf * np.ones(xs.shape[:-1])
                for i, p in enumerate(m):
                    t = t * xs[..., i] ** p
                r = r + t
            return r
        x = np.array(c["x"])
        kw = {k: (np.array(v) if isinstance(v, list) and c["step"] != "list-scale" else v)
              for k, v in c["kw"].items()}
        if c["fn"] == "gradient":
            print("gradient(axis=%r) =" % (c["axis"],),
                  helpers.gradient(f, x, order=c["order"], axis=c["axis"], **kw).tolist())
            print("gradient(axis=None) =",
                  helpers.gradient(f, x, order=c["order"], **kw).tolist())
        else:
            print("hessian(xAxis=%r, yAxis=%r) =" % (c["xAxis"], c["yAxis"]),
                  helpers.hessian(f, x, order=c["order"], xAxis=c["xAxis"], yAxis=c["yAxis"],
                                  **kw).tolist())
            print("hessian() =", helpers.hessian(f, x, order=c["order"], **kw).tolist())
    elif rep.get("kind") == "history":
        import WallGo
        from WallGo import Fields
        c = rep["case"]
        monos = [tuple(m) for m in c["monos"]]
        Poly = make_potential_class(c["nf"], monos)
        def settings(v):
            return WallGo.VeffDerivativeSettings(temperatureVariationScale=v[0],
                                                 fieldValueVariationScale=v[1])

        def call(obj, name, ptname):
            pt = [p for p in c["points"] if p[0] == ptname][0]
            F = Fields(*[np.array(v) for v in pt[1]]) if len(pt[1]) > 1 else Fields(pt[1][0])
            T = np.array(pt[2]) if isinstance(pt[2], list) else pt[2]
            return _flatten(getattr(obj, name)(F, T))

        pot = Poly(c["params0"])
        cur = c["settings0"]
        pot.configureDerivatives(settings(cur))
        got = None
        for op in c["history"]:
            if op[0] == "eval":
                got = call(pot, op[1], op[2])
            elif op[0] == "mutate":
                for k, v in op[1].items():
                    pot.modelParameters[k] = v
            else:
                cur = [op[1], op[2]]
                pot.configureDerivatives(settings(cur))
            print("  ", op if op[0] != "eval" else op + [got.tolist()[:4]])
        fresh = Poly(dict(pot.modelParameters))
        fresh.configureDerivatives(settings(cur))
        last = c["history"][-1]
        print("object with history:", last[1], "=", got.tolist())
        print("fresh object       :", last[1], "=", call(fresh, last[1], last[2]).tolist())
    return 0
