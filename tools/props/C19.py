"""C19 -- finite-difference derivatives: exactness, bounds, shapes."""
import itertools
import json
from fractions import Fraction

import numpy as np

import gen_helpers
import vlib

EXPLANATION = (
    "Tables and row-selection rule are regenerated from helpers.py; Coq proves every "
    "row exact on all polynomials up to degree #points-1 (central rows one more), the "
    "Hessian stencil exact on bivariate total degree 3/5, and that no evaluation point "
    "leaves the bounds when the interval is at least as wide as the stencil. The "
    "hand-written evaluation-point model is compared exactly with the running "
    "implementation on dyadic inputs; the property itself is also evaluated on the "
    "implementation for dyadic and non-dyadic floats.")

K_WIDE = {(2, 1): 2, (2, 2): 3, (4, 1): 4, (4, 2): 5}
DEG = {(2, 1): 1, (2, 2): 2, (4, 1): 3, (4, 2): 4}      # guaranteed for every row


class Rec:
    """Polynomial with integer coefficients that records where it is evaluated."""

    def __init__(self, coeffs):
        self.c = coeffs
        self.pts = []

    def __call__(self, x, *args):
        x = np.asarray(x, dtype=float)
        self.pts.append(x.copy())
        r = np.zeros_like(x)
        for k in reversed(self.c):
            r = r * x + k
        return r

    def exact(self, q):
        r = Fraction(0)
        for k in reversed(self.c):
            r = r * q + k
        return r

    def dexact(self, q, n):
        c = list(self.c)
        for _ in range(n):
            c = [k * i for i, k in enumerate(c)][1:]
        r = Fraction(0)
        for k in reversed(c):
            r = r * q + k
        return r


def bound_coq(b):
    if b is None:
        return None
    return "(Fin %s)" % vlib.coq_Q(b)


def gen_case(rng, dyadic=True):
    order = rng.choice([2, 4])
    n = rng.choice([1, 2])
    e = rng.randint(-34, 10)
    if dyadic:
        dx = Fraction(rng.randint(1, 64)) * Fraction(2) ** e
    else:
        dx = Fraction(rng.uniform(0.1, 1.0) * 10.0 ** rng.randint(-8, 1))
    K = K_WIDE[(order, n)]
    kind = rng.choice(["none", "lower", "upper", "both", "both"])
    width_steps = rng.randint(K, 12) if rng.random() < 0.7 else rng.randint(K, 4000)
    base = Fraction(rng.randint(-40, 40)) * Fraction(2) ** e * 64 if dyadic else \
        Fraction(rng.uniform(-3, 3))
    zero_end = rng.random() < 0.25      # a bound exactly 0 (what derivT passes)
    lb = base
    if zero_end:
        lb = Fraction(0) if rng.random() < 0.5 else -width_steps * dx
    ub = lb + width_steps * dx
    if not dyadic:
        # Non-dyadic floats: keep a relative margin 2^-20 above the critical width K*dx.
        # At EXACTLY that width with x on a step multiple the one-sided row reaches the far
        # bound exactly, and binary64 rounding of x - 3*dx can land 1 ulp outside (seen on
        # the unchanged tree in a thorough run); the theorem is about exact arithmetic
        # under `wide`, which then holds only up to rounding.  The dyadic family (exact
        # arithmetic) still probes width == K*dx.
        ub = Fraction(float(ub + K * dx * Fraction(1, 2 ** 20)))
        if ub - lb < K * dx * (1 + Fraction(1, 2 ** 21)):
            ub = Fraction(float(lb + (width_steps + 1) * dx))
    # position relative to the bounds: exactly j steps from either, or in between
    pos = rng.choice(["at", "steps", "between", "interior"])
    j = rng.randint(0, 3)
    side = rng.choice(["lo", "hi"])
    if pos == "at":
        x = lb if side == "lo" else ub
    elif pos == "steps":
        x = lb + j * dx if side == "lo" else ub - j * dx
    elif pos == "between":
        off = Fraction(rng.randint(1, 7), 8) * dx + j * dx
        x = lb + off if side == "lo" else ub - off
    else:
        x = lb + (ub - lb) * Fraction(rng.randint(1, 15), 16)
    if not dyadic:
        x = Fraction(float(x))
    x = min(max(x, lb), ub)
    bounds = {"none": None, "lower": (lb, None), "upper": (None, ub),
              "both": (lb, ub)}[kind]
    deg = DEG[(order, n)]
    coeffs = [rng.randint(-9, 9) for _ in range(deg + 1 if rng.random() < 0.7 else rng.randint(1, deg + 1))]
    return dict(order=order, n=n, x=x, dx=dx, bounds=bounds, coeffs=coeffs, pos=pos,
                kind=kind + ("0" if zero_end else ""), dyadic=dyadic,
                int_bounds=rng.random() < 0.5)


def run_impl(case):
    from WallGo import helpers
    f = Rec(case["coeffs"])
    b = case["bounds"]
    bounds = None
    if b is not None:
        def num(v):
            f = float(v)
            return int(f) if f == int(f) and case.get("int_bounds") else f
        bounds = (num(b[0]) if b[0] is not None else -np.inf,
                  num(b[1]) if b[1] is not None else np.inf)
    res = helpers.derivative(f, float(case["x"]), n=case["n"], order=case["order"],
                             bounds=bounds, dx=float(case["dx"]))
    pts = [Fraction(float(p)) for p in np.asarray(f.pts[0]).ravel()]
    return float(res), pts, f


def jcase(c):
    d = dict(c)
    d["x"] = float(c["x"]).hex()
    d["dx"] = float(c["dx"]).hex()
    if c["bounds"] is not None:
        d["bounds"] = [None if v is None else float(v).hex() for v in c["bounds"]]
    return d


def check_direct(ctx, case, res, pts, f):
    """The property evaluated on the implementation (exact rational bookkeeping)."""
    order, n = case["order"], case["n"]
    x = Fraction(float(case["x"]))
    b = case["bounds"]
    # never outside the bounds
    if b is not None:
        lo = Fraction(float(b[0])) if b[0] is not None else None
        hi = Fraction(float(b[1])) if b[1] is not None else None
        for p in pts:
            if (lo is not None and p < lo) or (hi is not None and p > hi):
                ctx.fail_input(
                    "derivative(order=%d,n=%d) evaluates outside the bounds at %r" %
                    (order, n, float(p)),
                    dict(kind="out_of_bounds", case=jcase(case), point=float(p).hex()),
                    key="out-of-bounds-wide-interval")
                return False
    # exactness: the stencil value in exact arithmetic on the recorded points
    dxe = Fraction(float(x + Fraction(float(case["dx"])))) - x
    dxe = Fraction(float(Fraction(float(x)) + Fraction(float(case["dx"])))) - x
    dxe = Fraction(float(float(x) + float(case["dx"]))) - x
    want = f.dexact(x, n)
    mag = sum(abs(f.exact(p)) for p in pts) / dxe ** n + abs(want)
    tol = Fraction(1, 10 ** 9) * mag * 64 + Fraction(1, 10 ** 300)
    if abs(Fraction(res) - want) > tol:
        ctx.fail_input(
            "derivative(order=%d,n=%d) is not exact on a degree-%d polynomial: got %r, "
            "exact %r" % (order, n, len(case["coeffs"]) - 1, res, float(want)),
            dict(kind="inexact", case=jcase(case), got=res, want=float(want)),
            key="inexact-%d-%d" % (order, n))
        return False
    return True


def corr_cases(ctx, cases_with_results):
    """Coq side: model evaluation points == recorded points (exactly) and model value
    within tolerance of the implementation's value, by vm_compute."""
    header = ("From Coq Require Import List ZArith QArith Qabs Bool.\n"
              "From WG Require Import Lib.Stencil.\nFrom GenC19 Require Import Tables.\n"
              "Import ListNotations.\n"
              "Definition eqlist (a b : list Q) : bool := (length a =? length b)%nat && "
              "forallb (fun p => Qeq_bool (fst p) (snd p)) (combine a b).\n"
              "Definition chk (n order : Z) (x dx : Q) (lb ub : bound) (poly : list Q) "
              "(pts : list Q) (res tol : Q) : bool :=\n"
              "  let coefT := if (n =? 1)%Z then (if (order =? 2)%Z then "
              "FIRST_DERIV_COEFF_2 else FIRST_DERIV_COEFF_4) else (if (order =? 2)%Z "
              "then SECOND_DERIV_COEFF_2 else SECOND_DERIV_COEFF_4) in\n"
              "  let posT := if (n =? 1)%Z then (if (order =? 2)%Z then "
              "FIRST_DERIV_POS_2 else FIRST_DERIV_POS_4) else (if (order =? 2)%Z "
              "then SECOND_DERIV_POS_2 else SECOND_DERIV_POS_4) in\n"
              "  match eval_points offset posT order x dx lb ub, "
              "derivQ offset coefT posT (Z.to_nat n) order (pevalQ poly) x dx lb ub with\n"
              "  | Some p, Some v => eqlist p pts && Qabs_le v res tol\n"
              "  | _, _ => false end.\n")
    terms = []
    for case, res, pts in cases_with_results:
        b = case["bounds"]
        lb = "NegInf" if b is None or b[0] is None else "(Fin %s)" % vlib.coq_Q(b[0])
        ub = "PosInf" if b is None or b[1] is None else "(Fin %s)" % vlib.coq_Q(b[1])
        x = Fraction(float(case["x"]))
        dx = Fraction(float(case["dx"]))
        # rounding model: the weighted sum is accurate to a few ulp of sum|c_i f(P_i)|/dx^n
        absval = lambda q: sum(abs(Fraction(c)) * abs(q) ** i
                               for i, c in enumerate(case["coeffs"]))
        mag = sum(absval(p) for p in pts) / dx ** case["n"] * 20
        tol = mag * Fraction(1, 10 ** 9) + Fraction(1, 10 ** 30)
        terms.append("chk %d %d %s %s %s %s [%s] [%s] %s %s" % (
            case["n"], case["order"], vlib.coq_Q(x), vlib.coq_Q(dx), lb, ub,
            "; ".join(vlib.coq_Q(c) for c in case["coeffs"]),
            "; ".join(vlib.coq_Q(p) for p in pts), vlib.coq_Q(Fraction(res)),
            vlib.coq_Q(tol)))
    bad = ctx.run_cases("corr", header, terms, per_file=250)
    return bad


def shapes(ctx, rng):
    """Results have the shape of the input (plus gradient/Hessian axes)."""
    from WallGo import helpers
    nfail = 0

    def poly(xarr):
        xarr = np.asarray(xarr)
        return 1.0 + xarr[..., 0] ** 2 + (xarr[..., -1] if xarr.shape[-1] > 1 else 0) * \
            xarr[..., 0]

    for shape in [(), (3,), (2, 3), (2, 1, 4)]:
        x = np.asarray(np.random.default_rng(rng.randint(0, 10**6)).uniform(0, 1, shape))
        for order, n in itertools.product((2, 4), (1, 2)):
            r = helpers.derivative(lambda y: y ** 2 + y, x, n=n, order=order,
                                   bounds=(0.0, 1.0), dx=1e-3)
            ctx.count("shape")
            if np.shape(r) != shape:
                nfail += 1
                ctx.fail_input("derivative result shape %s for input shape %s" %
                               (np.shape(r), shape),
                               dict(kind="shape", fn="derivative", shape=list(shape)),
                               key="shape-derivative")
    for nv in (1, 2, 3):
        for lead in [(), (4,), (2, 3)]:
            x = np.random.default_rng(7).uniform(-1, 1, lead + (nv,))
            for order in (2, 4):
                for axis in [None, 0, [nv - 1], list(range(nv))[::-1], -1]:
                    g = helpers.gradient(poly, x, order=order, dx=1e-3, axis=axis)
                    na = nv if axis is None else (1 if isinstance(axis, int)
                                                  else len(axis))
                    ctx.count("shape")
                    if g.shape != lead + (na,):
                        ctx.fail_input("gradient shape %s, expected %s" %
                                       (g.shape, lead + (na,)),
                                       dict(kind="shape", fn="gradient", nv=nv,
                                            lead=list(lead), axis=axis),
                                       key="shape-gradient")
                for xa, ya in [(None, None), (0, None), ([nv - 1], [0]), (-1, 0)]:
                    h = helpers.hessian(poly, x, order=order, dx=1e-3, xAxis=xa,
                                        yAxis=ya)
                    nx = nv if xa is None else (1 if isinstance(xa, int) else len(xa))
                    ny = nv if ya is None else (1 if isinstance(ya, int) else len(ya))
                    ctx.count("shape")
                    if h.shape != lead + (nx, ny):
                        ctx.fail_input("hessian shape %s, expected %s" %
                                       (h.shape, lead + (nx, ny)),
                                       dict(kind="shape", fn="hessian", nv=nv,
                                            lead=list(lead), xAxis=xa, yAxis=ya),
                                       key="shape-hessian")
    return nfail


def grad_hess_values(ctx, rng, ncases):
    """gradient / hessian on random integer polynomials of the proved exactness class,
    compared with the exact derivative; evaluation points recorded and compared with
    the model's  x + s_k e_axis dx  (exact, dyadic)."""
    from WallGo import helpers
    for _ in range(ncases):
        order = rng.choice([2, 4])
        nv = rng.randint(1, 3)
        d = 3 if order == 2 else 5
        # total degree <= d
        monos = [m for m in itertools.product(range(d + 1), repeat=nv) if sum(m) <= d]
        terms = {m: rng.randint(-5, 5) for m in rng.sample(monos, min(len(monos), 6))}
        e = rng.randint(-12, 3)
        dx = [rng.randint(1, 8) * 2.0 ** e for _ in range(nv)]
        x0 = [rng.randint(-16, 16) * 2.0 ** (e + 2) for _ in range(nv)]
        rec = []

        def f(xs):
            xs = np.asarray(xs, dtype=float)
            rec.append(xs.copy())
            r = np.zeros(xs.shape[:-1])
            for m, c in terms.items():
                t = c * np.ones(xs.shape[:-1])
                for i, p in enumerate(m):
                    t = t * xs[..., i] ** p
                r = r + t
            return r

        def exact(point, dd):
            tot = Fraction(0)
            for m, c in terms.items():
                t = Fraction(c)
                for i, p in enumerate(m):
                    q = p
                    k = dd[i]
                    if k > q:
                        t = 0
                        break
                    for s in range(k):
                        t *= (q - s)
                    t *= Fraction(point[i]) ** (q - k)
                tot += t
            return tot

        x = np.array(x0)
        g = helpers.gradient(f, x, order=order, dx=np.array(dx))
        gd = 2 if order == 2 else 4
        scale = sum(abs(c) for c in terms.values()) * (max(abs(v) for v in x0) + 1
                                                       ) ** d + 1
        gcase = dict(order=order, nv=nv, terms={str(k): v for k, v in terms.items()},
                     x=x0, dx=dx)
        # gradient is exact when the degree along each variable is <= order
        if all(max(m[i] for m in terms) <= gd for i in range(nv)):
            for i in range(nv):
                dd = [1 if j == i else 0 for j in range(nv)]
                want = float(exact(x0, dd))
                ctx.count("gradient_value", gcase)
                if abs(g[i] - want) > 1e-13 * scale / min(dx) + 1e-9 * abs(want):
                    ctx.fail_input("gradient inexact on polynomial: got %r want %r" %
                                   (g[i], want), dict(kind="gradient", case=gcase, i=i),
                                   key="inexact-gradient-%d" % order)
        # evaluation points of gradient
        pts = rec[0].reshape(-1, nv)
        tb = helpers.FIRST_DERIV_POS[str(order)][0]
        want_pts = set()
        for s in tb:
            for i in range(nv):
                p = list(x0)
                p[i] = x0[i] + s * dx[i]
                want_pts.add(tuple(p))
        if set(map(tuple, pts.tolist())) != want_pts:
            ctx.fail_input("gradient evaluation points differ from x + s_k e_i dx_i",
                           dict(kind="gradient_points", case=gcase),
                           key="gradient-points")
        rec.clear()
        h = helpers.hessian(f, x, order=order, dx=np.array(dx))
        for i in range(nv):
            for j in range(nv):
                dd = [0] * nv
                dd[i] += 1
                dd[j] += 1
                want = float(exact(x0, dd))
                ctx.count("hessian_value", gcase)
                if abs(h[i, j] - want) > 1e-13 * scale / min(dx) ** 2 + 1e-9 * abs(want):
                    ctx.fail_input("hessian[%d,%d] inexact: got %r want %r" %
                                   (i, j, h[i, j], want),
                                   dict(kind="hessian", case=gcase, i=i, j=j),
                                   key="inexact-hessian-%d" % order)


def potential_level(ctx, rng, ncases):
    """The derivative routines as EffectivePotential uses them (derivT with bounds
    (0, inf); derivField / deriv2Field2 / deriv2FieldT on the combined (fields, T)
    array), on a polynomial potential of the exactness class, for float- and
    integer-typed field input and temperatures within a few steps of T = 0."""
    import WallGo
    from WallGo import EffectivePotential, Fields

    class Poly(EffectivePotential):
        fieldCount = 2
        effectivePotentialError = 1e-15

        def evaluate(self, fields, temperature):
            self.seenT.append(np.min(np.asarray(temperature)))
            f = Fields(fields)
            a, b = f.getField(0), f.getField(1)
            T = np.asarray(temperature)
            return (3 * a ** 2 - 2 * a * b + b ** 2 * T + 0.5 * a ** 3 - a * b * T ** 2
                    + 0.25 * a ** 4 + 2 * T ** 3 - T * a)

    def exact(a, b, T):
        dVda = 6 * a - 2 * b + 1.5 * a ** 2 - b * T ** 2 + a ** 3 - T
        dVdb = -2 * a + 2 * b * T - a * T ** 2
        dVdT = b ** 2 - 2 * a * b * T + 6 * T ** 2 - a
        H = [[6 + 3 * a + 3 * a ** 2, -2 - T ** 2], [-2 - T ** 2, 2 * T]]
        dT = [-2 * b * T - 1, 2 * b - 2 * a * T]
        return [dVda, dVdb], dVdT, H, dT

    pot = Poly()
    pot.seenT = []
    scaleT = rng.choice([0.1, 1.0, 1.1])
    pot.configureDerivatives(WallGo.VeffDerivativeSettings(
        temperatureVariationScale=scaleT, fieldValueVariationScale=[1.0, 2.0]))
    dT = scaleT * 1e-15 ** (1 / 5)
    for _ in range(ncases):
        ints = rng.random() < 0.5
        a, b = (rng.randint(-3, 3), rng.randint(-3, 3)) if ints else \
            (rng.uniform(-3, 3), rng.uniform(-3, 3))
        T = rng.choice([0.0, dT, 2 * dT, 2 * dT * (1 + 1e-9), 0.5 * dT, 1.5 * dT,
                        rng.uniform(0.2, 3.0), rng.uniform(0.2, 3.0)])
        fields = Fields([a, b])
        g, dt, H, gt = exact(float(a), float(b), T)
        case = dict(a=a, b=b, T=T, int_fields=ints, scaleT=scaleT)
        pot.seenT.clear()
        got_dt = float(np.asarray(pot.derivT(fields, T)).ravel()[0])
        ctx.count("potential_level", case)
        if min(pot.seenT) < 0:
            ctx.fail_input("EffectivePotential.derivT(T=%r) evaluates the potential at "
                           "T=%r < 0" % (T, float(min(pot.seenT))),
                           dict(kind="potential", what="negative T", case=case),
                           key="derivT-negative-temperature")
        tol = 1e-6
        if abs(got_dt - dt) > tol * (1 + abs(dt)):
            ctx.fail_input("derivT inexact on a cubic-in-T potential: got %r want %r" %
                           (got_dt, dt), dict(kind="potential", case=case),
                           key="potential-derivT")
        got_g = np.asarray(pot.derivField(fields, T)).ravel()
        got_H = np.asarray(pot.deriv2Field2(fields, T)).reshape(2, 2)
        got_gt = np.asarray(pot.deriv2FieldT(fields, T)).ravel()
        for name, got, want, tl in (("derivField", got_g, g, 1e-7),
                                    ("deriv2Field2", got_H.ravel(), np.ravel(H), 1e-4),
                                    ("deriv2FieldT", got_gt, gt, 1e-4)):
            if np.max(np.abs(np.asarray(got) - np.asarray(want))) > tl * (
                    1 + np.max(np.abs(want))):
                ctx.fail_input("EffectivePotential.%s inexact on a quartic potential "
                               "(fields %s, T=%r): got %s want %s" % (
                                   name, "int" if ints else "float", T,
                                   np.asarray(got).tolist(), np.asarray(want).tolist()),
                               dict(kind="potential", fn=name, case=case),
                               key="potential-" + name)


def known_narrow(ctx):
    """Known finding D5: bounds narrower than the stencil."""
    from WallGo import helpers
    f = Rec([0, 1])
    helpers.derivative(f, 0.5, n=1, order=2, bounds=(0.0, 1.0), dx=1.0)
    pts = np.asarray(f.pts[0]).ravel()
    if pts.min() < 0.0 or pts.max() > 1.0:
        ctx.fail_input("derivative with bounds narrower than the stencil (width < K*dx) "
                       "evaluates outside them, e.g. x=0.5, dx=1, bounds=(0,1)",
                       dict(kind="narrow", x=0.5, dx=1.0, bounds=[0.0, 1.0],
                            points=pts.tolist()),
                       key="narrow-bounds")
        return True
    return False


def run(ctx):
    src = vlib.read_src("helpers.py")
    refuted_ok = True
    try:
        text, tb = gen_helpers.generate(src)
        ctx.write("Tables.v", text, sources={"file": "src/WallGo/helpers.py",
                                             "sha": vlib.sha(src)})
        gen_ok = True
    except gen_helpers.TranslateError as e:
        ctx.log("translator failed:", e)
        ctx.broken.append("translator: %s" % e)
        gen_ok = False
    if gen_ok:
        ctx.prove(extra=["Tables.v"])
    # --- correspondence + direct validation ------------------------------------
    ncorr = ctx.n(300, 4000)
    cases = []
    for i in range(ncorr):
        case = gen_case(ctx.rng, dyadic=True)
        try:
            res, pts, f = run_impl(case)
        except Exception as e:  # implementation raised on an admissible input
            ctx.fail_input("derivative raised %r" % e, dict(kind="raise",
                                                           case=jcase(case)),
                           key="raises")
            continue
        ctx.count("dyadic", jcase(case), bucket="o%d n%d %s %s" % (
            case["order"], case["n"], case["kind"], case["pos"]))
        check_direct(ctx, case, res, pts, f)
        cases.append((case, res, pts))
        if i < 3:
            ctx.sample(dict(case=jcase(case), result=res,
                            points=[float(p) for p in pts]))
    if gen_ok:
        bad = corr_cases(ctx, cases)
        for b in bad:
            ctx.broken.append("correspondence:eval_points/derivQ %s" % b["file"])
            ctx.log("correspondence failure", json.dumps(b)[:400])
            for idx in b["cases"][:3]:
                c, res, pts = cases[idx]
                ctx.log("  case", jcase(c), "impl points", [float(p) for p in pts],
                        "impl result", res)
    # non-dyadic floats: bounds and exactness on the implementation only
    for i in range(ctx.n(1500, 30000)):
        case = gen_case(ctx.rng, dyadic=False)
        try:
            res, pts, f = run_impl(case)
        except Exception as e:
            ctx.fail_input("derivative raised %r" % e, dict(kind="raise",
                                                           case=jcase(case)),
                           key="raises")
            continue
        ctx.count("float", jcase(case), bucket="o%d n%d %s %s" % (
            case["order"], case["n"], case["kind"], case["pos"]))
        check_direct(ctx, case, res, pts, f)
    shapes(ctx, ctx.rng)
    grad_hess_values(ctx, ctx.rng, ctx.n(60, 600))
    potential_level(ctx, ctx.rng, ctx.n(60, 600))
    known_narrow(ctx)
    ctx.cov["rule"] = (
        "cases = (order, n, x, dx, bounds, integer polynomial of the proved degree); "
        "x placed at / j steps from / between steps of either bound or interior; dx "
        "over >10 decades; distinct = distinct case tuple; all are non-trivial "
        "(non-constant positions; constant polynomials allowed as degree-0 members)")
    ctx.assumptions += [
        "binary64 rounding of the weighted sum is not modelled (tolerance 6e-8 relative "
        "to sum|c_i f_i|/dx^n)",
        "numpy broadcasting/reshape plumbing is validated by the shape runs, not proved"]


def replay(rep):
    from WallGo import helpers
    print(json.dumps(rep, indent=1))
    if rep.get("kind") in ("out_of_bounds", "inexact"):
        c = rep["case"]
        f = Rec(c["coeffs"])
        b = c["bounds"]
        bounds = None if b is None else tuple(
            (float.fromhex(v) if v is not None else (-np.inf if i == 0 else np.inf))
            for i, v in enumerate(b))
        r = helpers.derivative(f, float.fromhex(c["x"]), n=c["n"], order=c["order"],
                               bounds=bounds, dx=float.fromhex(c["dx"]))
        print("result", r, "points", np.asarray(f.pts[0]).ravel().tolist(), "bounds",
              bounds)
    return 0
