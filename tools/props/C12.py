"""C12 -- the Boltzmann solution reflects the physics, not the discretisation choices."""
import copy
import json
import os
import subprocess
import sys
import traceback
from fractions import Fraction

import numpy as np

import random as random_module

import gen_boltz
import pyrx
import vlib

EXPLANATION = (
    "BoltzmannSolver.buildLinearEquations is numpy broadcasting code; a broadcast-aware "
    "translator regenerates, from its AST on every run, one Coq definition per array-valued "
    "local (value at an index tuple), so the index each factor of the 8-index operator is "
    "attached to is part of the model. Coq proves for ALL backgrounds, particles, collision "
    "arrays, grid sizes, both derivative modes and all basis matrices: the source is linear "
    "and local in the three profile derivatives and vanishes for a homogeneous background "
    "(a constant profile has zero derivative: C16's cardinal derivative matrix / any matrix "
    "with zero row sums); with a left inverse of the operator the solution is then zero; the "
    "source is minus the generated Liouville coefficients applied to the derivatives of "
    "f_eq for arbitrary differentiable profiles, with gamma_w^2 (1 - vw^2) = 1 and explicit "
    "K1, K2; the assembled operator is a sum of three tensor products with row-only "
    "prefactors (T^2 of the collision term sits at the grid point) and factorises as "
    "(cardinal operator) x (basis matrices); COMPOSED for the generated operator on the "
    "index set (particle, chi, rz, rp): if the cardinal operator has a left inverse, the "
    "solutions x (cardinal) and y (any basis) of the two systems with the same generated "
    "source satisfy x = (X x Y x Z) y, i.e. they are the same function, and every linear "
    "functional agrees (hypotheses jointly satisfiable by the generated operator at every "
    "size). AST facts checked by theorems (fail closed): both derivative modes differentiate "
    "the right profile along chi and cut [1:-1]; solveBoltzmannEquations is build -> "
    "np.linalg.solve(operator, source) -> C-order reshape to the flattened axes; getDeltas / "
    "checkLinearization / estimateTruncationError use deltaF only through a Polynomial in "
    "the solver's bases or times an array built by buildLinearEquations; the FD cross-check "
    "and setBackground work on deep copies, no class reachable from the solver defines a "
    "copy hook (heap model with collision data AND background: owner unobservably changed, "
    "copy = the FD solver of the same problem). Generated kernels vs the running code by "
    "certified interval evaluation; the property is evaluated on the real solver with "
    "synthetic collision tensors, comparing EVERY output of getDeltas across bases.")

BASES = ("Cardinal", "Chebyshev")


# ------------------------------------------------------------------------------------
# building real solvers with synthetic data

def wg():
    import WallGo
    from WallGo.grid import Grid
    from WallGo.polynomial import Polynomial
    from WallGo.collisionArray import CollisionArray
    return WallGo, Grid, Polynomial, CollisionArray


def msq_of_fields(c, f0, f1=None):
    """m^2 of a particle with coupling c as a function of the field value(s)"""
    return c * f0 ** 2 if f1 is None else c * (f0 ** 2 + 0.5 * f1 ** 2)


def make_particles(stats, couplings, nfields=1):
    WallGo = wg()[0]
    out = []
    for i, (st, c) in enumerate(zip(stats, couplings)):
        if nfields == 1:
            msq = (lambda c: (lambda phi: msq_of_fields(c, phi.getField(0))))(c)
            dmsq = (lambda c: (lambda phi: 2 * c * phi.getField(0)))(c)
        else:
            msq = (lambda c: (lambda phi: msq_of_fields(c, phi.getField(0), phi.getField(1))))(c)
            dmsq = (lambda c: (lambda phi: np.transpose([2 * c * phi.getField(0),
                                                         c * phi.getField(1)])))(c)
        out.append(WallGo.Particle(name="p%d" % i, index=i, msqVacuum=msq, msqDerivative=dmsq,
                                   statistics=st, totalDOFs=12))
    return out


def make_collision(grid, ps, seed, scale, offdiag):
    """random, diagonally dominant collision tensor given in the Cardinal basis"""
    _, _, Polynomial, CollisionArray = wg()
    rng = np.random.default_rng(seed)
    nP, n = len(ps), grid.N - 1
    size = nP * n * n
    mat = offdiag * rng.normal(size=(size, size)) / np.sqrt(size) + np.eye(size)
    data = scale * mat.reshape(nP, n, n, nP, n, n)
    poly = Polynomial(data.copy(), grid,
                      ("Array", "Cardinal", "Cardinal", "Array", "Cardinal", "Cardinal"),
                      CollisionArray.AXIS_TYPES, endpoints=False)
    return CollisionArray.newFromPolynomial(poly, ps), data


def profiles(c):
    """analytic wall-frame profiles of a case: v(xi), T(xi), [field_k(xi)]"""
    prof = lambda x: 0.5 * (1 + np.tanh(x / c["width"]))
    v = lambda x: c["v0"] + c["av"] * (prof(x) - 0.5)
    T = lambda x: c["T0"] * (1 + c["aT"] * (prof(x) - 0.5))
    fs = [lambda x: c["f0"] * (1 - c["af"] * prof(x))]
    if c.get("nfields", 1) == 2:
        fs.append(lambda x: 0.6 * c["f0"] * (1 - 0.8 * c["af"] * prof(x)))
    return v, T, fs


def make_background(grid, c):
    WallGo = wg()[0]
    xi = np.concatenate(([-np.inf], grid.xiValues, [np.inf]))
    vf, Tf, fs = profiles(c)
    v, T = vf(xi), Tf(xi)
    fields = np.transpose([f(xi) for f in fs])
    return WallGo.BoltzmannBackground(
        velocityMid=0.5 * (v[0] + v[-1]) + c.get("dvmid", 0.0), velocityProfile=v,
        fieldProfiles=WallGo.Fields(fields), temperatureProfile=T)


def make_solver(grid, ps, bg, coll_card, bM, bN, mode="Spectral", cmult=1.0, order=0):
    """order: permutation of the setter calls (they must commute)"""
    WallGo = wg()[0]
    kw = dict(collisionMultiplier=cmult) if cmult != 1.0 else {}
    s = WallGo.BoltzmannSolver(grid, basisM=bM, basisN=bN, derivatives=mode, **kw)
    c = copy.deepcopy(coll_card)
    c.changeBasis(bN)
    steps = [lambda: s.updateParticleList(ps), lambda: s.setBackground(bg),
             lambda: s.setCollisionArray(c)]
    for k in ((0, 1, 2), (2, 1, 0), (1, 2, 0))[order % 3]:
        steps[k]()
    return s


def make_grid(case, M=None):
    _, Grid, _, _ = wg()
    M = M or case["M"]
    kind = case.get("grid", "Grid")
    if kind == "Grid3Scales":
        from WallGo.grid3Scales import Grid3Scales
        L = case["Lxi"]
        return Grid3Scales(M, case["N"], 4 * L, 6 * L, L, case["T0"], 0.5, 0.1)
    if kind == "Uniform":
        return Grid(M, case["N"], case["Lxi"], case["T0"], spacing="Uniform")
    return Grid(M, case["N"], case["Lxi"], case["T0"])


def setup(case):
    grid = make_grid(case)
    ps = make_particles(case["stats"], case["couplings"], case.get("nfields", 1))
    coll, data = make_collision(grid, ps, case["cseed"], case["cscale"], case["coffdiag"])
    return grid, ps, coll, data


def rand_case(rng, M, N, nP, kind, **over):
    amp = dict(T=(1, 0, 0), v=(0, 1, 0), f=(0, 0, 1), all=(1, 1, 1), hom=(0, 0, 0))[kind]
    Lxi = rng.choice([0.5, 1.0, 2.0])
    c = dict(
        M=M, N=N, Lxi=Lxi, T0=rng.choice([50.0, 100.0]),
        stats=[rng.choice(["Fermion", "Boson"]) for _ in range(nP)],
        couplings=[round(rng.uniform(0.2, 1.2), 3) for _ in range(nP)],
        cseed=rng.randrange(10 ** 6), cscale=rng.choice([0.01, 0.02, 0.05]),
        coffdiag=rng.choice([0.1, 0.2, 0.3]),
        # wall width comparable to the grid's position scale (a resolved wall)
        kind=kind, width=Lxi * rng.choice([0.7, 1.0, 1.5]),
        v0=-round(rng.uniform(0.3, 0.7), 3), f0=round(rng.uniform(20.0, 80.0), 2),
        aT=amp[0] * round(rng.uniform(0.03, 0.15), 3),
        av=amp[1] * round(rng.uniform(0.02, 0.1), 3),
        af=amp[2] * round(rng.uniform(0.5, 1.0), 3))
    # variants (drawn after the base case so that the base stream is unchanged)
    var = dict(cmult=rng.choice([0.5, 3.0]), v0=round(rng.uniform(0.2, 0.6), 3))
    for k, v in over.items():
        c[k] = var[k] if v is None else v
    if c.get("massless"):
        c["couplings"][0] = 0.0
    return c


def deltas_array(res):
    D = res.Deltas
    return np.array([D.Delta00.coefficients, D.Delta02.coefficients,
                     D.Delta20.coefficients, D.Delta11.coefficients])


def rel(a, b):
    return float(np.linalg.norm(np.asarray(a) - np.asarray(b)) /
                 (np.linalg.norm(np.asarray(b)) + 1e-300))


# ------------------------------------------------------------------------------------
# direct validation

TOL = 1e-11        # equality across bases / call paths (observed <= 2e-14 up to 2900 unknowns)
MARGINS = {}       # key -> largest observed/tolerance on this run (recorded in the evidence)


def margin(key, observed, tol):
    if np.isfinite(observed):
        MARGINS[key] = max(MARGINS.get(key, 0.0), float(observed) / tol)


class HarnessGap(Exception):
    """the harness (not WallGo) could not carry out a step"""
TOL_RES = 1e-11     # residual of a dense double-precision solve (observed <= 5e-15, cond <= 1e3)


def results_outputs(res, grid, bM, bN, pts):
    """every output of getDeltas as basis independent numbers"""
    _, _, Polynomial, _ = wg()
    poly = Polynomial(np.array(res.deltaF), grid, ("Array", bM, bN, bN),
                      ("Array", "z", "pz", "pp"), False)
    return dict(deltaF=np.asarray(poly.evaluate(pts, (1, 2, 3))), Deltas=deltas_array(res),
                truncationError=np.asarray(float(res.truncationError)),
                criterion1=np.asarray(res.linearizationCriterion1, dtype=float),
                criterion2=np.asarray(res.linearizationCriterion2, dtype=float))


def compare_outputs(out, ref, tol, what, report, replay):
    for k in ("deltaF", "Deltas", "truncationError", "criterion1", "criterion2"):
        d = rel(out[k], ref[k])
        margin("equal-outputs:%g" % tol, d, tol)
        if not d < tol:
            report("%s of getDeltas differs by %.2e %s" % (k, d, what),
                   dict(replay, output=k, diff=d), "basis-dependence:%s" % k)


def check_family(case, report, bases=None, light=False):
    """all four basis combinations (+ finite-difference mode) for one physical problem"""
    _, _, Polynomial, _ = wg()
    grid, ps, coll, data = setup(case)
    cm = case.get("cmult", 1.0)
    bg = make_background(grid, case)
    hom = dict(case, aT=0.0, av=0.0, af=0.0)
    bg_hom = make_background(grid, hom)
    prng = np.random.default_rng(case["cseed"] + 1)
    pts = prng.uniform(-0.97, 0.97, size=(3, 25))
    ref = None
    ops = {}
    combos = bases or [(bM, bN) for bM in BASES for bN in BASES]
    # natural size of deltaF for O(0.1) gradients in this setup (reference for "zero")
    refbg = make_background(grid, dict(case, aT=0.1, av=0.05, af=1.0))
    scale_dF = float(np.abs(make_solver(grid, ps, refbg, coll, "Cardinal", "Cardinal", cmult=cm)
                            .solveBoltzmannEquations()).max())
    for nb, (bM, bN) in enumerate(combos):
        if True:
            s = make_solver(grid, ps, bg, coll, bM, bN, cmult=cm, order=nb)
            op, src, _, _ = s.buildLinearEquations()
            dF = s.solveBoltzmannEquations()
            ops[(bM, bN)] = op
            if dF.dtype != np.float64 or op.dtype != np.float64:
                report("solution / operator is not double precision (%s, %s)" % (dF.dtype, op.dtype),
                       dict(check="family", case=case, basisM=bM, basisN=bN), "dtype")
            r = float(np.linalg.norm(op @ dF.flatten() - src) / (np.linalg.norm(src) + 1e-300))
            if case["kind"] != "hom":
                margin("residual", r, TOL_RES)
            if case["kind"] != "hom" and not r < TOL_RES:
                report("residual of the assembled system |A x - s|/|s| = %.2e (basisM=%s "
                       "basisN=%s, %d unknowns)" % (r, bM, bN, len(src)),
                       dict(check="family", case=case, basisM=bM, basisN=bN, residual=r),
                       "residual")
            rp = dict(check="family", case=case, basisM=bM, basisN=bN)
            dF_in = np.array(dF, copy=True)
            res1 = s.getDeltas(dF)
            if not np.array_equal(dF, dF_in):
                report("getDeltas(deltaF) modified the caller's deltaF array (by %.2e)" % rel(
                    dF, dF_in), rp, "getDeltas:mutates-argument")
            res0 = s.getDeltas()
            if case["kind"] != "hom":
                o1 = results_outputs(res1, grid, bM, bN, pts)
                o0 = results_outputs(res0, grid, bM, bN, pts)
                compare_outputs(o0, o1, 1e-12, "between getDeltas() and getDeltas(its own "
                                "solution) (basisM=%s basisN=%s)" % (bM, bN), report, rp)
                if ref is None:
                    ref = o1
                else:
                    compare_outputs(o1, ref, TOL, "between (%s,%s) and (%s,%s)" % (
                        (bM, bN) + combos[0]), report, rp)
            if light:
                continue
            # homogeneous background: no deviation
            sh = make_solver(grid, ps, bg_hom, coll, bM, bN, cmult=cm)
            dFh = sh.solveBoltzmannEquations()
            if not float(np.abs(dFh).max()) <= 1e-9 * scale_dF:
                report("homogeneous background gives deltaF up to %.2e (basisM=%s basisN=%s)"
                       % (float(np.abs(dFh).max()), bM, bN),
                       dict(check="family", case=hom, basisM=bM, basisN=bN,
                            max_deltaF=float(np.abs(dFh).max())), "homogeneous-nonzero")
    if light:
        return
    # finite-difference mode: residual and homogeneous
    for b, lab in ((bg, "var"), (bg_hom, "hom")):
        s = make_solver(grid, ps, b, coll, "Cardinal", "Cardinal", "Finite Difference", cmult=cm)
        op, src, _, _ = s.buildLinearEquations()
        dF = s.solveBoltzmannEquations()
        r = float(np.linalg.norm(op @ dF.flatten() - src) / (np.linalg.norm(src) + 1e-300))
        if lab == "var" and case["kind"] != "hom" and not r < TOL_RES:
            report("finite-difference mode: residual %.2e" % r,
                   dict(check="family", case=case, mode="FD", residual=r), "residual")
        if lab == "hom" and not float(np.abs(dF).max()) <= 1e-9 * scale_dF:
            report("finite-difference mode: homogeneous background gives deltaF up to %.2e"
                   % float(np.abs(dF).max()), dict(check="family", case=hom, mode="FD"),
                   "homogeneous-nonzero")
    # hypotheses of operator_factorisation_partial, and the assembled factorisation itself
    tp = Polynomial(np.ones(grid.M + 1), grid, "Cardinal", "z", True)
    nP, m, n = len(ps), grid.M - 1, grid.N - 1
    opc = ops[("Cardinal", "Cardinal")].reshape((nP, m, n, n, nP, m, n, n))
    for d in ("z", "pz", "pp"):
        if not np.abs(tp.matrix("Cardinal", d) - np.eye(m if d == "z" else n)).max() < 1e-13:
            report("Polynomial.matrix('Cardinal','%s') is not the identity" % d,
                   dict(check="family", case=case, direction=d), "assumption:cardinal-identity")
    # hypotheses of constant_profile_has_zero_derivative: rows of the derivative matrices the two
    # modes apply to the full profiles sum to zero
    import findiff
    chiF, rzF, _ = grid.getCompactCoordinates(endpoints=True)
    Dfd = findiff.FinDiff((0, chiF, 1), acc=2).matrix((grid.M + 1,)).toarray()
    Dsp = tp.derivMatrix("Cardinal", "z", True)
    for nm, D in (("findiff", Dfd), ("spectral", Dsp)):
        rs = float(np.abs(D.sum(axis=1)).max() / np.abs(D).max())
        if not rs < 1e-11:
            report("rows of the %s d/dchi matrix (with end points) do not sum to zero: %.2e" % (
                nm, rs), dict(check="family", case=case, matrix=nm), "assumption:rows-sum-zero")
    for d, bs in (("z", "Chebyshev"), ("pz", "Chebyshev"), ("pp", "Chebyshev")):
        cd = float(np.linalg.cond(tp.matrix(bs, d)))
        if not cd < 1e8:
            report("matrix(%s,%s) is numerically singular: cond %.2e" % (bs, d, cd),
                   dict(check="family", case=case, direction=d), "assumption:basis-invertible")
    for bM in BASES:
        for bN in BASES:
            if (bM, bN) not in ops:
                continue
            X, Y, Z = tp.matrix(bM, "z"), tp.matrix(bN, "pz"), tp.matrix(bN, "pp")
            for d, bs, Mx in (("z", bM, X), ("pz", bN, Y)):
                e = np.abs(tp.derivMatrix("Cardinal", d)[1:-1] @ Mx -
                           tp.derivMatrix(bs, d)[1:-1]).max() / np.abs(
                               tp.derivMatrix(bs, d)).max()
                if not e < 1e-11:
                    report("derivMatrix(%s,%s)[1:-1] != derivMatrix(Cardinal)[1:-1] @ "
                           "matrix(%s): %.2e" % (bs, d, bs, e),
                           dict(check="family", case=case, basis=bs, direction=d),
                           "assumption:derivative-factor")
            cb = copy.deepcopy(coll)
            cb.changeBasis(bN)
            pred = np.einsum("abcdjk,jJ,kK->abcdJK", data, Y, Z)
            e = np.abs(pred - cb[:]).max() / np.abs(pred).max()
            if not e < 1e-12:
                report("CollisionArray.changeBasis(%s) is not the covariant transformation of "
                       "the polynomial axes: %.2e" % (bN, e),
                       dict(check="family", case=case, basisN=bN), "assumption:collision-covariant")
            fac = np.einsum("abcdeijk,iI,jJ,kK->abcdeIJK", opc, X, Y, Z)
            got = ops[(bM, bN)].reshape(opc.shape)
            e = float(np.abs(fac - got).max() / np.abs(got).max())
            if not e < 1e-11:
                w = np.unravel_index(np.argmax(np.abs(fac - got)), got.shape)
                report("operator(%s,%s) != operator(Cardinal,Cardinal) . (Mchi x Mrz x Mrp): "
                       "rel. diff %.2e, worst entry %s" % (bM, bN, e, tuple(int(x) for x in w)),
                       dict(check="family", case=case, basisM=bM, basisN=bN, diff=e,
                            entry=[int(x) for x in w]), "operator-factorisation")


FD_GRIDS = (10, 20, 40)


def fd_pair(case, M):
    """(source, Liouville applied to a smooth test function) in both derivative modes.  The
    test function is quadratic in rz (and zero at rz = +-1), for which both the 3-point
    finite-difference and the spectral rz-derivative are exact: the momentum grid is not
    refined here, only the spatial one."""
    WallGo, Grid, _, CollisionArray = wg()
    grid = make_grid(case, M)
    ps = make_particles(case["stats"], case["couplings"], case.get("nfields", 1))
    bg = make_background(grid, case)
    chi, rz, rp = grid.getCompactCoordinates(endpoints=False)
    P = len(ps)
    g = ((1 - chi ** 2) * np.exp(0.5 * chi))[None, :, None, None] * \
        (1 - rz ** 2)[None, None, :, None] * \
        ((1 - rp) * np.exp(0.3 * rp))[None, None, None, :] * np.ones((P, 1, 1, 1))
    out = []
    for mode in ("Spectral", "Finite Difference"):
        s = WallGo.BoltzmannSolver(grid, "Cardinal", "Cardinal", mode)
        s.updateParticleList(ps)
        s.setBackground(bg)
        ca = CollisionArray(grid, "Cardinal", ps)
        ca.polynomialData.coefficients[...] = 0.0
        s.setCollisionArray(ca)
        _, src, li, _ = s.buildLinearEquations()
        out.append((src, np.sum(li * g[None, None, None, None, ...], axis=(4, 5, 6, 7))))
    return out


def check_fd(case, report):
    es, el = [], []
    for M in FD_GRIDS:
        (s, l), (sf, lf) = fd_pair(case, M)
        es.append(rel(sf, s))
        el.append(rel(lf, l))
    for name, e in (("source", es), ("liouville", el)):
        margin("fd-convergence:ratio", max(e[i + 1] / e[i] for i in range(len(e) - 1)), 1 / 2.5)
        margin("fd-convergence:last", e[-1], 2e-2)
        ok = all(e[i + 1] < e[i] / 2.5 for i in range(len(e) - 1)) and e[-1] < 2e-2
        if not ok:
            report("finite-difference %s does not converge (2nd order) to the spectral one "
                   "for a background varying %s: rel. differences %s at M=%s" % (
                       name, case["kind"], ["%.3e" % x for x in e], list(FD_GRIDS)),
                   dict(check="fd", case=case, errors=e, grids=list(FD_GRIDS), which=name),
                   "fd-convergence:%s:%s" % (name, case["kind"]))
    return es, el


def check_physics(case, report, M=40, mode="Spectral", tol=5e-3):
    """The source and the Liouville operator against the ANALYTIC linearised Boltzmann equation
    (mirrors source_is_minus_liouville_of_equilibrium, gammaWall_is_lorentz,
    liouville_coefficients_explicit):
      K1 = dchi/dxi gamma_w (pz - vw E),  K2 = dchi/dxi drz/dpz gamma_w/2 d m^2/dchi,
      gamma_w = 1/sqrt(1 - vw^2),  source = -(K1 d f_eq/dchi - K2 d f_eq/drz),
    with f_eq = the code's _feq composed with the analytic profiles (derivatives of f_eq by
    central differences).  K1, K2 are ALSO read off the Liouville array the code builds and must
    agree with the formulas.  tol: spectral truncation error of a resolved tanh wall at this M
    (observed <= 1.5e-3 at M = 40 for widths 0.7..1.5 Lxi); 2nd order for finite differences."""
    WallGo, Grid, Polynomial, CollisionArray = wg()
    grid = make_grid(case, M)
    nf = case.get("nfields", 1)
    ps = make_particles(case["stats"], case["couplings"], nf)
    s = WallGo.BoltzmannSolver(grid, "Cardinal", "Cardinal", mode)
    s.updateParticleList(ps)
    s.setBackground(make_background(grid, case))
    ca = CollisionArray(grid, "Cardinal", ps)
    ca.polynomialData.coefficients[...] = 0.0
    s.setCollisionArray(ca)
    _, src, li, _ = s.buildLinearEquations()
    P, m, n = len(ps), M - 1, case["N"] - 1
    src = src.reshape(P, m, n, n)
    vwall_frame, Tf, fs = profiles(case)
    vmid = 0.5 * (vwall_frame(-np.inf) + vwall_frame(np.inf)) + case.get("dvmid", 0.0)
    boost = lambda v, u: (v - u) / (1 - u * v)
    vf = lambda x: boost(vwall_frame(x), vmid)
    vw = boost(0.0, vmid)
    gw = 1 / np.sqrt(1 - vw ** 2)
    xi, pz, pp = grid.getCoordinates()
    if not (np.abs(vf(xi) - s.background.velocityProfile[1:-1]).max() < 1e-12 and
            abs(vw - s.background.velocityWall) < 1e-12):
        report("setBackground does not hold the profile boosted by velocityMid",
               dict(check="physics", case=case, mode=mode), "physics:boost")
        return None
    stat = [-1 if p.statistics == "Fermion" else 1 for p in ps]
    msq = lambda a, x_: msq_of_fields(case["couplings"][a], *[f(x_) for f in fs])

    def feq(a, x_, p_, q_):
        E = np.sqrt(msq(a, x_) + p_ ** 2 + q_ ** 2)
        g = 1 / np.sqrt(1 - vf(x_) ** 2)
        return WallGo.BoltzmannSolver._feq(g * (E - vf(x_) * p_) / Tf(x_), stat[a])
    dxidchi, dpzdrz, _ = grid.getCompactificationDerivatives()
    if mode == "Spectral":
        tp = Polynomial(np.ones(M + 1), grid, "Cardinal", "z", True)
        Dchi = tp.derivMatrix("Cardinal", "z")[1:-1]
        Drz = tp.derivMatrix("Cardinal", "pz")[1:-1]
    else:
        import findiff
        chiF, rzF, _ = grid.getCompactCoordinates(endpoints=True)
        Dchi = findiff.FinDiff((0, chiF, 1), acc=2).matrix((M + 1,)).toarray()[1:-1, 1:-1]
        Drz = findiff.FinDiff((0, rzF, 1), acc=2).matrix((case["N"] + 1,)).toarray()[1:-1, 1:-1]
    want = np.zeros_like(src)
    k1c, k1a, k2c, k2a = (np.zeros_like(src) for _ in range(4))
    h, hp = 1e-5 * case["width"], 1e-5 * case["T0"]
    for a in range(P):
        for al in range(m):
            dmsq = (msq(a, xi[al] + h) - msq(a, xi[al] - h)) / (2 * h)      # d m^2 / d xi
            for be in range(n):
                for ga in range(n):
                    i = al + 1 if al + 1 < m else al - 1      # a neighbour: nonzero for both
                    j = be + 1 if be + 1 < n else be - 1      # derivative matrices
                    E = np.sqrt(msq(a, xi[al]) + pz[be] ** 2 + pp[ga] ** 2)
                    k1c[a, al, be, ga] = li[a, al, be, ga, a, i, be, ga] / Dchi[al, i]
                    k2c[a, al, be, ga] = -li[a, al, be, ga, a, al, j, ga] / Drz[be, j]
                    K1 = gw * (pz[be] - vw * E) / dxidchi[al]
                    K2 = (gw / 2) * dmsq / dpzdrz[be]     # dchi/dxi drz/dpz gw/2 dm2/dchi
                    k1a[a, al, be, ga], k2a[a, al, be, ga] = K1, K2
                    dfx = (feq(a, xi[al] + h, pz[be], pp[ga]) -
                           feq(a, xi[al] - h, pz[be], pp[ga])) / (2 * h)
                    dfp = (feq(a, xi[al], pz[be] + hp, pp[ga]) -
                           feq(a, xi[al], pz[be] - hp, pp[ga])) / (2 * hp)
                    want[a, al, be, ga] = -(K1 * dfx * dxidchi[al] - K2 * dfp * dpzdrz[be])
    rp = dict(check="physics", case=case, M=M, mode=mode, tol=tol)
    e1 = rel(k1c, k1a)
    margin("physics:K1", e1, 1e-9)
    if not e1 < 1e-9:
        w = np.unravel_index(np.argmax(np.abs(k1c - k1a)), src.shape)
        report("coefficient of d/dchi in the Liouville operator differs from dchi/dxi gamma_w (pz "
               "- vw E), gamma_w = 1/sqrt(1-vw^2), by %.2e; entry %s: code %.6g, formula %.6g" % (
                   e1, tuple(int(x) for x in w), k1c[w], k1a[w]), dict(rp, diff=e1),
               "physics:liouville-K1")
    e2 = rel(k2c, k2a) if np.abs(k2a).max() > 0 else float(np.abs(k2c).max())
    if not e2 < tol:
        w = np.unravel_index(np.argmax(np.abs(k2c - k2a)), src.shape)
        report("coefficient of d/drz in the Liouville operator differs from dchi/dxi drz/dpz "
               "gamma_w/2 dm^2/dchi by %.2e; entry %s: code %.6g, formula %.6g" % (
                   e2, tuple(int(x) for x in w), k2c[w], k2a[w]), dict(rp, diff=e2),
               "physics:liouville-K2")
    e = rel(src, want)
    margin("physics:%s" % mode.split()[0], max(e, e2), tol)
    if not e < tol:
        w = np.unravel_index(np.argmax(np.abs(src - want)), src.shape)
        report("source differs from -Liouville[f_eq] (analytic profiles and coefficients, %s, "
               "M=%d) by %.2e; worst entry %s: code %.6g, expected %.6g" % (
                   mode, M, e, tuple(int(x) for x in w), src[w], want[w]),
               dict(rp, diff=e, entry=[int(x) for x in w], code=float(src[w]),
                    expected=float(want[w])),
               "physics:source-vs-liouville-feq:%s" % case["kind"])
    return max(e, e2)


def check_production(case, report, bases):
    """production size (thousands of unknowns): residual and every output of getDeltas"""
    check_family(case, report, bases=bases, light=True)


def check_reuse(case, report):
    """one solver object taken through bg1 -> homogeneous -> bg2 -> bg1 (and a changed
    collisionMultiplier-free re-set of particles / collision array) against fresh solvers"""
    grid, ps, coll, _ = setup(case)
    cm = case.get("cmult", 1.0)
    c2 = dict(case, aT=0.5 * case["aT"] + 0.02, av=-0.7 * case["av"], af=0.6 * case["af"],
              width=1.3 * case["width"])
    bg1, bg2 = make_background(grid, case), make_background(grid, c2)
    bgh = make_background(grid, dict(case, aT=0.0, av=0.0, af=0.0))
    for bN in BASES:
        fresh1 = make_solver(grid, ps, bg1, coll, "Cardinal", bN, cmult=cm).getDeltas()
        fresh2 = make_solver(grid, ps, bg2, coll, "Cardinal", bN, cmult=cm, order=1).getDeltas()
        s = make_solver(grid, ps, bg1, coll, "Cardinal", bN, cmult=cm, order=2)
        a1 = s.getDeltas()
        s.setBackground(bgh)
        ah = s.getDeltas()
        s.setBackground(bg2)
        a2 = s.getDeltas()
        s.updateParticleList(ps)
        s.setBackground(bg1)
        a1b = s.getDeltas()
        rp = dict(check="reuse", case=case, basisN=bN)
        for lab, got, want in (("first background", a1, fresh1), ("second background", a2, fresh2),
                               ("first background again", a1b, fresh1)):
            d = max(rel(got.deltaF, want.deltaF), rel(deltas_array(got), deltas_array(want)),
                    rel(got.linearizationCriterion1, want.linearizationCriterion1),
                    rel(got.linearizationCriterion2, want.linearizationCriterion2),
                    abs(got.truncationError - want.truncationError))
            if not d == 0.0:
                report("re-used solver (%s, basisN=%s) differs from a fresh solver by %.2e" % (
                    lab, bN, d), dict(rp, stage=lab, diff=d), "history:reuse")
        sc = float(np.abs(fresh1.deltaF).max())
        if not float(np.abs(ah.deltaF).max()) <= 1e-9 * sc:
            report("re-used solver: homogeneous background after a varying one gives deltaF up "
                   "to %.2e" % float(np.abs(ah.deltaF).max()), rp, "history:reuse")


def check_grid_mutation(case, report):
    """the EOM rescales the grid of a live solver between solves (changePositionFalloffScale /
    Grid3Scales.changePositionFalloffScale): the solver must then behave like a solver built on
    a grid constructed with the new scale"""
    grid, ps, coll, _ = setup(case)
    cm = case.get("cmult", 1.0)
    c2 = dict(case, Lxi=case["Lxi"] * 1.7)
    for bN in BASES:
        s = make_solver(grid, ps, make_background(grid, case), coll, "Cardinal", bN, cmult=cm)
        s.getDeltas()
        if case.get("grid") == "Grid3Scales":
            L = c2["Lxi"]
            grid.changePositionFalloffScale(4 * L, 6 * L, L, 0)
        else:
            grid.changePositionFalloffScale(c2["Lxi"])
        s.setBackground(make_background(grid, case))
        got = s.getDeltas()
        g2 = make_grid(c2)
        coll2, _ = make_collision(g2, ps, case["cseed"], case["cscale"], case["coffdiag"])
        want = make_solver(g2, ps, make_background(g2, case), coll2, "Cardinal", bN,
                           cmult=cm).getDeltas()
        d = max(rel(got.deltaF, want.deltaF), rel(deltas_array(got), deltas_array(want)),
                rel(got.linearizationCriterion2, want.linearizationCriterion2))
        margin("grid-mutation", d, TOL)
        if not d < TOL:
            report("solver whose grid was rescaled in place (basisN=%s) differs from a solver "
                   "built on a fresh grid of the new scale by %.2e" % (bN, d),
                   dict(check="gridmut", case=case, basisN=bN, diff=d), "history:grid-mutation")
        # put the shared grid back for the next basis
        if case.get("grid") == "Grid3Scales":
            L = case["Lxi"]
            grid.changePositionFalloffScale(4 * L, 6 * L, L, 0)
        else:
            grid.changePositionFalloffScale(case["Lxi"])


def runtime_copy_hooks(case):
    """copy hooks as the interpreter sees them on a LIVE solver: for every object reachable from
    the solver, type(o) must not define __deepcopy__ / __copy__ / __reduce__ / __reduce_ex__ /
    __getstate__ / __setstate__ other than the ones of object / numpy, and copyreg must not know
    the type (catches hooks attached after the class body, inherited, or registered)"""
    import copyreg
    grid, ps, coll, _ = setup(case)
    s = make_solver(grid, ps, make_background(grid, case), coll, "Cardinal", "Chebyshev")
    seen, todo, found = set(), [s], []
    while todo:
        o = todo.pop()
        if id(o) in seen:
            continue
        seen.add(id(o))
        t = type(o)
        if t.__module__.split(".")[0] != "WallGo":
            continue
        for h in ("__deepcopy__", "__copy__", "__getstate__", "__setstate__", "__reduce__",
                  "__reduce_ex__"):
            for k in t.__mro__:
                if k.__module__.split(".")[0] == "WallGo" and h in vars(k):
                    found.append((k.__module__, k.__name__, h))
        if t in copyreg.dispatch_table:
            found.append((t.__module__, t.__name__, "copyreg"))
        for v in list(getattr(o, "__dict__", {}).values()):
            todo.extend(v if isinstance(v, (list, tuple)) else [v])
    return sorted(set(found))


def check_background(case, report):
    """setBackground must not touch the caller's object; the same object handed to two
    solvers (or twice to one) gives the same stored background"""
    grid, ps, coll, _ = setup(case)
    bg = make_background(grid, case)
    snap = (np.array(bg.velocityProfile, copy=True), float(bg.velocityWall),
            np.array(bg.temperatureProfile, copy=True), np.array(bg.fieldProfiles, copy=True))
    s1 = make_solver(grid, ps, bg, coll, "Cardinal", "Cardinal", cmult=case.get("cmult", 1.0))
    v1 = np.array(s1.background.velocityProfile, copy=True)
    d1 = s1.solveBoltzmannEquations()
    s2 = make_solver(grid, ps, bg, coll, "Cardinal", "Cardinal", cmult=case.get("cmult", 1.0))
    s1.setBackground(bg)
    d1b = s1.solveBoltzmannEquations()
    d2 = s2.solveBoltzmannEquations()
    same_caller = (np.array_equal(snap[0], bg.velocityProfile) and
                   snap[1] == float(bg.velocityWall) and
                   np.array_equal(snap[2], bg.temperatureProfile) and
                   np.array_equal(snap[3], np.asarray(bg.fieldProfiles)))
    if not same_caller:
        report("BoltzmannSolver.setBackground changed the caller's background object "
               "(velocityWall %r -> %r)" % (snap[1], float(bg.velocityWall)),
               dict(check="background", case=case), "background:caller-mutated")
    if not (np.array_equal(d1, d2) and np.array_equal(d1, d1b) and
            np.array_equal(v1, s2.background.velocityProfile)):
        report("the same background object handed to setBackground again gives a different "
               "solution: |d(deltaF)| = %.2e (second solver), %.2e (same solver, set twice)"
               % (rel(d2, d1), rel(d1b, d1)), dict(check="background", case=case),
               "background:history")

def make_eom(solver, nfields=1):
    """An EOM object carrying every attribute EOM.__init__ sets, without constructing the
    thermodynamics / hydrodynamics (None): the constructor's `self.X = expr` statements are
    executed on a bare instance with the parameters bound to the solver's objects and to the
    defaults of the signature."""
    import ast as _ast
    import inspect
    from WallGo.equationOfMotion import EOM
    eom = object.__new__(EOM)
    sig = inspect.signature(EOM.__init__)
    ns = {k: (p.default if p.default is not inspect.Parameter.empty else None)
          for k, p in sig.parameters.items() if k != "self"}
    ns.update(boltzmannSolver=solver, grid=solver.grid, nbrFields=nfields, meanFreePathScale=1.0,
              wallThicknessBounds=(0.1, 100.0), wallOffsetBounds=(-10.0, 10.0),
              includeOffEq=True, thermodynamics=None, hydrodynamics=None, self=eom)
    try:
        tree = _ast.parse(inspect.getsource(EOM.__init__).lstrip())
    except (OSError, SyntaxError):
        tree = None
    if tree is not None:
        for st in tree.body[0].body:
            if isinstance(st, _ast.Assign) and len(st.targets) == 1 and \
                    isinstance(st.targets[0], _ast.Attribute) and \
                    _ast.unparse(st.targets[0].value) == "self":
                try:
                    val = eval(compile(_ast.Expression(st.value), "<eom-init>", "eval"), ns)
                except Exception:
                    val = None
                object.__setattr__(eom, st.targets[0].attr, val)
    eom.boltzmannSolver = solver
    return eom


def call_eom(fn):
    """run a method of the EOM stub; an error raised in equationOfMotion.py itself while
    reading EOM state (AttributeError / TypeError on the stub's None collaborators) is a gap of
    the harness, not a failing input of the Boltzmann solver"""
    try:
        return fn()
    except (AttributeError, TypeError) as ex:
        tb = ex.__traceback__
        while tb.tb_next is not None:
            tb = tb.tb_next
        if tb.tb_frame.f_code.co_filename.endswith("equationOfMotion.py"):
            raise HarnessGap("EOM stub cannot run %s: %r" % (tb.tb_frame.f_code.co_name, ex))
        raise


def check_history(case, report):
    """spectral solve, FD cross-check through the real EOM method, spectral solve again"""
    from WallGo.equationOfMotion import EOM
    _, _, Polynomial, _ = wg()
    grid, ps, coll, _ = setup(case)
    bg = make_background(grid, case)
    for bN in BASES:
        s = make_solver(grid, ps, bg, coll, "Cardinal", bN, cmult=case.get("cmult", 1.0))
        eom = make_eom(s, case.get("nfields", 1))
        first = s.getDeltas()
        before = (s.derivatives, s.basisM, s.basisN,
                  tuple(s.collisionArray.polynomialData.basis), s.collisionArray[:].copy())
        fd1 = call_eom(eom.getBoltzmannFiniteDifference)
        fd2 = call_eom(eom.getBoltzmannFiniteDifference)
        second = s.getDeltas()
        after = (s.derivatives, s.basisM, s.basisN,
                 tuple(s.collisionArray.polynomialData.basis), s.collisionArray[:].copy())
        d = rel(second.deltaF, first.deltaF)
        dd = max(rel(deltas_array(second), deltas_array(first)),
                 rel(second.linearizationCriterion1, first.linearizationCriterion1),
                 rel(second.linearizationCriterion2, first.linearizationCriterion2),
                 abs(second.truncationError - first.truncationError))
        same_state = before[:4] == after[:4] and np.array_equal(before[4], after[4])
        if not (d == 0.0 and dd == 0.0 and same_state):
            report("spectral solution of a (Cardinal,%s) solver changed after "
                   "EOM.getBoltzmannFiniteDifference(): deltaF by %.2e, Deltas by %.2e; solver "
                   "state before %s after %s" % (bN, d, dd, before[:4], after[:4]),
                   dict(check="history", case=case, basisN=bN, deltaF_change=d,
                        Deltas_change=dd, before=[str(x) for x in before[:4]],
                        after=[str(x) for x in after[:4]]), "history:fd-crosscheck")
        if not rel(fd2.deltaF, fd1.deltaF) == 0.0:
            report("finite-difference cross-check is not repeatable",
                   dict(check="history", case=case, basisN=bN), "history:fd-repeat")
        # the FD cross-check really is a finite-difference solve of the same problem
        sfd = make_solver(grid, ps, bg, coll, "Cardinal", "Cardinal", "Finite Difference",
                          cmult=case.get("cmult", 1.0))
        fdref = sfd.getDeltas()
        if not (rel(fd1.deltaF, fdref.deltaF) < TOL and
                rel(deltas_array(fd1), deltas_array(fdref)) < TOL):
            report("EOM.getBoltzmannFiniteDifference() differs from an independently built "
                   "finite-difference solver", dict(check="history", case=case, basisN=bN),
                   "history:fd-value")


# ------------------------------------------------------------------------------------
# certified correspondence: generated kernels vs the arrays the running code builds

def capture_locals(solver):
    """locals of the real buildLinearEquations at its return"""
    box = {}
    code = type(solver).buildLinearEquations.__code__

    def prof(frame, event, arg):
        if event == "return" and frame.f_code is code:
            box.update(frame.f_locals)
    sys.setprofile(prof)
    try:
        ret = solver.buildLinearEquations()
    finally:
        sys.setprofile(None)
    return box, ret


def coq_num(x):
    q = Fraction(float(x))
    if q.denominator == 1:
        return "%d" % q.numerator if q.numerator >= 0 else "(%d)" % q.numerator
    return "(%d / %d)" % (q.numerator, q.denominator)


def coq_table(name, arr):
    """Definition f_name : nat -> .. -> R  by nested nth on nested lists"""
    arr = np.asarray(arr, dtype=float)
    r = arr.ndim
    if r == 0:
        return "Definition f_%s : R := %s." % (name, coq_num(arr))

    def lit(a):
        if a.ndim == 0:
            return coq_num(a)
        return "[" + "; ".join(lit(x) for x in a) + "]"

    def ty(k):
        return "R" if k == 0 else "list (%s)" % ty(k - 1)
    idx = ["i%d" % k for k in range(r)]
    body = "T_%s" % name
    for k, i in enumerate(idx):
        body = "(nth %s %s %s)" % (i, body, "0" if k == r - 1 else "[]")
    return "Definition T_%s : %s := %s.\nDefinition f_%s (%s : nat) : R := %s." % (
        name, ty(r), lit(arr), name, " ".join(idx), body)


def corr_file(tr, solver, label, rng, nsrc, nop):
    WallGo = wg()[0]
    loc, (op, src, liou, colli) = capture_locals(solver)
    ns = dict(self=solver, np=np, particles=solver.offEqParticles,
              BoltzmannSolver=WallGo.BoltzmannSolver)
    leaves = {}
    for s, nm, rk in gen_boltz.LEAVES:
        if nm in tr.used_leaves:
            v = eval(s, ns)
            leaves[nm] = v[:] if nm == "coll" else v
    for s, parts in gen_boltz.TUPLE_LEAVES:
        vals = eval(s, ns)
        for (nm, rk), v in zip(parts, vals):
            if nm in tr.used_leaves:
                leaves[nm] = v
    out = ["From Coq Require Import Reals Lra List.", "From Interval Require Import Tactic.",
           "From WG Require Import Lib.NumpySem Lib.BoltzLin.",
           "From GenC12 Require Import Boltz.", "Import ListNotations.",
           "Local Open Scope R_scope."]
    names = sorted(tr.used_leaves)
    for nm in names:
        out.append(coq_table(nm, leaves[nm]))
    out.append("Definition e0 : env := mk_env %s." % " ".join("f_" + n for n in names))
    for nm, ext in sorted(tr.opaque.items()):
        v = np.asarray(loc[nm], dtype=float)
        if v.ndim != len(ext):
            raise RuntimeError("captured %s has rank %d, model says %d" % (nm, v.ndim, len(ext)))
        keep = tuple(slice(None) if x else 0 for x in ext)
        out.append(coq_table(nm, v[keep]))
    unfold = sorted(set(list(tr.sigs) + ["b__dfeq"] + names + ["f_" + n for n in names] +
                        ["T_" + n for n in names if np.ndim(leaves[n]) > 0] +
                        ["f_" + n for n in tr.opaque] + ["T_" + n for n in tr.opaque]))
    out.append("Ltac ev := cbv beta iota zeta delta [%s e0 nth kron Nat.eqb];\n"
               "  repeat match goal with |- context [Rlt_dec ?a ?b] =>\n"
               "    destruct (Rlt_dec a b) as [HH|HH];\n"
               "    [exfalso; revert HH; apply Rle_not_lt; interval with (i_prec 80)|] end;\n"
               "  interval with (i_prec 80)." % " ".join(unfold))
    shape4 = src.shape if src.ndim == 4 else None
    nP, m, n = len(solver.offEqParticles), solver.grid.M - 1, solver.grid.N - 1
    src4 = np.reshape(src, (nP, m, n, n))
    op8 = np.reshape(op, (nP, m, n, n, nP, m, n, n))
    rows = []

    def goal(kind, deps, idx, val, scale):
        tol = Fraction(abs(float(val))) / 10 ** 9 + Fraction(float(scale)) / 10 ** 12
        call = "%s e0 %s %s" % (kind, " ".join("f_" + d for d in deps),
                                " ".join(str(i) for i in idx))
        out.append("Goal Rabs (%s - %s) <= %s.\nProof. ev. Qed." % (
            call, coq_num(val), pyrx.rlit(tol)))
        rows.append((kind, [int(i) for i in idx], float(val)))
    sscale = float(np.abs(src4).max())
    for _ in range(nsrc):
        idx = (rng.randrange(nP), rng.randrange(m), rng.randrange(n), rng.randrange(n))
        goal("source_k", tr.sigs["source_k"][0], idx, src4[idx], sscale)
    for kind, arr in (("operator_k", op8), ("liouville_k", liou), ("collision_k", colli)):
        sc = float(np.abs(arr).max())
        for t in range(nop):
            row = (rng.randrange(nP), rng.randrange(m), rng.randrange(n), rng.randrange(n))
            b = row[0] if t % 2 == 0 else rng.randrange(nP)
            col = (b, rng.randrange(m), rng.randrange(n), rng.randrange(n))
            goal(kind, tr.sigs[kind][0], row + col, np.asarray(arr)[row + col], sc)
    return "\n".join(out) + "\n", rows


# ------------------------------------------------------------------------------------

def run(ctx):
    rng = ctx.rng
    gen_ok, tr = True, None
    try:
        b_src = vlib.read_src("boltzmann.py")
        e_src = vlib.read_src("equationOfMotion.py")
        c_src = vlib.read_src("collisionArray.py")
        k_src = vlib.read_src("containers.py")
        reach = {f: vlib.read_src(f) for f in gen_boltz.REACHABLE}
        try:
            rt_hooks = runtime_copy_hooks(rand_case(random_module.Random(0), 4, 3, 2, "all"))
        except Exception as ex:
            ctx.log(traceback.format_exc())
            ctx.broken.append("harness-gap: live solver for the run-time copy-hook fact: %r" % ex)
            rt_hooks = [("?", "?", "unknown")]
        text, tr = gen_boltz.generate(b_src, e_src, c_src, k_src, reach, rt_hooks)
        ctx.write("Boltz.v", text, sources=dict(
            files=["src/WallGo/equationOfMotion.py"] + ["src/WallGo/" + f for f in sorted(reach)],
            sha=[vlib.sha(e_src)] + [vlib.sha(reach[f]) for f in sorted(reach)],
            spans=tr.spans))
        ctx.log("copy hooks in reachable classes: %s; deltaF uses: %s" % (
            tr.hooks or "none", [(m, u) for m, u, _, _ in tr.duses if u == "URaw"] or "all ok"))
        ctx.log("setBackground: copy kind %s, boost on %s, boost rebinds only %s" % (
            tr.bg["kind"], tr.bg["target"], tr.bg["rebinds"]))
        ctx.log("derivative facts:", [(m, t, p, d, al) for m, t, p, d, _, _, al in tr.dfacts])
        ctx.log("FD cross-check: copy kind %s, ops %s, changeBasis in place %s" % (
            tr.fd["kind"], tr.fd["ops"], tr.fd["inplace"]))
    except pyrx.TranslateError as e:
        ctx.log("translator failed:", e)
        ctx.broken.append("translator: %s" % e)
        gen_ok = False
    proved = gen_ok and ctx.prove(extra=["Boltz.v"])
    ctx.trusted += ["tools/gen_boltz.py (broadcast-aware AST translator, def-use and aliasing "
                    "fact extractors)", "Interval tactic (certified evaluation)",
                    "mathcomp 1.x matrix library"]

    seen = {}

    def report(what, replay, key):
        seen[key] = seen.get(key, 0) + 1
        if seen[key] <= 2:          # the first two inputs of each failure class are enough
            ctx.fail_input(what, replay, key=key)

    # --- certified correspondence ------------------------------------------------------
    have_model = gen_ok and os.path.exists(os.path.join(ctx.bdir, "Boltz.vo"))
    files = []
    if have_model:
        combos = [("Cardinal", "Chebyshev", "Spectral"), ("Chebyshev", "Cardinal", "Spectral"),
                  ("Cardinal", "Cardinal", "Finite Difference")]
        if not ctx.quick:
            combos += [("Chebyshev", "Chebyshev", "Spectral"), ("Cardinal", "Cardinal", "Spectral")]
        for k, (bM, bN, mode) in enumerate(combos):
            case = rand_case(rng, 4, 3, 1 + k % 2, "all")
            try:
                grid, ps, coll, _ = setup(case)
                s = make_solver(grid, ps, make_background(grid, case), coll, bM, bN, mode)
                txt, rows = corr_file(tr, s, "%s_%s" % (bM, bN), rng, ctx.n(4, 10), ctx.n(3, 6))
                files.append((k, dict(case=case, basisM=bM, basisN=bN, mode=mode), rows,
                              ctx.write("Cases/Corr_%d.v" % k, txt)))
            except Exception as ex:
                ctx.log("correspondence case could not be built:", traceback.format_exc())
                ctx.broken.append("correspondence: harness could not capture the arrays (%r)"
                                  % ex)
        procs = [(k, info, rows, p, subprocess.Popen(
            ["timeout", "600", "coqc"] + ctx.coq_args() + [p], cwd=ctx.bdir,
            stdout=subprocess.PIPE, stderr=subprocess.PIPE, text=True))
            for k, info, rows, p in files]
    else:
        procs = []

    # --- direct validation on the real code (runs while coqc works) ----------------------
    def guard(label, rp, fn):
        """harness gaps are reported as such (ctx.broken), exceptions of the code as inputs"""
        try:
            return fn()
        except HarnessGap as ex:
            ctx.log("HARNESS GAP:", ex)
            ctx.broken.append("harness-gap: %s" % ex)
        except Exception as ex:
            ctx.log(traceback.format_exc())
            report("%s raised %r" % (label, ex), rp, "raises")
        return None

    try:
        kinds = ["T", "v", "f", "all", "hom"]
        # (M, N, particles, kind, variant overrides)
        variants = [dict(cmult=None), dict(v0=None), dict(grid="Grid3Scales"), dict(nfields=2),
                    dict(grid="Uniform"), dict(cmult=None, nfields=2, v0=None),
                    dict(massless=True), dict(dvmid=0.05)]
        if ctx.quick:
            plan = [(6, 3, nP, k, {}) for nP in (1, 2) for k in kinds] + \
                   [(8, 5, nP, k, {}) for nP in (1, 2) for k in ("all", "T")] + \
                   [(6, 3, 3, "all", {}), (6, 3, 1, "hom", dict(dvmid=0.05)),
                    (7, 3, 2, "all", {}), (5, 5, 1, "f", {}),
                    (7, 3, 2, "hom", dict(grid="Grid3Scales", cmult=None)),
                    (6, 3, 2, "all", dict(grid="Grid3Scales", nfields=2))] + \
                   [(6, 3, 1 + i % 2, ("all", "T", "v")[i % 3], v) for i, v in enumerate(variants)]
        else:
            plan = [(M, N, nP, k, {}) for (M, N) in ((6, 3), (8, 5), (10, 5), (7, 3), (12, 3),
                                                     (9, 5), (5, 7))
                    for nP in (1, 2) for k in kinds for _ in range(2)] + \
                   [(M, N, nP, k, {}) for (M, N, nP) in ((14, 7, 1), (14, 7, 2), (20, 5, 2),
                                                         (24, 9, 1), (40, 3, 2), (7, 9, 2),
                                                         (6, 11, 2))
                    for k in ("all", "T", "v")] + \
                   [(M, N, 3, k, {}) for (M, N) in ((6, 3), (8, 5)) for k in ("all", "hom")] + \
                   [(M, N, 1 + i % 3, k, v) for (M, N) in ((6, 3), (8, 5), (11, 3))
                    for i, v in enumerate(variants) for k in ("all", "T", "v", "f", "hom")]
        nfam = 0
        for (M, N, nP, kind, var) in plan:
            case = rand_case(rng, M, N, nP, kind, **var)
            guard("solver", dict(check="family", case=case),
                  lambda: check_family(case, report))
            ctx.count("family_4bases_fd", case, bucket="%s/P%d/%dx%d%s" % (
                kind, nP, M, N, "".join("/" + k for k in sorted(var))))
            nfam += 1
            if nfam <= 2:
                ctx.sample(dict(family=case))
        # production sizes (thousands of unknowns) and several particles at production N
        prod = [(22, 11, 1, [("Cardinal", "Chebyshev"), ("Cardinal", "Cardinal")]),
                (5, 9, 2, [("Cardinal", "Chebyshev"), ("Chebyshev", "Cardinal")])]
        if not ctx.quick:
            prod = [(22, 11, 1, None), (30, 11, 1, [("Cardinal", "Chebyshev"),
                                                     ("Chebyshev", "Chebyshev")]),
                    (7, 11, 2, None), (9, 9, 3, None)]
        for (M, N, nP, bases) in prod:
            case = rand_case(rng, M, N, nP, "all")
            guard("solver", dict(check="production", case=case, bases=bases),
                  lambda: check_production(case, report, bases))
            ctx.count("family_production_size", case, bucket="%dx%d/P%d" % (M, N, nP))
        # finite differences against the spectral oracle: one AND two particles for every kind
        # that has a particle axis in play (field varying)
        fdplan = [("T", 1, 3), ("v", 2, 3), ("f", 2, 3), ("all", 2, 3), ("f", 3, 3)]
        if not ctx.quick:
            fdplan += [(k, 1 + r % 3, rng.choice([3, 5])) for k in ("T", "v", "f", "all")
                       for r in range(4)]
        for (kind, nP, N) in fdplan:
            case = rand_case(rng, 0, N, nP, kind)
            r = guard("finite-difference solver", dict(check="fd", case=case),
                      lambda: check_fd(case, report))
            ctx.count("fd_vs_spectral_refinement", case, bucket="%s/P%d" % (kind, nP))
            if r and kind == "f" and nP == 2:
                ctx.sample(dict(fd_case=case, source_errors=r[0], liouville_errors=r[1]))
        phys = [(kind, {}, "Spectral", 40, 5e-3, 1 + i % 2)
                for i, kind in enumerate(("T", "v", "f", "all")) for _ in range(ctx.n(1, 4))] + \
               [("all", dict(nfields=2), "Spectral", 40, 5e-3, 2),
                ("all", dict(v0=None), "Spectral", 40, 5e-3, 1),
                ("all", dict(massless=True, dvmid=-0.04), "Spectral", 40, 5e-3, 2),
                ("f", dict(), "Spectral", 41, 5e-3, 3),
                ("v", dict(), "Finite Difference", 80, 8e-3, 1),
                ("f", dict(), "Finite Difference", 80, 8e-3, 2),
                ("all", dict(), "Finite Difference", 80, 8e-3, 2)]
        if not ctx.quick:
            phys += [(k, dict(nfields=2, v0=None), m, M, t, 1 + i % 3)
                     for i, k in enumerate(("T", "v", "f", "all"))
                     for (m, M, t) in (("Spectral", 40, 5e-3), ("Finite Difference", 80, 8e-3))]
        for rep, (kind, var, mode, M, tol, nP) in enumerate(phys):
            case = rand_case(rng, 0, 3, nP, kind, **var)
            e = guard("physics check", dict(check="physics", case=case, M=M, mode=mode, tol=tol),
                      lambda: check_physics(case, report, M, mode, tol))
            ctx.count("physics_source_vs_liouville_feq", case,
                      bucket="%s/%s/P%d" % (kind, mode.split()[0], nP))
            if kind == "all" and not var:
                ctx.sample(dict(physics_case=case, mode=mode, rel_diff=e))
        for rep in range(ctx.n(3, 10)):
            var = [dict(), dict(cmult=None), dict(grid="Grid3Scales"), dict(nfields=2),
                   dict(v0=None)][rep % 5]
            case = rand_case(rng, rng.choice([6, 7, 8]), rng.choice([3, 5]), 1 + rep % 3,
                             rng.choice(["all", "v", "T"]), **var)
            guard("re-use check", dict(check="reuse", case=case),
                  lambda: check_reuse(case, report))
            ctx.count("history_reuse", case)
        for rep in range(ctx.n(2, 6)):
            var = [dict(), dict(grid="Grid3Scales")][rep % 2]
            case = rand_case(rng, rng.choice([6, 7]), 3, 1 + rep % 2, "all", **var)
            guard("grid mutation check", dict(check="gridmut", case=case),
                  lambda: check_grid_mutation(case, report))
            ctx.count("history_grid_mutation", case)
        for rep in range(ctx.n(2, 6)):
            case = rand_case(rng, rng.choice([6, 8]), 3, 1 + rep % 2, rng.choice(["v", "all"]),
                             **([dict(), dict(v0=None), dict(grid="Grid3Scales")][rep % 3]))
            guard("background check", dict(check="background", case=case),
                  lambda: check_background(case, report))
            ctx.count("background_aliasing", case)
        for rep in range(ctx.n(3, 9)):
            case = rand_case(rng, rng.choice([6, 8, 9]), rng.choice([3, 5]), 1 + rep % 2, "all",
                             **([{}, dict(cmult=None), dict(grid="Grid3Scales", nfields=2,
                                                            v0=None)][rep % 3]))
            guard("history check", dict(check="history", case=case),
                  lambda: check_history(case, report))
            ctx.count("history_fd_crosscheck", case)
    finally:
        for k, info, rows, p, pr in procs:
            out, err = pr.communicate()
            for _ in rows:
                ctx.count("certified_eval")
            if pr.returncode != 0:
                ctx.broken.append("correspondence: certified evaluation Corr_%d (%s,%s,%s)" % (
                    k, info["basisM"], info["basisN"], info["mode"]))
                ctx.log("certified evaluation failed", vlib.tail(err, 8))
                ctx.log("case", json.dumps(info))
            elif k == 0:
                ctx.sample(dict(corr=info, values=rows[:4]))
    ctx.cov["margins"] = {k: float("%.3g" % v) for k, v in sorted(MARGINS.items())}
    ctx.log("margins (largest observed/tolerance):", ctx.cov["margins"])
    ctx.cov["rule"] = (
        "family: one physical problem (1-3 random Fermion/Boson particles, random couplings, "
        "random diagonally dominant collision tensor, tanh wall varying T / v / field / all / "
        "nothing; variants: collisionMultiplier 0.5/3, v0 > 0, Grid3Scales, uniform spacing, two "
        "fields, a massless particle, velocityMid off the profile mean, setters in three orders) "
        "solved in the four (basisM,basisN) combinations and in finite-difference mode: residual "
        "(1e-11), double precision, homogeneous => 0, EVERY output of getDeltas() and of "
        "getDeltas(deltaF) (deltaF at 25 off-grid points, 4 Deltas, truncationError, both "
        "linearisation criteria) equal across bases (1e-11) and between the two call forms "
        "(1e-12), argument not mutated, assembled-operator factorisation and its per-factor "
        "hypotheses, zero row sums of both d/dchi matrices, cond(matrix(basis)) < 1e8; "
        "production: the same residual/outputs comparison at M=22 (30), N=11 (2100 / 2900 "
        "unknowns) and 2-3 particles at N = 9, 11; odd and even M; fd: source and "
        "Liouville(test function) FD vs spectral at M=10,20,40 with 1, 2 and 3 particles; "
        "physics: Liouville coefficients read off the code vs dchi/dxi gamma_w (pz - vw E) "
        "(1e-9) and dchi/dxi drz/dpz gamma_w/2 dm2/dchi, source vs the analytic -L[f_eq] with "
        "the code's _feq (spectral M=40 rel 5e-3, finite differences M=80 rel 8e-3); history: "
        "spectral / real EOM.getBoltzmannFiniteDifference twice / spectral (all outputs), FD "
        "result vs an independent FD solver; reuse: one solver through bg1 -> homogeneous -> "
        "bg2 -> bg1 vs fresh solvers (bitwise); grid rescaled in place on a live solver vs a "
        "solver on a fresh grid of the new scale; background aliasing; run-time copy hooks of "
        "every WallGo object reachable from a live solver; margins = largest observed/tolerance "
        "per check; certified_eval: entries of "
        "source, operator, liouville, collision of the running code vs the generated Coq kernels "
        "by interval arithmetic (rel 1e-9); distinct = distinct case dictionary")
    ctx.assumptions += [
        "np.linalg.solve returns the solution of a non-singular system (validated: residual "
        "1e-11 up to 2900 unknowns; the call itself is pinned by an AST fact)",
        "Polynomial.derivMatrix(basis)[1:-1] = derivMatrix(Cardinal)[1:-1] @ matrix(basis), "
        "matrix(Cardinal) = identity, CollisionArray.changeBasis contracts the two polynomial "
        "axes with matrix(basis) (validated on every family)",
        "the finite-difference d/dchi matrix of findiff has zero row sums (validated); the "
        "spectral one is C16's model of _cardinalDeriv (proved there to be exact on constants)",
        "copy.deepcopy is structural for classes without copy hooks (AST fact: none of the "
        "classes in %s defines one; validated: history, reuse)" % ", ".join(gen_boltz.REACHABLE)]


def replay(rep):
    print(json.dumps(rep, indent=1))
    msgs = []

    def report(what, replay, key):
        msgs.append((key, what))
        print("FAILS:", key, "-", what)
    case = rep.get("case")
    kind = rep.get("check")
    if kind == "family":
        check_family(case, report)
    elif kind == "production":
        check_production(case, report, [tuple(b) for b in rep["bases"]] if rep.get("bases")
                         else None)
    elif kind == "reuse":
        check_reuse(case, report)
    elif kind == "gridmut":
        check_grid_mutation(case, report)
    elif kind == "fd":
        check_fd(case, report)
    elif kind == "history":
        check_history(case, report)
    elif kind == "background":
        check_background(case, report)
    elif kind == "physics":
        check_physics(case, report, rep.get("M", 40), rep.get("mode", "Spectral"),
                      rep.get("tol", 5e-3))
    print("reproduced" if any(k == rep.get("key") for k, _ in msgs) else "not reproduced")
    return 1 if msgs else 0
