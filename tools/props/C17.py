"""C17 -- grid coordinate maps: monotone bijections, Jacobians, centre, rescaling == new grid."""
import json
import math
import subprocess
from fractions import Fraction

import numpy as np

import gen_grid
import pyrx
import vlib

EXPLANATION = (
    "Grid and Grid3Scales (compactify/decompactify/compactificationDerivatives, the nested "
    "closures term1..5/totalMapping, _updateParameters with its assertions, and the "
    "cache-managing methods __init__/_cacheCoordinates/change*FalloffScale with Python's "
    "method resolution) are regenerated from grid.py and grid3Scales.py on every run. Coq "
    "proves for ALL parameters: simple grid maps are mutually inverse bijections with the "
    "reported Jacobians as derivatives, increasing, origin->0; three-scale map: each "
    "arctanh term's argument stays above 1 / inside (-1,1) and its derivative is "
    "c/(2 s (1-+x)), the reported Jacobian is the derivative of the five-term map on "
    "(-1,1), chi=0 -> wallCenter, under the asserted parameter bounds slope(0)=L/r and "
    "(smoothing<=1) Jacobian>0 hence increasing; any sequence of rescaling calls leaves "
    "the object equal to a freshly constructed one except positionFalloff. The inherited "
    "compactify and the stale positionFalloff are refuted by witnesses (known findings). "
    "Model values are compared with the implementation by certified interval evaluation; "
    "the property is evaluated directly on the implementation (finite differences, "
    "monotonicity, op sequences vs fresh construction).")

ARR = ["chiValues", "rzValues", "rpValues", "xiValues", "pzValues", "ppValues",
       "dxidchi", "dpzdrz", "dppdrp"]
SC3 = ["tailLengthInside", "tailLengthOutside", "wallThickness", "ratioPointsWall",
       "smoothing", "wallCenter", "aIn", "aOut", "momentumFalloffT", "positionFalloff"]
SC1 = ["positionFalloff", "momentumFalloffT"]


# ---------------------------------------------------------------------------------------
# inputs

def dy(rng, mlo, mhi, elo, ehi):
    """dyadic rational m * 2^e (exactly a float)"""
    return Fraction(rng.randint(mlo, mhi)) * Fraction(2) ** rng.randint(elo, ehi)


def rand_g3(rng, equal=None, dyadic=True, near_bound=None):
    """(tIn, tOut, L, T, r, sm, c) admissible, thickness over four decades"""
    L = dy(rng, 16, 31, -11, 3)                       # 0.0078 .. 248
    r = Fraction(rng.randint(2, 14), 16)
    sm = rng.choice([Fraction(1, 32), Fraction(1, 16), Fraction(1, 8), Fraction(1, 4),
                     Fraction(1, 2), Fraction(3, 4), Fraction(1)])
    lo = L * (Fraction(1, 2) + sm) / r
    if near_bound is None:
        near_bound = rng.random() < 0.3

    def tail():
        if near_bound and rng.random() < 0.7:
            # what EOM._updateGrid produces: L (0.5 + 1.05 sm) / r
            return L * (Fraction(1, 2) + Fraction(21, 20) * sm) / r
        return lo * (1 + dy(rng, 1, 15, -6, 2))
    tIn = tail()
    if equal is None:
        equal = rng.random() < 0.35
    tOut = tIn if equal else tail()
    c = rng.choice([Fraction(0), L * dy(rng, 1, 15, -4, 2), -L * dy(rng, 1, 15, -4, 2)])
    T = dy(rng, 8, 31, -6, 3)
    vals = [tIn, tOut, L, T, r, sm, c]
    if dyadic:
        vals = [Fraction(float(v)) for v in vals]        # what the implementation receives
        # rounding must not break admissibility
        lo2 = vals[2] * (Fraction(1, 2) + vals[5]) / vals[4]
        if not (vals[0] > lo2 and vals[1] > lo2):
            return rand_g3(rng, equal, dyadic, near_bound)
    return vals


def mk_g3(p, M=8, N=5, spacing="Spectral"):
    from WallGo.grid3Scales import Grid3Scales
    tIn, tOut, L, T, r, sm, c = (float(x) for x in p)
    return Grid3Scales(M, N, tIn, tOut, L, T, r, sm, c, spacing)


def mk_g1(L, T, M=8, N=5, spacing="Spectral"):
    from WallGo.grid import Grid
    return Grid(M, N, float(L), float(T), spacing)


def jp(p):
    return [str(Fraction(x)) for x in p]


# ---------------------------------------------------------------------------------------
# certified interval evaluation (model vs implementation)

def sqrt_bounds(fr, bits=110):
    n = math.isqrt((fr.numerator << (2 * bits)) // fr.denominator)
    return Fraction(n, 1 << bits), Fraction(n + 1, 1 << bits)


def a_bounds(L, r, sm, t, bits=96):
    N = 4 * sm * L * r * r * (2 * r * t - L * (1 + sm))
    D = abs(2 * r * t - L * (1 + 2 * sm))
    lo, hi = sqrt_bounds(N)
    lo, hi = lo / D, hi / D
    sc = 1 << bits
    return Fraction(math.floor(lo * sc) - 1, sc), Fraction(math.ceil(hi * sc) + 1, sc)


EVAL_HDR = """From Coq Require Import Reals Lra.
From Interval Require Import Tactic.
From WG Require Import Lib.NumpySem Lib.GridMapsCache Lib.GridMaps.
From GenC17 Require Import GridGen.
Local Open Scope R_scope.
Definition e3 := mk_g3_env tt.
Definition e1 := mk_g_env tt.
Ltac fields := cbn [g3_tailLengthInside g3_tailLengthOutside g3_wallThickness g3_ratioPointsWall
  g3_smoothing g3_wallCenter g3_aIn g3_aOut g3_positionFalloff g3_momentumFalloffT
  set_g3_tailLengthInside set_g3_tailLengthOutside set_g3_wallThickness set_g3_ratioPointsWall
  set_g3_smoothing set_g3_wallCenter set_g3_aIn set_g3_aOut set_g3_positionFalloff
  set_g3_momentumFalloffT g_positionFalloff g_momentumFalloffT fst snd].
"""


def eval_file_g3(p, rows):
    """rows: (kind, x, y) with kind in dec1 dec2 dec3 jac1 jac2 jac3 com2 com3"""
    tIn, tOut, L, T, r, sm, c = p
    R = pyrx.rlit
    b1 = a_bounds(L, r, sm, tIn)
    b2 = a_bounds(L, r, sm, tOut)
    out = [EVAL_HDR]
    out.append("Definition s1 := set_g3_momentumFalloffT %s (set_g3_positionFalloff %s "
               "(g3__updateParameters e3 (mk_g3_st 0 0 0 0 0 0 0 0 0 0) %s %s %s %s %s %s))."
               % (R(T), R(L), R(tIn), R(tOut), R(L), R(r), R(sm), R(c)))
    flds = [("tailLengthInside", tIn), ("tailLengthOutside", tOut), ("wallThickness", L),
            ("ratioPointsWall", r), ("smoothing", sm), ("wallCenter", c),
            ("positionFalloff", L), ("momentumFalloffT", T)]
    for k, (nm, v) in enumerate(flds):
        out.append("Lemma F%d : g3_%s s1 = %s.\nProof. reflexivity. Qed." % (k, nm, R(v)))
    for nm, b in (("aIn", b1), ("aOut", b2)):
        out.append("Lemma B_%s : %s <= g3_%s s1 <= %s.\nProof. unfold s1, "
                   "g3__updateParameters; cbv zeta; fields; split; interval with "
                   "(i_prec 130). Qed." % (nm, R(b[0]), nm, R(b[1])))
    out.append("""Ltac ev :=
  unfold comp1, comp2, comp3, g3_decompactify, g3_compactificationDerivatives, g3_compactify,
    g3_totalMapping, g3_term1, g3_term2, g3_term3, g3_term4, g3_term5;
  cbv zeta; cbn [fst snd]; rewrite ?F0, ?F1, ?F2, ?F3, ?F4, ?F5, ?F6, ?F7;
  generalize B_aIn B_aOut; generalize (g3_aIn s1) (g3_aOut s1); intros aI aO HaI HaO;
  unfold atanh_R; rewrite ?tanh_exp;
  interval with (i_prec 90).""")
    for kind, x, y in rows:
        comp = "comp" + kind[-1]
        f = {"dec": "g3_decompactify", "jac": "g3_compactificationDerivatives",
             "com": "g3_compactify"}[kind[:3]]
        q = Fraction(y)
        tol = abs(q) / 10 ** 9 + (tIn + tOut + abs(c) + L + T) / 10 ** 12
        if kind == "dec1":
            # conditioning of the implementation's own float evaluation of the outer arctanh
            # terms: their argument u satisfies u - 1 ~ (1-|x|) a^2, so binary64 rounding of u
            # costs ~ eps * coefficient / ((1-|x|) a^2) in the map
            amin = min(b1[0], b2[0])
            cond = (1 + r) * (2 * r * max(tIn, tOut) - L) / r / ((1 - abs(x)) * amin * amin)
            tol += cond / 10 ** 15
        out.append("Goal Rabs (%s (%s e3 s1) %s - %s) <= %s.\nProof. ev. Qed."
                   % (comp, f, R(x), R(q), R(tol)))
    return "\n".join(out) + "\n"


def eval_file_g1(L, T, rows):
    R = pyrx.rlit
    out = [EVAL_HDR, "Definition s1 := mk_g_st %s %s." % (R(L), R(T)),
           """Ltac ev :=
  unfold comp1, comp2, comp3, g_decompactify, g_compactificationDerivatives, g_compactify, s1;
  cbv zeta; fields; unfold atanh_R; rewrite ?tanh_exp; interval with (i_prec 90)."""]
    for kind, x, y in rows:
        comp = "comp" + kind[-1]
        f = {"dec": "g_decompactify", "jac": "g_compactificationDerivatives",
             "com": "g_compactify"}[kind[:3]]
        q = Fraction(y)
        tol = abs(q) / 10 ** 9 + (L + T) / 10 ** 12
        out.append("Goal Rabs (%s (%s e1 s1) %s - %s) <= %s.\nProof. ev. Qed."
                   % (comp, f, R(x), R(q), R(tol)))
    return "\n".join(out) + "\n"


def finite_rows(ctx, once, case, rows):
    """a non-finite value inside the open domain is itself a failing input"""
    good = []
    for kind, x, y in rows:
        if math.isfinite(y):
            good.append((kind, x, y))
        else:
            once(ctx, "%s component %s at %s is %r" % (
                {"dec": "decompactify", "jac": "compactificationDerivatives",
                 "com": "compactify"}[kind[:3]], kind[-1], x, y),
                dict(kind="value", case=case, fn=kind, x=str(x)), "nonfinite-value:" + kind)
    return good


def impl_rows(g, xs_pos, xs_rz, xs_rp, with_com=True, com_pos=False):
    """implementation values at scalar points (the three directions separately)"""
    rows = []
    z0 = np.array(0.0)
    for x in xs_pos:
        rows.append(("dec1", x, float(g.decompactify(np.array(float(x)), z0, z0)[0])))
        rows.append(("jac1", x, float(g.compactificationDerivatives(
            np.array(float(x)), z0, z0)[0])))
    for x in xs_rz:
        rows.append(("dec2", x, float(g.decompactify(z0, np.array(float(x)), z0)[1])))
        rows.append(("jac2", x, float(g.compactificationDerivatives(
            z0, np.array(float(x)), z0)[1])))
    for x in xs_rp:
        rows.append(("dec3", x, float(g.decompactify(z0, z0, np.array(float(x)))[2])))
        rows.append(("jac3", x, float(g.compactificationDerivatives(
            z0, z0, np.array(float(x)))[2])))
    if with_com:
        T = Fraction(float(g.momentumFalloffT))
        for k in (Fraction(-3, 2), Fraction(1, 4), Fraction(5)):
            v = k * T
            rows.append(("com2", v, float(g.compactify(z0, np.array(float(v)), z0)[1])))
            rows.append(("com3", abs(v), float(g.compactify(z0, z0,
                                                            np.array(float(abs(v))))[2])))
    if com_pos:
        Lf = Fraction(float(g.positionFalloff))
        for k in (Fraction(-7, 2), Fraction(1, 8), Fraction(3)):
            v = k * Lf
            rows.append(("com1", v, float(g.compactify(np.array(float(v)), z0, z0)[0])))
    return rows


def rand_compact(rng, n):
    pts = [Fraction(0), Fraction(-127, 128), Fraction(255, 256)]
    while len(pts) < n + 3:
        pts.append(Fraction(rng.randint(-1000, 1000), 1024))
    rng.shuffle(pts)
    return pts[:n]


# ---------------------------------------------------------------------------------------
# the property evaluated directly on the implementation

def fd5(f, x, h):
    return (-f(x + 2 * h) + 8 * f(x + h) - 8 * f(x - h) + f(x - 2 * h)) / (12 * h)


class Once:
    """report each failure class (key) once per run, with the first input that shows it;
    further inputs of the same class are only counted"""

    def __init__(self):
        self.seen = {}

    def __call__(self, ctx, what, rep, key):
        self.seen[key] = self.seen.get(key, 0) + 1
        if self.seen[key] > 1:
            return
        ctx.fail_input(what, rep, key=key)

    def summary(self, ctx):
        for k, n in self.seen.items():
            if n > 1:
                ctx.log("failure class %s: %d failing inputs in this run (first one "
                        "reported)" % (k, n))


def check_maps(ctx, once, g, case, label, three):
    """maps / Jacobians / monotonicity / centre of one grid object"""
    px = "g3-" if three else "simple-"
    z0 = np.zeros(1)
    chi = np.concatenate([np.linspace(-0.999, 0.999, 201), np.asarray(g.chiValues),
                          -1 + np.logspace(-8, -3, 6), 1 - np.logspace(-8, -3, 6)])
    chi = np.unique(chi)
    chi = chi[np.concatenate([[True], np.diff(chi) > 1e-9])]
    zero = np.zeros_like(chi)
    zf = lambda x: g.decompactify(x, np.zeros_like(x), np.zeros_like(x))[0]
    z = zf(chi)
    J = g.compactificationDerivatives(chi, zero, zero)[0]
    scale = abs(float(getattr(g, "wallThickness", g.positionFalloff)))
    if three:
        scale += abs(g.tailLengthInside) + abs(g.tailLengthOutside) + abs(g.wallCenter)
    ctx.count("direct_maps_" + label, case)
    if not np.all(np.isfinite(z)) or not np.all(np.isfinite(J)):
        k = int(np.argmin(np.isfinite(z) & np.isfinite(J)))
        once(ctx, "%s: non-finite map/Jacobian at chi=%r" % (label, chi[k]),
                       dict(kind="maps", three=three, case=case, chi=float(chi[k])),
                       px + "nonfinite")
        return
    d = np.diff(z)
    if not np.all(d > 0):
        k = int(np.argmin(d))
        once(ctx, "%s: position map not increasing between chi=%r and %r (%r -> %r)"
                       % (label, chi[k], chi[k + 1], z[k], z[k + 1]),
                       dict(kind="maps", three=three, case=case, chi=float(chi[k]),
                            chi2=float(chi[k + 1])), px + "not-increasing")
    if not np.all(J > 0):
        k = int(np.argmin(J))
        once(ctx, "%s: Jacobian %r <= 0 at chi=%r" % (label, J[k], chi[k]),
                       dict(kind="maps", three=three, case=case, chi=float(chi[k])),
                       px + "jacobian-nonpositive")
    # Jacobian vs finite differences of the map (step relative to the distance to the ends)
    # (the implementation's own rounding noise grows like eps/((1-|chi|) a^2) near the ends, so
    # the comparison stays inside |chi| <= 0.99 with steps 2% of the distance to the end and of
    # the width a of the smoothed steps at chi = +-r)
    inner = chi[np.abs(chi) <= 0.99]
    amin = min(float(g.aIn), float(g.aOut), 1.0) if three else 1.0   # width of the smoothed steps
    h = 2e-2 * np.minimum(1 - np.abs(inner), amin)
    fd = fd5(zf, inner, h)
    Ji = g.compactificationDerivatives(inner, np.zeros_like(inner), np.zeros_like(inner))[0]
    rel = np.abs(fd - Ji) / np.abs(Ji)
    k = int(np.argmax(rel))
    ctx.count("direct_fd_" + label)
    if rel[k] > 1e-4:
        once(ctx, "%s: d(xi)/d(chi) by finite differences = %r but reported Jacobian "
                       "= %r at chi=%r" % (label, fd[k], Ji[k], inner[k]),
                       dict(kind="maps", three=three, case=case, chi=float(inner[k]),
                            fd=float(fd[k]), jac=float(Ji[k])), px + "jacobian-mismatch")
    # centre and slope at the centre
    zc = float(g.decompactify(np.array(0.0), np.array(0.0), np.array(0.0))[0])
    want = float(g.wallCenter) if three else 0.0
    if abs(zc - want) > 1e-12 * scale:
        once(ctx, "%s: chi=0 maps to %r, wall centre is %r" % (label, zc, want),
                       dict(kind="maps", three=three, case=case, chi=0.0), px + "centre")
    if three:
        j0 = float(g.compactificationDerivatives(np.array(0.0), np.array(0.0),
                                                 np.array(0.0))[0])
        w = g.wallThickness / g.ratioPointsWall
        if abs(j0 - w) > 1e-9 * w:
            once(ctx, "%s: slope at the centre %r, L/r = %r" % (label, j0, w),
                           dict(kind="maps", three=three, case=case, chi=0.0),
                           "g3-slope-centre")
    # momentum directions: monotone, Jacobian vs finite differences, inverse both ways
    rz = np.unique(np.concatenate([np.linspace(-0.999, 0.999, 101), np.asarray(g.rzValues)]))
    rp = np.unique(np.concatenate([np.linspace(-1.0, 0.999, 101), np.asarray(g.rpValues)]))
    rz = rz[np.concatenate([[True], np.diff(rz) > 1e-9])]
    rp = rp[np.concatenate([[True], np.diff(rp) > 1e-9])]
    for name, xs, idx in (("pz", rz, 1), ("pp", rp, 2)):
        def f(x, idx=idx):
            a = [np.zeros_like(x)] * 3
            a[idx] = x
            return g.decompactify(*a)[idx]

        def fj(x, idx=idx):
            a = [np.zeros_like(x)] * 3
            a[idx] = x
            return g.compactificationDerivatives(*a)[idx]

        def fc(x, idx=idx):
            a = [np.zeros_like(x)] * 3
            a[idx] = x
            return g.compactify(*a)[idx]
        v = f(xs)
        if not np.all(np.diff(v) > 0):
            once(ctx, "%s: %s map not increasing" % (label, name),
                           dict(kind="maps", three=three, case=case, direction=name),
                           px + name + "-not-increasing")
        xi = xs[(xs > -0.99) & (xs < 0.99)]
        hh = 2e-2 * (1 - np.abs(xi))
        relm = np.abs(fd5(f, xi, hh) - fj(xi)) / np.abs(fj(xi))
        if relm.max() > 1e-4:
            k = int(np.argmax(relm))
            once(ctx, "%s: %s Jacobian differs from finite differences at %r"
                           % (label, name, xi[k]),
                           dict(kind="maps", three=three, case=case, direction=name,
                                x=float(xi[k])), px + name + "-jacobian-mismatch")
        back = fc(v)
        if np.max(np.abs(back - xs)) > 1e-9:
            k = int(np.argmax(np.abs(back - xs)))
            once(ctx, "%s: compactify(decompactify(%r)) = %r in direction %s"
                           % (label, xs[k], back[k], name),
                           dict(kind="maps", three=three, case=case, direction=name,
                                x=float(xs[k])), px + name + "-inverse")
    if name == "pp":
        if abs(float(f(np.array(-1.0)))) > 1e-12 * abs(g.momentumFalloffT):
            once(ctx, "%s: rho_par=-1 does not map to p_par=0" % label,
                           dict(kind="maps", three=three, case=case), px + "pp-origin")
    # cached arrays are the maps of the compact arrays
    xi_, pz_, pp_ = g.decompactify(g.chiValues, g.rzValues, g.rpValues)
    d1, d2, d3 = g.compactificationDerivatives(g.chiValues, g.rzValues, g.rpValues)
    for nm, val in (("xiValues", xi_), ("pzValues", pz_), ("ppValues", pp_),
                    ("dxidchi", d1), ("dpzdrz", d2), ("dppdrp", d3)):
        if not np.allclose(getattr(g, nm), val, rtol=1e-12, atol=1e-13 * scale):
            once(ctx, "%s: cached %s differs from the map of the compact grid"
                           % (label, nm), dict(kind="maps", three=three, case=case, attr=nm),
                           "cache-stale:" + nm)
    # position round trip
    inner = chi[np.abs(chi) < 0.999]
    back = g.compactify(zf(inner), np.zeros_like(inner), np.zeros_like(inner))[0]
    err = np.abs(back - inner)
    return float(err.max()), float(inner[int(np.argmax(err))])


def snapshot(g, three):
    d = {}
    for a in ARR:
        d[a] = np.array(getattr(g, a), dtype=float)
    for a in (SC3 if three else SC1):
        d[a] = float(getattr(g, a))
    xi, pz, pp = g.getCoordinates()
    d["getCoordinates"] = np.concatenate([xi, pz, pp])
    xi, pz, pp = g.getCoordinates(endpoints=True)
    d["getCoordinates(endpoints)"] = np.concatenate([xi, pz, pp])
    a, b, c = g.getCompactificationDerivatives()
    d["getCompactificationDerivatives"] = np.concatenate([a, b, c])
    a, b, c = g.getCompactCoordinates()
    d["getCompactCoordinates"] = np.concatenate([a, b, c])
    return d


def fresh(g, three):
    if three:
        from WallGo.grid3Scales import Grid3Scales
        return Grid3Scales(g.M, g.N, g.tailLengthInside, g.tailLengthOutside, g.wallThickness,
                           g.momentumFalloffT, g.ratioPointsWall, g.smoothing, g.wallCenter,
                           g.spacing)
    from WallGo.grid import Grid
    return Grid(g.M, g.N, g.positionFalloff, g.momentumFalloffT, g.spacing)


def diff_snap(a, b):
    """names of attributes/observables that differ (inf == inf)"""
    bad = []
    for k in a:
        x, y = np.asarray(a[k]), np.asarray(b[k])
        if x.shape != y.shape:
            bad.append(k)
            continue
        fin = np.isfinite(x) & np.isfinite(y)
        if not np.array_equal(np.isfinite(x), np.isfinite(y)) or \
                not np.array_equal(x[~fin], y[~fin]):
            bad.append(k)
            continue
        sc = np.max(np.abs(y[fin])) if fin.any() else 0.0
        if np.any(np.abs(x[fin] - y[fin]) > 1e-12 * (np.abs(y[fin]) + sc)):
            bad.append(k)
    return bad


def apply_ops(init, ops, three, M=8, N=5, spacing="Spectral"):
    g = mk_g3(init, M, N, spacing) if three else mk_g1(init[0], init[1], M, N, spacing)
    for o in ops:
        if o[0] == "pos":
            g.changePositionFalloffScale(*[float(x) for x in o[1:]])
        else:
            g.changeMomentumFalloffScale(float(o[1]))
    return g


def rand_ops(rng, init, three, n):
    """random rescaling calls; position calls include centre-only changes, exact repeats
    and scale changes (always admissible)"""
    ops = []
    cur = list(init)
    for _ in range(n):
        u = rng.random()
        if u < 0.3:
            T = dy(rng, 8, 31, -6, 3)
            ops.append(("mom", T))
        elif not three:
            ops.append(("pos", dy(rng, 16, 31, -11, 3)))
        else:
            tIn, tOut, L, T, r, sm, c = cur
            v = rng.random()
            if v < 0.3:      # the wall drifts at fixed scales
                c = c + L * dy(rng, 1, 15, -4, 1) * rng.choice([1, -1])
            elif v < 0.4:    # exact repeat
                pass
            else:
                p = rand_g3(rng)
                # keep r, sm of the object: rescale the new tails to stay admissible
                L = p[2]
                lo = L * (Fraction(1, 2) + sm) / r
                tIn = lo * (1 + dy(rng, 1, 15, -6, 2))
                tOut = tIn if rng.random() < 0.3 else lo * (1 + dy(rng, 1, 15, -6, 2))
                tIn, tOut, L = (Fraction(float(x)) for x in (tIn, tOut, L))
                if not (tIn > lo and tOut > lo):
                    continue
                c = p[6] if rng.random() < 0.7 else c
            cur = [tIn, tOut, L, T, r, sm, c]
            ops.append(("pos", tIn, tOut, L, c))
    return ops


def jops(ops):
    return [[o[0]] + [str(Fraction(x)) for x in o[1:]] for o in ops]


def check_ops(ctx, once, rng, three, nseq, nops):
    for _ in range(nseq):
        M, N = rng.choice([(6, 5), (8, 5), (11, 7), (20, 11)])
        spacing = rng.choice(["Spectral", "Spectral", "Uniform"])
        init = rand_g3(rng) if three else [dy(rng, 16, 31, -11, 3), dy(rng, 8, 31, -6, 3)]
        ops = rand_ops(rng, init, three, nops)
        case = dict(three=three, M=M, N=N, spacing=spacing, init=jp(init), ops=jops(ops))
        ctx.count("ops_three" if three else "ops_simple", case,
                  bucket="len%d" % len(ops))
        try:
            res = ops_mismatch_ignoring(jp(init), jops(ops), three, M, N, spacing)
        except Exception as ex:   # noqa: BLE001
            once(ctx, "rescaling sequence raised %r" % ex,
                           dict(kind="ops", **case), "rescale-raises")
            continue
        if res is None:
            continue
        k, bad = res
        ops = ops[:k]
        # shrink: drop earlier calls while the same observable still differs
        changed = True
        while changed and len(ops) > 1:
            changed = False
            for i in range(len(ops) - 1):
                trial = ops[:i] + ops[i + 1:]
                r2 = ops_mismatch_ignoring(init, jops(trial), three, M, N, spacing)
                if r2 is not None and r2[0] == len(trial) and set(r2[1]) & set(bad):
                    ops, changed = trial, True
                    break
        once(ctx, 
            "after %d rescaling call(s) %s differ(s) from a freshly constructed grid "
            "(three-scale=%s, ops=%s)" % (len(ops), bad, three, jops(ops)),
            dict(kind="ops", three=three, M=M, N=N, spacing=spacing, init=jp(init),
                 ops=jops(ops), differs=bad), "rescale-vs-new:" + bad[0])


def ops_mismatch_ignoring(init, jo, three, M, N, spacing, ignore=("positionFalloff",)):
    init = [Fraction(x) for x in init]
    ops = [tuple([o[0]] + [Fraction(x) for x in o[1:]]) for o in jo]
    g = mk_g3(init, M, N, spacing) if three else mk_g1(init[0], init[1], M, N, spacing)
    for k, o in enumerate(ops):
        if o[0] == "pos":
            g.changePositionFalloffScale(*[float(x) for x in o[1:]])
        else:
            g.changeMomentumFalloffScale(float(o[1]))
        bad = [b for b in diff_snap(snapshot(g, three), snapshot(fresh(g, three), three))
               if not (three and b in ignore)]
        if bad:
            return k + 1, bad
    return None


# the witnesses of the *_refuted theorems of Props/C17.v, replayed on the implementation
W_COMPACTIFY = dict(params=["2", "2", "1", "1", "1/2", "1/4", "0"], chi=0.4)
W_STALE = dict(init=["5", "5", "1", "1", "1/2", "1/10", "0"],
               ops=[["pos", "5", "5", "2", "0"]])
W_SMOOTH = dict(params=["13/2", "60", "1", "1", "1/2", "5/2", "0"], chi=-0.5)


def replay_witnesses(ctx, once):
    g = mk_g3([Fraction(x) for x in W_COMPACTIFY["params"]])
    chi = W_COMPACTIFY["chi"]
    z = g.decompactify(np.array(chi), np.array(0.0), np.array(0.0))[0]
    back = float(g.compactify(z, 0.0, 0.0)[0])
    ctx.log("witness g3_compactify_refuted on the implementation: compactify(decompactify("
            "%r)) = %r" % (chi, back))
    ctx.count("witness_replay")
    if abs(back - chi) > 1e-9:
        once(ctx, "Grid3Scales.compactify (inherited from Grid) is not the inverse of "
             "Grid3Scales.decompactify: compactify(decompactify(%r)) = %r for tails 2, "
             "thickness 1, ratio 1/2, smoothing 1/4" % (chi, back),
             dict(kind="compactify", **W_COMPACTIFY), "g3-compactify-not-inverse")
    else:
        ctx.broken.append("witness: g3_compactify_refuted does not reproduce on the "
                          "implementation (model and code disagree)")
    init = [Fraction(x) for x in W_STALE["init"]]
    g = apply_ops(init, [("pos", 5, 5, 2, 0)], True)
    f = fresh(g, True)
    ctx.log("witness g3_positionFalloff_stale_refuted on the implementation: "
            "positionFalloff %r, fresh grid %r" % (g.positionFalloff, f.positionFalloff))
    ctx.count("witness_replay")
    if g.positionFalloff != f.positionFalloff:
        once(ctx, "Grid3Scales.changePositionFalloffScale leaves positionFalloff stale: %r "
             "after rescaling to thickness 2, a new grid has %r (the inherited compactify "
             "uses it)" % (g.positionFalloff, f.positionFalloff),
             dict(kind="stale", **W_STALE), "g3-positionFalloff-stale")
    else:
        ctx.broken.append("witness: g3_positionFalloff_stale_refuted does not reproduce on "
                          "the implementation (model and code disagree)")
    try:
        g = mk_g3([Fraction(x) for x in W_SMOOTH["params"]])
        j = float(g.compactificationDerivatives(np.array(W_SMOOTH["chi"]), 0.0, 0.0)[0])
        ctx.log("witness g3_monotone_large_smoothing_refuted (smoothing 5/2 > 1, outside the "
                "documented domain; informational): Jacobian(%r) = %r" % (W_SMOOTH["chi"], j))
        if not j < 0:
            ctx.broken.append("witness: g3_monotone_large_smoothing_refuted does not "
                              "reproduce on the implementation")
    except AssertionError as ex:
        ctx.log("large-smoothing witness now rejected by the constructor:", ex)


def certified_stage(ctx, once, rng):
    """model vs implementation: certified interval evaluation (tie X)"""
    files = []
    nsets = ctx.n(8, 32)
    npts = ctx.n(3, 6)
    for m in range(nsets):
        p = rand_g3(rng, equal=(m % 4 == 0), near_bound=(m % 3 == 1))
        g = mk_g3(p)
        rows = impl_rows(g, rand_compact(rng, npts), rand_compact(rng, 2),
                         [Fraction(-1), Fraction(rng.randint(-1000, 1000), 1024)],
                         with_com=(m % 2 == 0))
        rows = finite_rows(ctx, once, dict(three=True, params=jp(p)), rows)
        files.append((dict(three=True, params=jp(p)), rows,
                      ctx.write("Cases/Eval3_%d.v" % m, eval_file_g3(p, rows))))
        if m == 0:
            ctx.sample(dict(params=jp(p), rows=[(k, str(x), y) for k, x, y in rows[:4]]))
    for m in range(ctx.n(2, 8)):
        L, T = dy(rng, 16, 31, -11, 3), dy(rng, 8, 31, -6, 3)
        g = mk_g1(L, T)
        rows = impl_rows(g, rand_compact(rng, npts), rand_compact(rng, 2),
                         [Fraction(-1), Fraction(rng.randint(-1000, 1000), 1024)],
                         with_com=True, com_pos=True)
        rows = finite_rows(ctx, once, dict(three=False, L=str(L), T=str(T)), rows)
        files.append((dict(three=False, L=str(L), T=str(T)), rows,
                      ctx.write("Cases/Eval1_%d.v" % m, eval_file_g1(L, T, rows))))
    procs = []
    done = []
    for case, rows, path in files:
        procs.append((case, rows, path, subprocess.Popen(
            ["timeout", "900", "coqc"] + ctx.coq_args() + [path], cwd=ctx.bdir,
            stdout=subprocess.PIPE, stderr=subprocess.PIPE, text=True)))
        if len(procs) >= 14:
            done += [(c, r, p, pr, pr.communicate()) for c, r, p, pr in procs]
            procs = []
    done += [(c, r, p, pr, pr.communicate()) for c, r, p, pr in procs]
    for case, rows, path, pr, (out, err) in done:
        for _ in rows:
            ctx.count("certified_eval", None)
        ctx.count("certified_eval_file", case,
                  bucket="three" if case["three"] else "simple")
        if pr.returncode != 0:
            import re
            mm = None
            for mm in re.finditer(r'line (\d+), characters [\d-]+:\s*\n\s*Error', err):
                break
            which = None
            if mm:
                ln = int(mm.group(1))
                txt = open(path).read().splitlines()
                goals = [i for i, l in enumerate(txt, 1) if l.startswith("Goal ")]
                idx = max([k for k, i in enumerate(goals) if i <= ln], default=None)
                if idx is not None and idx < len(rows):
                    which = rows[idx]
            ctx.broken.append("correspondence: certified evaluation %s" %
                              path.split("/")[-1])
            ctx.log("certified evaluation failed for", json.dumps(case), "row",
                    which and (which[0], str(which[1]), which[2]), vlib.tail(err, 4))



# ---------------------------------------------------------------------------------------

def run(ctx):
    src1 = vlib.read_src("grid.py")
    src3 = vlib.read_src("grid3Scales.py")
    gen_ok = True
    try:
        text, info = gen_grid.generate(src1, src3)
        ctx.write("GridGen.v", text, sources=dict(
            files=["src/WallGo/grid.py", "src/WallGo/grid3Scales.py"],
            sha=[vlib.sha(src1), vlib.sha(src3)], info=info))
    except pyrx.TranslateError as e:
        ctx.log("translator failed:", e)
        ctx.broken.append("translator: %s" % e)
        gen_ok = False
    proved = gen_ok and ctx.prove(extra=["GridGen.v"], timeout=600)
    ctx.trusted += ["tools/pyrx.py + tools/gen_grid.py (AST translator, fail-closed)",
                    "Lib/GridMapsCache.v: meaning of attribute stores and of calling a "
                    "separable point function on the three compact arrays (component-wise "
                    "map)",
                    "Interval tactic (certified evaluation; Bignums integers)"]
    rng = ctx.rng
    once = Once()

    # --- (3) model vs implementation: certified interval evaluation ---------------------
    if gen_ok:
        try:
            certified_stage(ctx, once, rng)
        except Exception as ex:   # noqa: BLE001
            import traceback
            ctx.log("certified evaluation stage raised", traceback.format_exc())
            ctx.broken.append("harness: certified evaluation stage raised %r" % ex)

    # --- (4) the property on the implementation -----------------------------------------
    replay_witnesses(ctx, once)
    worst_rt = 0.0
    for m in range(ctx.n(150, 1500)):
        p = rand_g3(rng, dyadic=(m % 2 == 0))
        M, N = rng.choice([(6, 5), (8, 5), (11, 7), (20, 11), (40, 11)])
        spacing = rng.choice(["Spectral", "Spectral", "Uniform"])
        case = dict(params=jp(p), M=M, N=N, spacing=spacing)
        try:
            g = mk_g3(p, M, N, spacing)
            rt = check_maps(ctx, once, g, case, "three-scale", True)
        except Exception as ex:   # noqa: BLE001
            once(ctx, "Grid3Scales raised %r" % ex, dict(kind="maps", three=True,
                                                            case=case), "g3-raises")
            continue
        ctx.count("g3_grid", case, bucket="%s|tails %s|L~1e%d" % (
            spacing, "equal" if p[0] == p[1] else "unequal",
            int(math.floor(math.log10(float(p[2]))))))
        if rt is not None:
            worst_rt = max(worst_rt, rt[0])
    ctx.log("three-scale: max |compactify(decompactify(chi)) - chi| over the sweep = %.3g "
            "(known finding g3-compactify-not-inverse)" % worst_rt)
    for m in range(ctx.n(40, 300)):
        L = dy(rng, 16, 31, -11, 3) if m % 2 == 0 else Fraction(10 ** rng.uniform(-2, 2))
        T = dy(rng, 8, 31, -6, 3)
        M, N = rng.choice([(6, 5), (8, 5), (11, 7), (20, 11)])
        spacing = rng.choice(["Spectral", "Uniform"])
        case = dict(L=str(L), T=str(T), M=M, N=N, spacing=spacing)
        try:
            g = mk_g1(L, T, M, N, spacing)
            rt = check_maps(ctx, once, g, case, "simple", False)
        except Exception as ex:   # noqa: BLE001
            once(ctx, "Grid raised %r" % ex, dict(kind="maps", three=False, case=case),
                           "simple-raises")
            continue
        ctx.count("simple_grid", case, bucket=spacing)
        if rt is not None and rt[0] > 1e-9:
            once(ctx, "Grid: compactify(decompactify(%r)) is off by %.3g" % (rt[1], rt[0]),
                           dict(kind="maps", three=False, case=case, chi=rt[1]),
                           "simple-inverse")
    check_ops(ctx, once, rng, True, ctx.n(80, 800), ctx.n(5, 8))
    check_ops(ctx, once, rng, False, ctx.n(30, 200), ctx.n(5, 8))
    once.summary(ctx)

    ctx.cov["rule"] = (
        "three-scale grids: thickness dyadic m*2^e over 0.008..250 (bucketed by decade), "
        "ratio k/16, smoothing in {1/32..1}, tails = bound*(1+d) or the EOM._updateGrid "
        "value L(0.5+1.05 sm)/r, equal and unequal, centre 0/+-; both spacings, M up to 40; "
        "each grid probed at ~220 compact points incl. its own nodes and points 1e-8 from "
        "the ends; op sequences of 5-8 calls mixing scale changes, centre-only changes, "
        "exact repeats and momentum rescalings, compared attribute by attribute with a "
        "fresh grid after every call; distinct = distinct parameter tuple / op list")
    ctx.assumptions += [
        "no hypotheses about external numerics: the property is closed-form",
        "smoothing <= 1 for positivity/monotonicity of the three-scale map (documented "
        "domain; g3_monotone_large_smoothing_refuted shows it is needed)",
        "numpy applies the translated point functions element-wise (separability is proved, "
        "the broadcasting itself is validated by the cached-array checks)"]


def replay(rep):
    print(json.dumps(rep, indent=1))
    kind = rep.get("kind")
    if kind == "compactify":
        g = mk_g3([Fraction(x) for x in rep["params"]])
        z = g.decompactify(np.array(rep["chi"]), np.array(0.0), np.array(0.0))[0]
        print("decompactify(%r) = %r ; compactify(.) = %r" % (
            rep["chi"], float(z), float(g.compactify(z, 0.0, 0.0)[0])))
    elif kind in ("stale", "ops"):
        three = rep.get("three", True)
        init = [Fraction(x) for x in rep["init"]]
        ops = [tuple([o[0]] + [Fraction(x) for x in o[1:]]) for o in rep["ops"]]
        g = apply_ops(init, ops, three, rep.get("M", 8), rep.get("N", 5),
                      rep.get("spacing", "Spectral"))
        f = fresh(g, three)
        a, b = snapshot(g, three), snapshot(f, three)
        for k in diff_snap(a, b):
            print("differs:", k, "\n  rescaled:", a[k], "\n  fresh:   ", b[k])
    elif kind == "value":
        c = rep["case"]
        g = mk_g3([Fraction(x) for x in c["params"]]) if c.get("three") else \
            mk_g1(Fraction(c["L"]), Fraction(c["T"]))
        x = float(Fraction(rep["x"]))
        a = [np.array(0.0)] * 3
        a[int(rep["fn"][-1]) - 1] = np.array(x)
        f = {"dec": g.decompactify, "jac": g.compactificationDerivatives,
             "com": g.compactify}[rep["fn"][:3]]
        print("%s(%r) component %s = %r" % (f.__name__, x, rep["fn"][-1],
                                             f(*a)[int(rep["fn"][-1]) - 1]))
    elif kind == "maps":
        c = rep["case"]
        if rep.get("three"):
            g = mk_g3([Fraction(x) for x in c["params"]], c["M"], c["N"], c["spacing"])
        else:
            g = mk_g1(Fraction(c["L"]), Fraction(c["T"]), c["M"], c["N"], c["spacing"])
        x = rep.get("chi", rep.get("x", 0.0))
        zf = lambda t: g.decompactify(t, np.zeros_like(t), np.zeros_like(t))[0]
        xa = np.array([x])
        print("chi=%r map=%r jacobian=%r finite-difference=%r" % (
            x, float(zf(xa)[0]),
            float(g.compactificationDerivatives(xa, 0 * xa, 0 * xa)[0][0]),
            float(fd5(zf, xa, 2e-2 * min(1 - abs(x), float(getattr(g, "aIn", 1.0)),
                                         float(getattr(g, "aOut", 1.0))))[0])
            if abs(x) < 1 else None))
    return 0
