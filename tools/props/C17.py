"""C17 -- grid coordinate maps: monotone bijections, Jacobians, centre, rescaling == new grid."""
import json
import os
import math
import subprocess
from fractions import Fraction

import numpy as np

import gen_grid
import pyrx
import vlib

EXPLANATION = (
    "Grid and Grid3Scales are regenerated from grid.py / grid3Scales.py on every run (Python "
    "method resolution; module level and unknown mutating methods fail closed): the point "
    "functions, term1..5/totalMapping, _updateParameters (total version, its assertions as a "
    "Prop, and a version WITH the assertions in program order returning (state, completed?)), "
    "the cache-managing methods (total and with error exits) and the three getters. Facts "
    "about the rest of the package are extracted too: nobody outside the two files writes to a "
    "grid object, and the argument expressions with which EOM._updateGrid and "
    "WallGoManager.buildGrid call the grid. Coq proves for ALL parameters: simple maps are "
    "mutually inverse bijections with the reported Jacobians as derivatives, increasing; "
    "three-scale map: per-term derivatives, Jacobian = derivative on (-1,1), chi=0 -> "
    "wallCenter, slope(0)=L/r, Jacobian >= (1-sm)(L/r)/(1-chi^2) > 0 hence increasing and "
    "unbounded towards both ends (onto R); _updateParameters completes iff its precondition "
    "holds and a rejected call leaves the object untouched; after ANY history of accepted and "
    "rejected rescaling calls the object equals a new grid (except positionFalloff) and its "
    "getters are the maps of its node getter; the callers pass admissible arguments. Known "
    "findings: inherited compactify, stale positionFalloff. Model vs code by certified "
    "interval evaluation (also getter outputs of production-size grids at their own nodes); "
    "the property is evaluated on the implementation: maps/Jacobians/monotonicity, nodes of "
    "both spacings, getters vs maps, grids made by executing buildGrid/_updateGrid, and "
    "histories on one object (scale changes, drifts, repeats, rejected calls, EOM updates, "
    "re-init, copies; float/int/numpy-scalar arguments, constructor defaults).")

ARR = ["chiValues", "rzValues", "rpValues", "xiValues", "pzValues", "ppValues",
       "dxidchi", "dpzdrz", "dppdrp"]
SC3 = ["tailLengthInside", "tailLengthOutside", "wallThickness", "ratioPointsWall",
       "smoothing", "wallCenter", "aIn", "aOut", "momentumFalloffT", "positionFalloff"]
SC1 = ["positionFalloff", "momentumFalloffT"]


# ---------------------------------------------------------------------------------------
# inputs

def dy(rng, mlo, mhi, elo, ehi):
    """dyadic rational m * 2^e (exactly a float)"""
    return Fraction(rng.randint(mlo, mhi)) * Fraction(2) ** rng.randint(elo, ehi)


def rand_g3(rng, equal=None, dyadic=True, near_bound=None):
    """(tIn, tOut, L, T, r, sm, c) admissible, thickness over four decades"""
    if near_bound is None:
        near_bound = rng.random() < 0.3
    if near_bound:
        # tails at the bound: whatever WallGoManager.buildGrid / EOM._updateGrid really produce
        return executed_params(rng)[0]
    L = dy(rng, 16, 31, -11, 3)                       # 0.0078 .. 248
    r = rng.choice([Fraction(1, 32), Fraction(1, 16), Fraction(15, 16), Fraction(31, 32)]) \
        if rng.random() < 0.15 else Fraction(rng.randint(2, 14), 16)
    sm = rng.choice([Fraction(1, 256), Fraction(1, 64), Fraction(1, 32), Fraction(1, 16),
                     Fraction(float(0.1)), Fraction(1, 8), Fraction(1, 4), Fraction(1, 2),
                     Fraction(3, 4), Fraction(1)])
    lo = L * (Fraction(1, 2) + sm) / r

    def tail():
        return lo * (1 + dy(rng, 1, 15, -6, 2))
    tIn = tail()
    if equal is None:
        equal = rng.random() < 0.35
    tOut = tIn if equal else tail()
    c = rng.choice([Fraction(0), L * dy(rng, 1, 15, -4, 2), -L * dy(rng, 1, 15, -4, 2)])
    T = dy(rng, 8, 31, -6, 3)
    vals = [tIn, tOut, L, T, r, sm, c]
    if dyadic:
        vals = [Fraction(float(v)) for v in vals]        # what the implementation receives
        # rounding must not break admissibility
        lo2 = vals[2] * (Fraction(1, 2) + vals[5]) / vals[4]
        if not (vals[0] > lo2 and vals[1] > lo2):
            return rand_g3(rng, equal, dyadic, near_bound)
    return vals


def executed_params(rng, M=8, N=5):
    """A grid as the two production callers make it: WallGoManager.buildGrid (tails
    max(mfp, ...)/Tn from the configuration) and then, usually, EOM._updateGrid (tails
    max(mfp gamma, ...)).  Their formulas are executed, not copied.  Returns (params, grid)."""
    from types import SimpleNamespace
    from WallGo.containers import WallParams
    from WallGo.equationOfMotion import EOM
    from WallGo.manager import WallGoManager
    r = Fraction(rng.randint(2, 14), 16)
    sm = rng.choice([Fraction(1, 32), Fraction(1, 16), Fraction(float(0.1)), Fraction(1, 8),
                     Fraction(1, 4), Fraction(1, 2), Fraction(1)])
    mgr = WallGoManager.__new__(WallGoManager)
    mgr.config = SimpleNamespace(configGrid=SimpleNamespace(
        momentumGridSize=N, spatialGridSize=M, ratioPointsWall=float(r), smoothing=float(sm)))
    mgr.phasesAtTn = SimpleNamespace(temperature=float(dy(rng, 8, 31, -4, 4)))
    L = float(dy(rng, 16, 31, -7, 3))
    mfp = L * float(dy(rng, 1, 31, -6, 2))      # from well below to well above the bound
    g = mgr.buildGrid(L, mfp, float(dy(rng, 8, 31, -6, 3)))
    if rng.random() < 0.7:
        eom = EOM.__new__(EOM)
        eom.grid, eom.meanFreePathScale, eom.includeOffEq = g, mfp / 7.0, rng.random() < 0.8
        nf = rng.randint(1, 3)
        w = float(g.wallThickness) * float(dy(rng, 8, 24, -4, -4))
        widths = np.array([w * float(dy(rng, 8, 24, -4, -4)) for _ in range(nf)])
        offs = np.array([0.0] + [float(dy(rng, 1, 31, -5, -5)) * rng.choice([1, -1])
                                 for _ in range(nf - 1)])
        eom._updateGrid(WallParams(widths=widths, offsets=offs), rng.randint(5, 95) / 100)
    p = [Fraction(float(x)) for x in (g.tailLengthInside, g.tailLengthOutside, g.wallThickness,
                                      g.momentumFalloffT, g.ratioPointsWall, g.smoothing,
                                      g.wallCenter)]
    return p, g


def mk_g3(p, M=8, N=5, spacing="Spectral"):
    from WallGo.grid3Scales import Grid3Scales
    tIn, tOut, L, T, r, sm, c = (float(x) for x in p)
    return Grid3Scales(M, N, tIn, tOut, L, T, r, sm, c, spacing)


def mk_g1(L, T, M=8, N=5, spacing="Spectral"):
    from WallGo.grid import Grid
    return Grid(M, N, float(L), float(T), spacing)


def jp(p):
    return [str(Fraction(x)) for x in p]


# ---------------------------------------------------------------------------------------
# certified interval evaluation (model vs implementation)

def sqrt_bounds(fr, bits=110):
    n = math.isqrt((fr.numerator << (2 * bits)) // fr.denominator)
    return Fraction(n, 1 << bits), Fraction(n + 1, 1 << bits)


def a_bounds(L, r, sm, t, bits=64):
    N = 4 * sm * L * r * r * (2 * r * t - L * (1 + sm))
    D = abs(2 * r * t - L * (1 + 2 * sm))
    lo, hi = sqrt_bounds(N)
    lo, hi = lo / D, hi / D
    sc = 1 << bits
    return Fraction(math.floor(lo * sc) - 1, sc), Fraction(math.ceil(hi * sc) + 1, sc)


EVAL_HDR = """From Coq Require Import Reals Lra.
From Interval Require Import Tactic.
From WG Require Import Lib.NumpySem Lib.GridMapsCache Lib.GridMaps.
From GenC17 Require Import GridGen.
Local Open Scope R_scope.
Definition e3 := mk_g3_env tt.
Definition e1 := mk_g_env tt.
Ltac fields := cbn [g3_tailLengthInside g3_tailLengthOutside g3_wallThickness g3_ratioPointsWall
  g3_smoothing g3_wallCenter g3_aIn g3_aOut g3_positionFalloff g3_momentumFalloffT
  set_g3_tailLengthInside set_g3_tailLengthOutside set_g3_wallThickness set_g3_ratioPointsWall
  set_g3_smoothing set_g3_wallCenter set_g3_aIn set_g3_aOut set_g3_positionFalloff
  set_g3_momentumFalloffT g_positionFalloff g_momentumFalloffT fst snd].
"""


def eval_file_g3(p, rows):
    """rows: (kind, x, y) with kind in dec1 dec2 dec3 jac1 jac2 jac3 com2 com3"""
    tIn, tOut, L, T, r, sm, c = p
    R = pyrx.rlit
    b1 = a_bounds(L, r, sm, tIn)
    b2 = a_bounds(L, r, sm, tOut)
    out = [EVAL_HDR]
    out.append("Definition s1 := set_g3_momentumFalloffT %s (set_g3_positionFalloff %s "
               "(g3__updateParameters e3 (mk_g3_st 0 0 0 0 0 0 0 0 0 0) %s %s %s %s %s %s))."
               % (R(T), R(L), R(tIn), R(tOut), R(L), R(r), R(sm), R(c)))
    flds = [("tailLengthInside", tIn), ("tailLengthOutside", tOut), ("wallThickness", L),
            ("ratioPointsWall", r), ("smoothing", sm), ("wallCenter", c),
            ("positionFalloff", L), ("momentumFalloffT", T)]
    for k, (nm, v) in enumerate(flds):
        out.append("Lemma F%d : g3_%s s1 = %s.\nProof. reflexivity. Qed." % (k, nm, R(v)))
    for nm, b in (("aIn", b1), ("aOut", b2)):
        out.append("Lemma B_%s : %s <= g3_%s s1 <= %s.\nProof. unfold s1, "
                   "g3__updateParameters; cbv zeta; fields; split; interval with "
                   "(i_prec 100). Qed." % (nm, R(b[0]), nm, R(b[1])))
    out.append("""Ltac ev :=
  unfold comp1, comp2, comp3, g3_decompactify, g3_compactificationDerivatives, g3_compactify,
    g3_totalMapping, g3_term1, g3_term2, g3_term3, g3_term4, g3_term5;
  cbv zeta; cbn [fst snd]; rewrite ?F0, ?F1, ?F2, ?F3, ?F4, ?F5, ?F6, ?F7;
  generalize B_aIn B_aOut; generalize (g3_aIn s1) (g3_aOut s1); intros aI aO HaI HaO;
  unfold atanh_R; rewrite ?tanh_exp;
  interval with (i_prec 90).""")
    for kind, x, y in rows:
        comp = "comp" + kind[-1]
        f = {"dec": "g3_decompactify", "jac": "g3_compactificationDerivatives",
             "com": "g3_compactify"}[kind[:3]]
        q = Fraction(y)
        tol = abs(q) / 10 ** 9 + (tIn + tOut + abs(c) + L + T) / 10 ** 12
        if kind == "dec1":
            # conditioning of the implementation's own float evaluation of the outer arctanh
            # terms: their argument u satisfies u - 1 ~ (1-|x|) a^2, so binary64 rounding of u
            # costs ~ eps * coefficient / ((1-|x|) a^2) in the map
            amin = min(b1[0], b2[0])
            cond = (1 + r) * (2 * r * max(tIn, tOut) - L) / r / ((1 - abs(x)) * amin * amin)
            tol += cond / 10 ** 15
        out.append("Goal Rabs (%s (%s e3 s1) %s - %s) <= %s.\nProof. ev. Qed."
                   % (comp, f, R(x), R(q), R(tol)))
    return "\n".join(out) + "\n"


def eval_file_g1(L, T, rows):
    R = pyrx.rlit
    out = [EVAL_HDR, "Definition s1 := mk_g_st %s %s." % (R(L), R(T)),
           """Ltac ev :=
  unfold comp1, comp2, comp3, g_decompactify, g_compactificationDerivatives, g_compactify, s1;
  cbv zeta; fields; unfold atanh_R; rewrite ?tanh_exp; interval with (i_prec 90)."""]
    for kind, x, y in rows:
        comp = "comp" + kind[-1]
        f = {"dec": "g_decompactify", "jac": "g_compactificationDerivatives",
             "com": "g_compactify"}[kind[:3]]
        q = Fraction(y)
        tol = abs(q) / 10 ** 9 + (L + T) / 10 ** 12
        out.append("Goal Rabs (%s (%s e1 s1) %s - %s) <= %s.\nProof. ev. Qed."
                   % (comp, f, R(x), R(q), R(tol)))
    return "\n".join(out) + "\n"


def finite_rows(ctx, once, case, rows):
    """a non-finite value inside the open domain is itself a failing input"""
    good = []
    for kind, x, y in rows:
        if math.isfinite(y):
            good.append((kind, x, y))
        else:
            once(ctx, "%s component %s at %s is %r" % (
                {"dec": "decompactify", "jac": "compactificationDerivatives",
                 "com": "compactify"}[kind[:3]], kind[-1], x, y),
                dict(kind="value", case=case, fn=kind, x=str(x)), "nonfinite-value:" + kind)
    return good


def impl_rows(g, xs_pos, xs_rz, xs_rp, with_com=True, com_pos=False):
    """implementation values at scalar points (the three directions separately)"""
    rows = []
    z0 = np.array(0.0)
    for x in xs_pos:
        rows.append(("dec1", x, float(g.decompactify(np.array(float(x)), z0, z0)[0])))
        rows.append(("jac1", x, float(g.compactificationDerivatives(
            np.array(float(x)), z0, z0)[0])))
    for x in xs_rz:
        rows.append(("dec2", x, float(g.decompactify(z0, np.array(float(x)), z0)[1])))
        rows.append(("jac2", x, float(g.compactificationDerivatives(
            z0, np.array(float(x)), z0)[1])))
    for x in xs_rp:
        rows.append(("dec3", x, float(g.decompactify(z0, z0, np.array(float(x)))[2])))
        rows.append(("jac3", x, float(g.compactificationDerivatives(
            z0, z0, np.array(float(x)))[2])))
    if with_com:
        T = Fraction(float(g.momentumFalloffT))
        for k in (Fraction(-3, 2), Fraction(1, 4), Fraction(5)):
            v = k * T
            rows.append(("com2", v, float(g.compactify(z0, np.array(float(v)), z0)[1])))
            rows.append(("com3", abs(v), float(g.compactify(z0, z0,
                                                            np.array(float(abs(v))))[2])))
    if com_pos:
        Lf = Fraction(float(g.positionFalloff))
        for k in (Fraction(-7, 2), Fraction(1, 8), Fraction(3)):
            v = k * Lf
            rows.append(("com1", v, float(g.compactify(np.array(float(v)), z0, z0)[0])))
    return rows


def rand_compact(rng, n):
    pts = [Fraction(0), Fraction(-127, 128), Fraction(255, 256)]
    while len(pts) < n + 3:
        pts.append(Fraction(rng.randint(-1000, 1000), 1024))
    rng.shuffle(pts)
    return pts[:n]


# ---------------------------------------------------------------------------------------
# the property evaluated directly on the implementation

def fd5(f, x, h):
    return (-f(x + 2 * h) + 8 * f(x + h) - 8 * f(x - h) + f(x - 2 * h)) / (12 * h)


MARGINS = {}


def margin(name, value):
    """largest observed fraction of a tolerance (recorded in the evidence)"""
    value = float(value)
    if value == value:
        MARGINS[name] = max(MARGINS.get(name, 0.0), value)


class Once:
    """report each failure class (key) once per run, with the first input that shows it;
    further inputs of the same class are only counted"""

    def __init__(self):
        self.seen = {}

    def __call__(self, ctx, what, rep, key):
        self.seen[key] = self.seen.get(key, 0) + 1
        if self.seen[key] > 1:
            return
        ctx.fail_input(what, rep, key=key)

    def summary(self, ctx):
        for k, n in self.seen.items():
            if n > 1:
                ctx.log("failure class %s: %d failing inputs in this run (first one "
                        "reported)" % (k, n))


def check_maps(ctx, once, g, case, label, three):
    """maps / Jacobians / monotonicity / centre of one grid object"""
    px = "g3-" if three else "simple-"
    z0 = np.zeros(1)
    chi = np.concatenate([np.linspace(-0.999, 0.999, 201), np.asarray(g.chiValues),
                          -1 + np.logspace(-8, -3, 6), 1 - np.logspace(-8, -3, 6)])
    chi = np.unique(chi)
    chi = chi[np.concatenate([[True], np.diff(chi) > 1e-9])]
    zero = np.zeros_like(chi)
    zf = lambda x: g.decompactify(x, np.zeros_like(x), np.zeros_like(x))[0]
    z = zf(chi)
    J = g.compactificationDerivatives(chi, zero, zero)[0]
    scale = abs(float(getattr(g, "wallThickness", g.positionFalloff)))
    if three:
        scale += abs(g.tailLengthInside) + abs(g.tailLengthOutside) + abs(g.wallCenter)
    ctx.count("direct_maps_" + label, case)
    if not np.all(np.isfinite(z)) or not np.all(np.isfinite(J)):
        k = int(np.argmin(np.isfinite(z) & np.isfinite(J)))
        once(ctx, "%s: non-finite map/Jacobian at chi=%r" % (label, chi[k]),
                       dict(kind="maps", three=three, case=case, chi=float(chi[k])),
                       px + "nonfinite")
        return
    d = np.diff(z)
    if not np.all(d > 0):
        k = int(np.argmin(d))
        once(ctx, "%s: position map not increasing between chi=%r and %r (%r -> %r)"
                       % (label, chi[k], chi[k + 1], z[k], z[k + 1]),
                       dict(kind="maps", three=three, case=case, chi=float(chi[k]),
                            chi2=float(chi[k + 1])), px + "not-increasing")
    if not np.all(J > 0):
        k = int(np.argmin(J))
        once(ctx, "%s: Jacobian %r <= 0 at chi=%r" % (label, J[k], chi[k]),
                       dict(kind="maps", three=three, case=case, chi=float(chi[k])),
                       px + "jacobian-nonpositive")
    # Jacobian vs finite differences of the map (step relative to the distance to the ends)
    # (the implementation's own rounding noise grows like eps/((1-|chi|) a^2) near the ends, so
    # the comparison stays inside |chi| <= 0.99 with steps 2% of the distance to the end and of
    # the width a of the smoothed steps at chi = +-r)
    inner = chi[np.abs(chi) <= 0.99]
    # local length scale of the map: distance to the ends, and sqrt(a^2 + (chi -+ r)^2) for
    # the two smoothed steps (t / sqrt(a^2 + t^2) varies on that scale at distance t)
    scale_x = 1 - np.abs(inner)
    if three:
        rr_ = float(g.ratioPointsWall)
        scale_x = np.minimum(scale_x, np.sqrt(float(g.aIn) ** 2 + (inner + rr_) ** 2))
        scale_x = np.minimum(scale_x, np.sqrt(float(g.aOut) ** 2 + (inner - rr_) ** 2))
    h = 2e-2 * scale_x
    fd = fd5(zf, inner, h)
    fd2 = fd5(zf, inner, 2 * h)
    Ji = g.compactificationDerivatives(inner, np.zeros_like(inner), np.zeros_like(inner))[0]
    # The binary64 evaluation of the map itself is noisy where a is small (its arctanh
    # arguments come within ~a^2 of +-1: noise ~ eps * tails / a^2, divided by h in the
    # quotient).  The noise is MEASURED: the two step sizes agree to the truncation error
    # (~1e-6 relative) wherever the quotient is reliable, so their difference is added to the
    # allowance; a Jacobian that is not the derivative disagrees with both.
    allow = 1e-4 * np.abs(Ji) + 4 * np.abs(fd - fd2)
    excess = np.abs(fd - Ji) - allow
    margin("fd_position |fd-J|/allow", float(np.max(np.abs(fd - Ji) / allow)))
    k = int(np.argmax(excess))
    ctx.count("direct_fd_" + label)
    reliable = np.abs(fd - fd2) <= 1e-4 * np.abs(Ji)
    if reliable.mean() < 0.5:
        ctx.log("%s: finite differences reliable at only %d%% of the points for %s" % (
            label, int(100 * reliable.mean()), case))
    if excess[k] > 0:
        once(ctx, "%s: d(xi)/d(chi) by finite differences = %r (step %.3g; %r with twice "
                  "the step) but reported Jacobian = %r at chi=%r"
             % (label, fd[k], h[k], fd2[k], Ji[k], inner[k]),
             dict(kind="maps", three=three, case=case, chi=float(inner[k]),
                  fd=float(fd[k]), jac=float(Ji[k])), px + "jacobian-mismatch")
    # centre and slope at the centre
    zc = float(g.decompactify(np.array(0.0), np.array(0.0), np.array(0.0))[0])
    want = float(g.wallCenter) if three else 0.0
    margin("centre abs/(1e-12 scale)", abs(zc - want) / (1e-12 * scale))
    if abs(zc - want) > 1e-12 * scale:
        once(ctx, "%s: chi=0 maps to %r, wall centre is %r" % (label, zc, want),
                       dict(kind="maps", three=three, case=case, chi=0.0), px + "centre")
    if three:
        j0 = float(g.compactificationDerivatives(np.array(0.0), np.array(0.0),
                                                 np.array(0.0))[0])
        w = g.wallThickness / g.ratioPointsWall
        margin("slope_centre rel/1e-9", abs(j0 - w) / (1e-9 * w))
        if abs(j0 - w) > 1e-9 * w:
            once(ctx, "%s: slope at the centre %r, L/r = %r" % (label, j0, w),
                           dict(kind="maps", three=three, case=case, chi=0.0),
                           "g3-slope-centre")
    # momentum directions: monotone, Jacobian vs finite differences, inverse both ways
    rz = np.unique(np.concatenate([np.linspace(-0.999, 0.999, 101), np.asarray(g.rzValues)]))
    rp = np.unique(np.concatenate([np.linspace(-1.0, 0.999, 101), np.asarray(g.rpValues)]))
    rz = rz[np.concatenate([[True], np.diff(rz) > 1e-9])]
    rp = rp[np.concatenate([[True], np.diff(rp) > 1e-9])]
    for name, xs, idx in (("pz", rz, 1), ("pp", rp, 2)):
        def f(x, idx=idx):
            a = [np.zeros_like(x)] * 3
            a[idx] = x
            return g.decompactify(*a)[idx]

        def fj(x, idx=idx):
            a = [np.zeros_like(x)] * 3
            a[idx] = x
            return g.compactificationDerivatives(*a)[idx]

        def fc(x, idx=idx):
            a = [np.zeros_like(x)] * 3
            a[idx] = x
            return g.compactify(*a)[idx]
        v = f(xs)
        if not np.all(np.diff(v) > 0):
            once(ctx, "%s: %s map not increasing" % (label, name),
                           dict(kind="maps", three=three, case=case, direction=name),
                           px + name + "-not-increasing")
        xi = xs[(xs > -0.99) & (xs < 0.99)]
        hh = 2e-2 * (1 - np.abs(xi))
        relm = np.abs(fd5(f, xi, hh) - fj(xi)) / np.abs(fj(xi))
        margin("fd_momentum rel/1e-4", float(relm.max() / 1e-4))
        if relm.max() > 1e-4:
            k = int(np.argmax(relm))
            once(ctx, "%s: %s Jacobian differs from finite differences at %r"
                           % (label, name, xi[k]),
                           dict(kind="maps", three=three, case=case, direction=name,
                                x=float(xi[k])), px + name + "-jacobian-mismatch")
        back = fc(v)
        if np.max(np.abs(back - xs)) > 1e-9:
            k = int(np.argmax(np.abs(back - xs)))
            once(ctx, "%s: compactify(decompactify(%r)) = %r in direction %s"
                           % (label, xs[k], back[k], name),
                           dict(kind="maps", three=three, case=case, direction=name,
                                x=float(xs[k])), px + name + "-inverse")
    if name == "pp":
        if abs(float(f(np.array(-1.0)))) > 1e-12 * abs(g.momentumFalloffT):
            once(ctx, "%s: rho_par=-1 does not map to p_par=0" % label,
                           dict(kind="maps", three=three, case=case), px + "pp-origin")
    # cached arrays are the maps of the compact arrays
    xi_, pz_, pp_ = g.decompactify(g.chiValues, g.rzValues, g.rpValues)
    d1, d2, d3 = g.compactificationDerivatives(g.chiValues, g.rzValues, g.rpValues)
    for nm, val in (("xiValues", xi_), ("pzValues", pz_), ("ppValues", pp_),
                    ("dxidchi", d1), ("dpzdrz", d2), ("dppdrp", d3)):
        if not np.allclose(getattr(g, nm), val, rtol=1e-12, atol=1e-13 * scale):
            once(ctx, "%s: cached %s differs from the map of the compact grid"
                           % (label, nm), dict(kind="maps", three=three, case=case, attr=nm),
                           "cache-stale:" + nm)
    # position round trip
    inner = chi[np.abs(chi) < 0.999]
    back = g.compactify(zf(inner), np.zeros_like(inner), np.zeros_like(inner))[0]
    err = np.abs(back - inner)
    return float(err.max()), float(inner[int(np.argmax(err))])


def _same(a, b, scale):
    """arrays equal (inf == inf), finite entries to 1e-12"""
    a, b = np.asarray(a, dtype=float), np.asarray(b, dtype=float)
    if a.shape != b.shape:
        return False
    fa, fb = np.isfinite(a), np.isfinite(b)
    if not np.array_equal(fa, fb) or not np.array_equal(a[~fa], b[~fb]):
        return False
    return bool(np.all(np.abs(a[fa] - b[fb]) <= 1e-12 * (np.abs(b[fb]) + scale)))


def obj_scale(g, three):
    sc = abs(float(getattr(g, "wallThickness", g.positionFalloff))) + abs(float(g.momentumFalloffT))
    if three:
        sc += abs(float(g.tailLengthInside)) + abs(float(g.tailLengthOutside)) + \
            abs(float(g.wallCenter))
    return sc


def getters_vs_maps(ctx, once, g, case, label, three):
    ctx.count("getters_" + label)
    col = Collect()
    _getters(col, g, three)
    for key, what in col.items:
        once(ctx, "%s: %s" % (label, what), dict(kind="getter", three=three, case=case,
                                                which=key), key)


def _getters(col, g, three):
    """The public getters are the only interface BoltzmannSolver / EOM / Polynomial use: on
    every object (fresh or with a history) getCoordinates and getCompactificationDerivatives
    must be the maps of getCompactCoordinates, for both values of `endpoints` (the ends are
    the limits -inf/+inf of the maps) and for every `direction`."""
    sc = obj_scale(g, three)

    def bad(which, detail):
        col(None, "%s %s" % (which, detail), None, "getter-vs-map:" + which)
    try:
        cc = g.getCompactCoordinates()
        xs = g.getCoordinates()
        js = g.getCompactificationDerivatives()
        cce = g.getCompactCoordinates(endpoints=True)
        xe = g.getCoordinates(endpoints=True)
        je = g.getCompactificationDerivatives(endpoints=True)
    except Exception as ex:   # noqa: BLE001
        bad("getter", "raised %r" % ex)
        return
    if not (len(cc) == len(xs) == len(js) == len(cce) == len(xe) == len(je) == 3):
        bad("getter", "does not return three arrays")
        return
    dec = g.decompactify(*cc)
    jac = g.compactificationDerivatives(*cc)
    attrs = (("chiValues", "rzValues", "rpValues"), ("xiValues", "pzValues", "ppValues"),
             ("dxidchi", "dpzdrz", "dppdrp"))
    for k in range(3):
        if not _same(xs[k], dec[k], sc):
            bad("getCoordinates[%d]" % k, "differs from decompactify(getCompactCoordinates) "
                "by %.3g" % np.max(np.abs(np.asarray(xs[k]) - np.asarray(dec[k]))))
        if not _same(js[k], jac[k], sc):
            bad("getCompactificationDerivatives[%d]" % k,
                "differs from compactificationDerivatives(getCompactCoordinates)")
        for got, nm in ((cc[k], attrs[0][k]), (xs[k], attrs[1][k]), (js[k], attrs[2][k])):
            if not _same(got, getattr(g, nm), sc):
                bad("getter/" + nm, "differs from the attribute %s" % nm)
        # endpoints=True: interior unchanged, ends are the ends of the compact interval and
        # the limits of the maps there
        lo = [] if k == 2 else [-1.0]
        if not _same(cce[k], np.concatenate([lo, cc[k], [1.0]]), sc):
            bad("getCompactCoordinates(endpoints)[%d]" % k, "is not [-1,] nodes [,1]")
        lo = [] if k == 2 else [-np.inf]
        if not _same(xe[k], np.concatenate([lo, xs[k], [np.inf]]), sc):
            bad("getCoordinates(endpoints)[%d]" % k, "is not [-inf,] coordinates [,inf]")
        lo = [] if k == 2 else [np.inf]
        if not _same(je[k], np.concatenate([lo, js[k], [np.inf]]), sc):
            bad("getCompactificationDerivatives(endpoints)[%d]" % k,
                "is not [inf,] Jacobians [,inf]")
    for k, d in enumerate(("z", "pz", "pp")):
        for ep, ref in ((False, cc), (True, cce)):
            try:
                got = g.getCompactCoordinates(endpoints=ep, direction=d)
            except Exception as ex:   # noqa: BLE001
                bad("getCompactCoordinates(direction)", "raised %r" % ex)
                continue
            if not _same(got, ref[k], sc):
                bad("getCompactCoordinates(direction=%s)" % d, "differs from component %d" % k)


def node_failures(g, three):
    """Clauses about the compact nodes and the cached arrays AS STORED (no sorting, no
    de-duplication): open domain, strictly increasing, sizes, finite images."""
    out = []
    M, N = int(g.M), int(g.N)
    chi, rz, rp = (np.asarray(getattr(g, a), dtype=float) for a in
                   ("chiValues", "rzValues", "rpValues"))
    for nm, a, n in (("chiValues", chi, M - 1), ("rzValues", rz, N - 1), ("rpValues", rp, N - 1)):
        if a.shape != (n,):
            out.append((nm, "has shape %r, expected (%d,)" % (a.shape, n)))
        if not np.all(np.isfinite(a)):
            out.append((nm, "is not finite"))
        elif a.size and not np.all(np.diff(a) > 0):
            out.append((nm, "is not strictly increasing"))
    if chi.size and not (np.all(chi > -1) and np.all(chi < 1)):
        out.append(("chiValues", "leaves (-1,1)"))
    if rz.size and not (np.all(rz > -1) and np.all(rz < 1)):
        out.append(("rzValues", "leaves (-1,1)"))
    if rp.size and not (np.all(rp >= -1) and np.all(rp < 1) and rp[0] == -1):
        out.append(("rpValues", "is not in [-1,1) starting at -1"))
    # the documented node formulas of both spacings
    if g.spacing == "Spectral":
        want = (-np.cos(np.arange(1, M) * np.pi / M), -np.cos(np.arange(1, N) * np.pi / N),
                -np.cos(np.arange(0, N - 1) * np.pi / (N - 1)))
    elif g.spacing != "Uniform":
        out.append(("spacing", "%r: no node formula is known to the check" % (g.spacing,)))
        want = (chi, rz, rp)
    else:
        want = (-1 + 2 * np.arange(1, M) / M, -1 + 2 * np.arange(1, N) / N,
                -1 + 2 * np.arange(0, N - 1) / (N - 1))
    for nm, a, w in zip(("chiValues", "rzValues", "rpValues"), (chi, rz, rp), want):
        if a.shape == w.shape and a.size:
            margin("node_formula abs/1.6e-15", float(np.max(np.abs(a - w)) / 1.6e-15))
        if a.shape == w.shape and not np.allclose(a, w, rtol=0, atol=4e-16 * 4):
            out.append((nm, "is not the %s node set" % g.spacing))
    for nm in ("xiValues", "pzValues", "ppValues", "dxidchi", "dpzdrz", "dppdrp"):
        a = np.asarray(getattr(g, nm), dtype=float)
        if not np.all(np.isfinite(a)):
            out.append((nm, "is not finite"))
        elif nm.endswith("Values") and a.size > 1 and not np.all(np.diff(a) > 0):
            out.append((nm, "is not strictly increasing"))
        elif not nm.endswith("Values") and not np.all(a > 0):
            out.append((nm, "is not positive"))
    pp = np.asarray(g.ppValues, dtype=float)
    if pp.size and np.isfinite(pp[0]) and not (pp[0] == 0 and np.all(pp >= 0)):
        out.append(("ppValues", "does not start at p_par = 0 / has negative entries"))
    return out


def check_nodes(ctx, once, g, case, label, three):
    ctx.count("nodes_" + label)
    for nm, why in node_failures(g, three):
        once(ctx, "%s (M=%s, N=%s, spacing=%s): %s %s" % (label, g.M, g.N, g.spacing, nm, why),
             dict(kind="nodes", three=three, case=case, attr=nm), "nodes:%s:%s" % (nm, why[:24]))


def doctored_grids_fail(ctx):
    """self-test of check_nodes: grids whose nodes were tampered with must be flagged"""
    saved = dict(MARGINS)
    try:
        _doctored_grids_fail(ctx)
    finally:
        MARGINS.clear()
        MARGINS.update(saved)


def _doctored_grids_fail(ctx):
    def doctor(f):
        g = mk_g1(1, 1, 8, 5)
        f(g)
        g._cacheCoordinates()
        return g

    def d1(g): g.rzValues = np.append(g.rzValues[:-1], 1.0)
    def d2(g): g.rpValues = np.append(g.rpValues[:-1], 1.0)
    def d3(g): g.rpValues = np.concatenate([[-1.5], g.rpValues[1:]])
    def d4(g): g.chiValues = g.chiValues[::-1].copy()
    def d5(g): g.chiValues = np.append(g.chiValues[:-1], 1.0)
    def d6(g): g.rzValues = g.rzValues[:-1]
    with np.errstate(all="ignore"):
        for k, f in enumerate((d1, d2, d3, d4, d5, d6), 1):
            if not node_failures(doctor(f), False):
                ctx.broken.append("harness self-test: doctored grid %d passes the node clauses" % k)
    if node_failures(mk_g1(1, 1, 8, 5), False) or node_failures(mk_g1(1, 1, 9, 7, "Uniform"), False):
        ctx.broken.append("harness self-test: an untouched grid fails the node clauses")



def snapshot(g, three):
    d = {}
    for a in ARR:
        d[a] = np.array(getattr(g, a), dtype=float)
    for a in (SC3 if three else SC1):
        d[a] = float(getattr(g, a))
    xi, pz, pp = g.getCoordinates()
    d["getCoordinates"] = np.concatenate([xi, pz, pp])
    xi, pz, pp = g.getCoordinates(endpoints=True)
    d["getCoordinates(endpoints)"] = np.concatenate([xi, pz, pp])
    a, b, c = g.getCompactificationDerivatives()
    d["getCompactificationDerivatives"] = np.concatenate([a, b, c])
    a, b, c = g.getCompactCoordinates()
    d["getCompactCoordinates"] = np.concatenate([a, b, c])
    return d


def fresh(g, three):
    if three:
        from WallGo.grid3Scales import Grid3Scales
        return Grid3Scales(g.M, g.N, g.tailLengthInside, g.tailLengthOutside, g.wallThickness,
                           g.momentumFalloffT, g.ratioPointsWall, g.smoothing, g.wallCenter,
                           g.spacing)
    from WallGo.grid import Grid
    return Grid(g.M, g.N, g.positionFalloff, g.momentumFalloffT, g.spacing)


def diff_snap(a, b):
    """names of attributes/observables that differ (inf == inf)"""
    bad = []
    for k in a:
        x, y = np.asarray(a[k]), np.asarray(b[k])
        if x.shape != y.shape:
            bad.append(k)
            continue
        fin = np.isfinite(x) & np.isfinite(y)
        if not np.array_equal(np.isfinite(x), np.isfinite(y)) or \
                not np.array_equal(x[~fin], y[~fin]):
            bad.append(k)
            continue
        sc = np.max(np.abs(y[fin])) if fin.any() else 0.0
        if np.any(np.abs(x[fin] - y[fin]) > 1e-12 * (np.abs(y[fin]) + sc)):
            bad.append(k)
    return bad


# ---------------------------------------------------------------------------------------
# consumers: code that READS a grid must leave it as it was

def _eom_stub(g):
    from types import SimpleNamespace
    from WallGo.equationOfMotion import EOM
    eom = EOM.__new__(EOM)
    eom.grid, eom.meanFreePathScale, eom.includeOffEq = g, 1.0, True
    eom.particles = []
    eom.nbrFields = 1
    eom.thermo = SimpleNamespace(effectivePotential=SimpleNamespace(
        evaluate=lambda f, T: np.sum(np.asarray(f) ** 2 * (np.asarray(f) - 1.0) ** 2, axis=-1)
        - 1e-3 * np.sum(np.asarray(f), axis=-1)))
    return eom


def consumer_action(g):
    """EOM.action, the objective the wall solver minimises (reads xiValues through
    wallProfile and the Jacobian getter through Polynomial.integrate)"""
    from WallGo.containers import WallParams
    from WallGo.fields import Fields
    eom = _eom_stub(g)
    w = abs(float(getattr(g, "wallThickness", g.positionFalloff)))
    wp = WallParams(widths=np.array([w]), offsets=np.array([0.0]))
    T = np.full(int(g.M) - 1, 100.0)
    a1 = eom.action(wp, Fields([1.0]), Fields([0.0]), T, None)
    a2 = eom.action(wp, Fields([1.0]), Fields([0.0]), T, None)
    if not (a1 == a2 or (np.isnan(a1) and np.isnan(a2))):
        raise AssertionError("EOM.action is not repeatable on the same input: %r then %r"
                             % (a1, a2))


def consumer_wallProfile(g):
    """EOM.wallProfile on the grid's own position arrays (attribute and getter), with walls much
    thinner than the tails, and on the arrays with endpoints"""
    from WallGo.containers import WallParams
    from WallGo.fields import Fields
    eom = _eom_stub(g)
    w = abs(float(getattr(g, "wallThickness", g.positionFalloff)))
    with np.errstate(all="ignore"):
        for width in (w, w / 400.0):
            wp = WallParams(widths=np.array([width, 2 * width]), offsets=np.array([0.0, 0.3]))
            lo, hi = Fields([1.0, 2.0]), Fields([0.0, 0.0])
            eom.wallProfile(g.xiValues, lo, hi, wp)
            eom.wallProfile(g.getCoordinates()[0], lo, hi, wp)
            eom.wallProfile(g.getCoordinates(endpoints=True)[0], lo, hi, wp)


def consumer_polynomial(g):
    """Polynomial: integration with the Jacobian getters as weights, derivatives, evaluation
    and basis changes in the three directions"""
    from WallGo.polynomial import Polynomial
    M, N = int(g.M), int(g.N)
    d = g.getCompactificationDerivatives()
    cc = g.getCompactCoordinates()
    for k, (direction, n) in enumerate((("z", M - 1), ("pz", N - 1), ("pp", N - 1))):
        vals = np.cos(3 * np.asarray(cc[k])) + 2.0
        pl = Polynomial(vals, g, "Cardinal", direction, False)
        pl.integrate(weight=d[k])
        pl.integrate(0, d[k])
        pl.derivative(0)
        pl.evaluate(np.array([[0.1, -0.3]]))
        q = Polynomial(vals.copy(), g, "Cardinal", direction, False)
        q.changeBasis("Chebyshev")
        q.changeBasis("Cardinal")
        (pl * d[k]).integrate()
        pl.matrix("Cardinal", direction)
        pl.derivMatrix("Cardinal", direction)


def consumer_boltzmann(g):
    """BoltzmannSolver on the grid: linear system and moments (small grids only)"""
    if int(g.M) > 12 or int(g.N) > 7 or BOLTZ["left"] <= 0:
        return
    BOLTZ["left"] -= 1
    import random as _r
    from props import C12
    case = C12.rand_case(_r.Random(5), int(g.M), int(g.N), 1, "all")
    ps = C12.make_particles(case["stats"], case["couplings"], 1)
    coll, _ = C12.make_collision(g, ps, case["cseed"], case["cscale"], case["coffdiag"])
    bg = C12.make_background(g, case)
    with np.errstate(all="ignore"):
        sv = C12.make_solver(g, ps, bg, coll, "Cardinal", "Chebyshev")
        sv.getDeltas()


CONSUMERS = dict(action=consumer_action, wallProfile=consumer_wallProfile,
                 polynomial=consumer_polynomial, boltzmann=consumer_boltzmann)
CONSUMER_SKIPPED = {}
BOLTZ = dict(left=3)      # the Boltzmann consumer costs seconds: a few runs per check


def use_grid(g, which, three):
    """run one consumer on g with its nine arrays write-protected; returns failures"""
    import traceback
    fails = []
    before = snapshot(g, three)
    arrs = [getattr(g, a) for a in ARR]
    flags = [a.flags.writeable for a in arrs]
    for a in arrs:
        a.setflags(write=False)
    try:
        CONSUMERS[which](g)
    except ValueError as ex:
        if "read-only" in str(ex):
            tb = traceback.extract_tb(ex.__traceback__)
            where = [f for f in tb if "/WallGo/" in f.filename]
            loc = where[-1] if where else tb[-1]
            fails.append(("consumer-writes-grid-array:" + which,
                          "%s writes IN PLACE into an array of the grid (the getters hand out "
                          "the cached arrays): %s:%d `%s`" % (
                              which, os.path.basename(loc.filename), loc.lineno, loc.line)))
        else:
            fails.append(("consumer-raises:%s:ValueError" % which, "%s raised %r" % (which, ex)))
    except ImportError as ex:
        CONSUMER_SKIPPED[which] = repr(ex)
    except AssertionError as ex:
        fails.append(("consumer-not-repeatable:" + which, str(ex)))
    except Exception as ex:   # noqa: BLE001
        fails.append(("consumer-raises:%s:%s" % (which, type(ex).__name__),
                      "%s raised %r" % (which, ex)))
    finally:
        for a, f in zip(arrs, flags):
            try:
                a.setflags(write=f)
            except ValueError:
                pass
    for nm in diff_snap(snapshot(g, three), before):
        fails.append(("consumer-changes-grid:%s:%s" % (which, nm),
                      "after %s (which only reads the grid) %s has changed" % (which, nm)))
    return fails


# ---------------------------------------------------------------------------------------
# histories on one object

def tonum(x, numtype):
    """the scale as the caller's type: python float, numpy scalar, or int when integral"""
    q = Fraction(x)
    if numtype == "np64":
        return np.float64(float(q))
    if numtype == "int" and q.denominator == 1:
        return int(q)
    if numtype == "arr0":
        return np.array(float(q))
    return float(q)


class Collect:
    def __init__(self):
        self.items = []

    def __call__(self, ctx, what, rep, key):
        self.items.append((key, what))


def tail_bound(g, L):
    """the asserted lower bound of both tails for thickness L on the live object"""
    return float(L) * (0.5 + float(g.smoothing)) / float(g.ratioPointsWall)


def exec_op(h, o):
    """execute one op of a history on h['g']; returns ('ok'|'rejected'|'accepted-bad', exc)"""
    g, nt, three = h["g"], h["numtype"], h["three"]
    kind = o[0]
    if kind == "mom":
        g.changeMomentumFalloffScale(tonum(o[1], nt))
    elif kind == "pos" and not three:
        g.changePositionFalloffScale(tonum(o[1], nt))
    elif kind == "pos":
        fi, fo, L, c = (Fraction(x) for x in o[1:])
        lo = tail_bound(g, L)
        g.changePositionFalloffScale(tonum(Fraction(lo * (1 + float(fi))), nt),
                                     tonum(Fraction(lo * (1 + float(fo))), nt),
                                     tonum(L, nt), tonum(c, nt))
    elif kind == "posabs":       # absolute arguments (recorded replays)
        g.changePositionFalloffScale(*[tonum(x, nt) for x in o[1:]])
    elif kind == "drift":        # the wall moves at bit-identical scales
        g.changePositionFalloffScale(g.tailLengthInside, g.tailLengthOutside, g.wallThickness,
                                     g.wallCenter + float(Fraction(o[1])) * g.wallThickness)
    elif kind == "repeat":
        g.changePositionFalloffScale(g.tailLengthInside, g.tailLengthOutside, g.wallThickness,
                                     g.wallCenter)
    elif kind == "reinit":
        if three:
            g.__init__(g.M, g.N, *[tonum(x, nt) for x in o[1:]], g.spacing)
        else:
            g.__init__(g.M, g.N, tonum(o[1], nt), tonum(o[2], nt), g.spacing)
    elif kind == "copy":
        import copy
        h["old"] = (g, snapshot(g, three))
        h["g"] = copy.copy(g)
    elif kind == "eom":
        from WallGo.containers import WallParams
        from WallGo.equationOfMotion import EOM
        eom = EOM.__new__(EOM)      # _updateGrid reads only these three attributes
        eom.grid, eom.meanFreePathScale, eom.includeOffEq = g, float(Fraction(h["mfp"])), h["inc"]
        eom._updateGrid(WallParams(widths=np.array([float(Fraction(x)) for x in o[2]]),
                                   offsets=np.array([float(Fraction(x)) for x in o[3]])),
                        float(Fraction(o[1])))
    elif kind == "reinit-badspacing":
        # re-running __init__ with a misspelt spacing keyword; the caller catches the error
        try:
            if three:
                g.__init__(g.M, g.N, *[tonum(x, nt) for x in o[1:]], "spectral")
            else:
                g.__init__(g.M, g.N, tonum(o[1], nt), tonum(o[2], nt), "spectral")
        except Exception as ex:   # noqa: BLE001
            return "rejected-spacing", ex
        return "accepted-bad", None
    elif kind == "use":
        h["use_fails"] = use_grid(g, o[1], three)
    elif kind == "bad":
        # a call that violates one assertion of _updateParameters; the caller catches the error
        which = o[1]
        tIn, tOut, L, c = g.tailLengthInside, g.tailLengthOutside, g.wallThickness, g.wallCenter
        f = float(Fraction(o[2]))
        if which == "thickness<=0":
            L = -f * L if f else 0.0
        elif which == "tailIn":
            tIn = tail_bound(g, L) * (1 - f)
        elif which == "tailOut":
            tOut = tail_bound(g, L) * (1 - f)
        elif which == "thickness-grows":      # tails unchanged, thickness far too large for them
            L = (1 + f) * max(tIn, tOut) * g.ratioPointsWall / (0.5 + g.smoothing)
        try:
            g.changePositionFalloffScale(tIn, tOut, L, c + 0.25 * abs(L))
        except Exception as ex:   # noqa: BLE001
            return "rejected", ex
        return "accepted-bad", None
    else:
        raise ValueError("unknown op %r" % (o,))
    return "ok", None


def start_history(case):
    three = case["three"]
    nt = case.get("numtype", "float")
    init = case["init"]
    M, N, spacing = case.get("M", 8), case.get("N", 5), case.get("spacing", "Spectral")
    if three:
        from WallGo.grid3Scales import Grid3Scales
        args = [tonum(x, nt) for x in init]
        if case.get("defaults"):        # ratioPointsWall, smoothing, wallCenter, spacing omitted
            g = Grid3Scales(M, N, *args[:4])
        else:
            g = Grid3Scales(M, N, *args, spacing)
    else:
        from WallGo.grid import Grid
        g = Grid(M, N, tonum(init[0], nt), tonum(init[1], nt)) if case.get("defaults") else \
            Grid(M, N, tonum(init[0], nt), tonum(init[1], nt), spacing)
    return dict(g=g, three=three, numtype=nt, mfp=case.get("mfp", "1"), inc=case.get("inc", True),
                old=None)


def judge(h, status, before, label):
    """failures (key, what) of the object after one op"""
    g, three = h["g"], h["three"]
    col = Collect()
    for key, what in h.pop("use_fails", []):
        col(None, what, None, key)
    if status == "rejected-spacing":
        changed = diff_snap(snapshot(g, three), before)
        if changed:
            col(None, "__init__ re-run on a live object and REJECTED for its spacing keyword "
                "changed %s (scales are stored before the keyword is validated)" % changed,
                None, KEY_SPACING)
        return col.items          # the object may be half-updated: nothing else is judged
    if status == "accepted-bad":
        col(None, "a call violating an assertion of _updateParameters was accepted", None,
            "inadmissible-call-accepted")
    if status == "rejected":
        for nm in diff_snap(snapshot(g, three), before):
            col(None, "a REJECTED changePositionFalloffScale (the caller catches the error) "
                "changed %s" % nm, None, "rejected-call-changes-state:" + nm)
    try:
        fr = snapshot(fresh(g, three), three)
    except Exception as ex:   # noqa: BLE001
        fr = None
        col(None, "the constructor rejects the object's own parameters (%r): no constructor "
            "call yields this object" % ex, None, "object-not-constructible")
    for nm in (diff_snap(snapshot(g, three), fr) if fr is not None else []):
        if three and nm == "positionFalloff":
            continue                     # known finding g3-positionFalloff-stale (witness replay)
        col(None, "%s differs from a freshly constructed grid" % nm, None,
            "rescale-vs-new:" + nm)
    gcol = Collect()
    _getters(gcol, g, three)
    col.items += gcol.items
    for nm, why in node_failures(g, three):
        col(None, "%s %s" % (nm, why), None, "nodes:%s:%s" % (nm, why[:24]))
    if h["old"] is not None:
        og, osnap = h["old"]
        for nm in diff_snap(snapshot(og, three), osnap):
            col(None, "rescaling a copy.copy of a grid changed %s of the original" % nm, None,
                "copy-aliasing:" + nm)
    return col.items


def run_history(case, ops=None):
    """first step (1-based) after which the object is wrong, with the failures; or None"""
    ops = case["ops"] if ops is None else ops
    h = start_history(case)
    fails = judge(h, "ok", None, "history")
    if fails:
        return 0, fails
    for k, o in enumerate(ops):
        before = snapshot(h["g"], h["three"]) if o[0] in ("bad", "reinit-badspacing") else None
        try:
            status, _ = exec_op(h, o)
        except Exception as ex:   # noqa: BLE001
            return k + 1, [("history-raises:%s:%s" % (o[0], type(ex).__name__),
                            "op %r raised %r" % (o, ex))]
        fails = judge(h, status, before, "history")
        if fails:
            return k + 1, fails
        if status == "rejected-spacing":
            break
    return None


def rand_history(rng, three):
    M, N = rng.choice([(6, 5), (8, 5), (11, 7), (20, 11), (30, 11)])
    spacing = rng.choice(["Spectral", "Spectral", "Uniform"])
    numtype = rng.choice(["float", "float", "np64", "int", "arr0"])
    defaults = rng.random() < 0.2
    if three:
        init = rand_g3(rng)
        if numtype == "int":      # integer-typed scales as in tests/test_Grid3Scales.py
            L = Fraction(rng.randint(1, 4))
            r, sm = (Fraction(1, 2), Fraction(1, 10)) if defaults else (init[4], init[5])
            lo = L * (Fraction(1, 2) + sm) / r
            init = [Fraction(math.floor(lo) + rng.randint(1, 30)),
                    Fraction(math.floor(lo) + rng.randint(1, 30)), L,
                    Fraction(rng.randint(1, 200)), r, sm, Fraction(rng.randint(-3, 3))]
        if defaults:
            lo = init[2] * Fraction(3, 5) / Fraction(1, 2)
            t1, t2 = max(init[0], lo * 2), max(init[1], lo * 2)
            init = [t1, t2, init[2], init[3], Fraction(1, 2), Fraction(float(0.1)), Fraction(0)]
            spacing = "Spectral"
    else:
        init = [dy(rng, 16, 31, -11, 3), dy(rng, 8, 31, -6, 3)]
        if numtype == "int":
            init = [Fraction(rng.randint(1, 50)), Fraction(rng.randint(1, 200))]
        if defaults:
            spacing = "Spectral"
    ops = []
    n = rng.randint(4, 8)
    while len(ops) < n:
        u = rng.random()
        if u < 0.2:
            ops.append(["mom", Fraction(rng.randint(1, 200)) if numtype == "int"
                        else dy(rng, 8, 31, -6, 3)])
        elif not three:
            if u < 0.9:
                ops.append(["pos", Fraction(rng.randint(1, 50)) if numtype == "int"
                            else dy(rng, 16, 31, -11, 3)])
            elif u < 0.95:
                ops.append(["reinit", dy(rng, 16, 31, -11, 3), dy(rng, 8, 31, -6, 3)])
            else:
                ops.append(["copy"])
        elif u < 0.45:
            L = Fraction(rng.randint(1, 9)) if numtype == "int" else dy(rng, 16, 31, -11, 3)
            fi = dy(rng, 1, 15, -6, 2)
            fo = fi if rng.random() < 0.3 else dy(rng, 1, 15, -6, 2)
            if rng.random() < 0.25:
                fi = fo = Fraction(1, 20)        # close to the bound
            c = rng.choice([Fraction(0), L * dy(rng, 1, 15, -4, 2), -L * dy(rng, 1, 15, -4, 2)])
            ops.append(["pos", fi, fo, L, c])
        elif u < 0.57:
            ops.append(["drift", dy(rng, 1, 15, -4, 1) * rng.choice([1, -1])])
        elif u < 0.62:
            ops.append(["repeat"])
        elif u < 0.76:
            which = rng.choice(["thickness<=0", "tailIn", "tailOut", "thickness-grows"])
            f = rng.choice([Fraction(0), Fraction(1, 1024), Fraction(1, 4), Fraction(9)]) \
                if which == "thickness<=0" else rng.choice([Fraction(1, 1024), Fraction(1, 4),
                                                           Fraction(9, 10)])
            if which == "thickness-grows":
                f = rng.choice([Fraction(1, 64), Fraction(1), Fraction(9)])
            ops.append(["bad", which, f])
        elif u < 0.80:
            p = rand_g3(rng)
            ops.append(["reinit"] + p)
        elif u < 0.84:
            ops.append(["copy"])
        else:
            nf = rng.randint(1, 3)
            w = dy(rng, 16, 31, -9, 1)
            widths = [w * dy(rng, 8, 24, -4, -4) for _ in range(nf)]
            offs = [Fraction(0)] + [dy(rng, 1, 31, -5, -5) * rng.choice([1, -1])
                                    for _ in range(nf - 1)]
            v = Fraction(rng.randint(5, 95), 100)
            ops.append(["eom", v, widths, offs])
            if nf > 1 and rng.random() < 0.6:     # same thickness and tails, centre moves
                ops.append(["eom", v, widths, [-x for x in offs]])
    if rng.random() < 0.1:                   # last: a re-run of __init__ with a misspelt keyword
        ops.append(["reinit-badspacing"] + (rand_g3(rng) if three else
                                            [dy(rng, 16, 31, -11, 3), dy(rng, 8, 31, -6, 3)]))
    for _ in range(rng.randint(1, 2)):      # code that only reads the grid, somewhere in between
        last = len(ops) - (1 if ops and ops[-1][0] == "reinit-badspacing" else 0)
        ops.insert(rng.randint(0, last), ["use", rng.choice(sorted(CONSUMERS))])
    mfp = dy(rng, 16, 31, -9, 3)
    return dict(three=three, M=M, N=N, spacing=spacing, numtype=numtype, defaults=defaults,
                init=jp(init), ops=jops(ops), mfp=str(mfp), inc=rng.random() < 0.8)


def jops(ops):
    def j(x):
        if isinstance(x, (list, tuple)):
            return [j(y) for y in x]
        if isinstance(x, str):
            return x
        return str(Fraction(x))
    return [[o[0]] + [j(x) for x in o[1:]] for o in ops]


def check_histories(ctx, once, rng, three, nseq):
    for _ in range(nseq):
        case = rand_history(rng, three)
        kinds = sorted(set(o[0] for o in case["ops"]))
        ctx.count("history_three" if three else "history_simple", case,
                  bucket="%s|%s%s" % (case["numtype"], case["spacing"],
                                      "|defaults" if case["defaults"] else ""))
        for kd in kinds:
            ctx.count("history_op_" + kd)
        try:
            res = run_history(case)
        except Exception as ex:   # noqa: BLE001
            once(ctx, "constructing the grid of a history raised %r" % ex,
                 dict(kind="history", **case), "history-raises:init:" + type(ex).__name__)
            continue
        if res is None:
            continue
        k, fails = res
        ops = case["ops"][:k]
        keys = set(f[0] for f in fails)
        # shrink: drop earlier calls while a failure of the same class still shows at the end
        changed = True
        while changed and len(ops) > 1:
            changed = False
            for i in range(len(ops) - 1):
                trial = ops[:i] + ops[i + 1:]
                try:
                    r2 = run_history(case, trial)
                except Exception:   # noqa: BLE001
                    continue
                if r2 is not None and r2[0] == len(trial) and keys & set(f[0] for f in r2[1]):
                    ops, fails, changed = trial, r2[1], True
                    break
        small = dict(case)
        small["ops"] = ops
        for key in sorted(set(f[0] for f in fails)):
            what = [f[1] for f in fails if f[0] == key][0]
            once(ctx, "after %d call(s) on one %s object: %s (ops=%s)" % (
                len(ops), "Grid3Scales" if three else "Grid", what, ops),
                dict(kind="history", differs=sorted(keys), **small), key)


KEY_SPACING = "reinit-rejected-by-spacing-half-updated"
W_SPACING = dict(three=True, M=8, N=5, spacing="Spectral", init=["5", "5", "1", "1", "1/2", "1/10", "0"],
                 ops=[["reinit-badspacing", "10", "10", "2", "1", "1/2", "1/10", "3/10"]])


def replay_spacing(ctx, once):
    """clean-tree finding (low severity): __init__ re-run on a live object with an invalid
    spacing keyword raises AFTER the scales were stored"""
    for case in (W_SPACING, dict(three=False, M=8, N=5, spacing="Spectral", init=["1", "1"],
                                 ops=[["reinit-badspacing", "3", "1"]])):
        res = run_history(case)
        ctx.count("witness_replay")
        if res is not None:
            what = [f[1] for f in res[1] if f[0] == KEY_SPACING]
            if what:
                once(ctx, "%s: %s" % ("Grid3Scales" if case["three"] else "Grid", what[0]),
                     dict(kind="history", **case), KEY_SPACING)
                continue
        ctx.log("re-init with an invalid spacing keyword leaves the %s object unchanged "
                "(the recorded finding %s no longer reproduces)" % (
                    "Grid3Scales" if case["three"] else "Grid", KEY_SPACING))


# the witnesses of the *_refuted theorems of Props/C17.v, replayed on the implementation
W_COMPACTIFY = dict(params=["2", "2", "1", "1", "1/2", "1/4", "0"], chi=0.4)
W_STALE = dict(init=["5", "5", "1", "1", "1/2", "1/10", "0"],
               ops=[["pos", "5", "5", "2", "0"]])
W_SMOOTH = dict(params=["13/2", "60", "1", "1", "1/2", "5/2", "0"], chi=-0.5)


def replay_witnesses(ctx, once):
    g = mk_g3([Fraction(x) for x in W_COMPACTIFY["params"]])
    chi = W_COMPACTIFY["chi"]
    z = g.decompactify(np.array(chi), np.array(0.0), np.array(0.0))[0]
    back = float(g.compactify(z, 0.0, 0.0)[0])
    ctx.log("witness g3_compactify_refuted on the implementation: compactify(decompactify("
            "%r)) = %r" % (chi, back))
    ctx.count("witness_replay")
    if abs(back - chi) > 1e-9:
        once(ctx, "Grid3Scales.compactify (inherited from Grid) is not the inverse of "
             "Grid3Scales.decompactify: compactify(decompactify(%r)) = %r for tails 2, "
             "thickness 1, ratio 1/2, smoothing 1/4" % (chi, back),
             dict(kind="compactify", **W_COMPACTIFY), "g3-compactify-not-inverse")
    else:
        ctx.broken.append("witness: g3_compactify_refuted does not reproduce on the "
                          "implementation (model and code disagree)")
    init = [Fraction(x) for x in W_STALE["init"]]
    g = mk_g3(init)
    g.changePositionFalloffScale(5.0, 5.0, 2.0, 0.0)
    f = fresh(g, True)
    ctx.log("witness g3_positionFalloff_stale_refuted on the implementation: "
            "positionFalloff %r, fresh grid %r" % (g.positionFalloff, f.positionFalloff))
    ctx.count("witness_replay")
    if g.positionFalloff != f.positionFalloff:
        once(ctx, "Grid3Scales.changePositionFalloffScale leaves positionFalloff stale: %r "
             "after rescaling to thickness 2, a new grid has %r (the inherited compactify "
             "uses it)" % (g.positionFalloff, f.positionFalloff),
             dict(kind="stale", **W_STALE), "g3-positionFalloff-stale")
    else:
        ctx.broken.append("witness: g3_positionFalloff_stale_refuted does not reproduce on "
                          "the implementation (model and code disagree)")
    try:
        g = mk_g3([Fraction(x) for x in W_SMOOTH["params"]])
        j = float(g.compactificationDerivatives(np.array(W_SMOOTH["chi"]), 0.0, 0.0)[0])
        ctx.log("witness g3_monotone_large_smoothing_refuted (smoothing 5/2 > 1, outside the "
                "documented domain; informational): Jacobian(%r) = %r" % (W_SMOOTH["chi"], j))
        if not j < 0:
            ctx.broken.append("witness: g3_monotone_large_smoothing_refuted does not "
                              "reproduce on the implementation")
    except AssertionError as ex:
        ctx.log("large-smoothing witness now rejected by the constructor:", ex)


def certified_stage(ctx, once, rng):
    """model vs implementation: certified interval evaluation (tie X)"""
    files = []
    nsets = ctx.n(6, 32)
    npts = ctx.n(3, 6)
    for m in range(nsets):
        p = rand_g3(rng, equal=(m % 4 == 0), near_bound=(m % 3 == 1))
        g = mk_g3(p)
        rows = impl_rows(g, rand_compact(rng, npts), rand_compact(rng, 2),
                         [Fraction(-1), Fraction(rng.randint(-1000, 1000), 1024)],
                         with_com=(m % 2 == 0))
        if m % 2 == 1:
            # what the consumers read: getter outputs of a production-size grid at its own nodes
            M, N = rng.choice([(20, 11), (30, 11), (50, 21)])
            gb = mk_g3(p, M, N, rng.choice(["Spectral", "Uniform"]))
            cc, xs, js = gb.getCompactCoordinates(), gb.getCoordinates(), \
                gb.getCompactificationDerivatives()
            for k, nn in ((0, M - 1), (1, N - 1), (2, N - 1)):
                for i in sorted(set([0, nn - 1] if k else [0, nn // 3, nn - 1])):
                    x = Fraction(float(cc[k][i]))
                    rows.append(("dec%d" % (k + 1), x, float(xs[k][i])))
                    rows.append(("jac%d" % (k + 1), x, float(js[k][i])))
        rows = finite_rows(ctx, once, dict(three=True, params=jp(p)), rows)
        files.append((dict(three=True, params=jp(p)), rows,
                      ctx.write("Cases/Eval3_%d.v" % m, eval_file_g3(p, rows))))
        if m == 0:
            ctx.sample(dict(params=jp(p), rows=[(k, str(x), y) for k, x, y in rows[:4]]))
    for m in range(ctx.n(2, 8)):
        L, T = dy(rng, 16, 31, -11, 3), dy(rng, 8, 31, -6, 3)
        g = mk_g1(L, T)
        rows = impl_rows(g, rand_compact(rng, npts), rand_compact(rng, 2),
                         [Fraction(-1), Fraction(rng.randint(-1000, 1000), 1024)],
                         with_com=True, com_pos=True)
        rows = finite_rows(ctx, once, dict(three=False, L=str(L), T=str(T)), rows)
        files.append((dict(three=False, L=str(L), T=str(T)), rows,
                      ctx.write("Cases/Eval1_%d.v" % m, eval_file_g1(L, T, rows))))
    import concurrent.futures

    def compile_one(item):
        case, rows, path = item
        pr = subprocess.run(["timeout", "900", "coqc"] + ctx.coq_args() + [path], cwd=ctx.bdir,
                            capture_output=True, text=True)
        return case, rows, path, pr, (pr.stdout, pr.stderr)
    with concurrent.futures.ThreadPoolExecutor(max_workers=6) as ex:   # at most six coqc
        done = list(ex.map(compile_one, files))
    for case, rows, path, pr, (out, err) in done:
        for _ in rows:
            ctx.count("certified_eval", None)
        ctx.count("certified_eval_file", case,
                  bucket="three" if case["three"] else "simple")
        if pr.returncode != 0:
            import re
            mm = None
            for mm in re.finditer(r'line (\d+), characters [\d-]+:\s*\n\s*Error', err):
                break
            which = None
            if mm:
                ln = int(mm.group(1))
                txt = open(path).read().splitlines()
                goals = [i for i, l in enumerate(txt, 1) if l.startswith("Goal ")]
                idx = max([k for k, i in enumerate(goals) if i <= ln], default=None)
                if idx is not None and idx < len(rows):
                    which = rows[idx]
            ctx.broken.append("correspondence: certified evaluation %s" %
                              path.split("/")[-1])
            ctx.log("certified evaluation failed for", json.dumps(case), "row",
                    which and (which[0], str(which[1]), which[2]), vlib.tail(err, 4))



# ---------------------------------------------------------------------------------------

def run(ctx):
    import glob
    import os
    src1 = vlib.read_src("grid.py")
    src3 = vlib.read_src("grid3Scales.py")
    gen_ok = facts_ok = True
    text = ftext = ""
    info = finfo = {}
    try:
        text, info = gen_grid.generate(src1, src3)
    except pyrx.TranslateError as e:
        ctx.log("translator failed:", e)
        ctx.broken.append("translator: %s" % e)
        gen_ok = False
    try:
        srcs = {os.path.basename(f): open(f).read()
                for f in sorted(glob.glob(vlib.src_path("*.py")))}
        for w in gen_grid.foreign_grid_writes(srcs):
            ctx.log("a grid object is written outside grid.py/grid3Scales.py: %s:%d %s" % w)
        ftext, finfo = gen_grid.generate_facts(srcs)
    except (pyrx.TranslateError, KeyError, SyntaxError) as e:
        ctx.log("fact extraction failed:", e)
        ctx.broken.append("translator(facts about the callers of the grid): %s" % e)
        facts_ok = False
    if gen_ok:
        ctx.write("GridGen.v", text + (ftext if facts_ok else ""), sources=dict(
            files=["src/WallGo/grid.py", "src/WallGo/grid3Scales.py",
                   "src/WallGo/equationOfMotion.py (EOM._updateGrid)",
                   "src/WallGo/manager.py (WallGoManager.buildGrid)",
                   "src/WallGo/*.py (writes to grid objects)"],
            sha=[vlib.sha(src1), vlib.sha(src3)], info=info, facts=finfo))
    rng = ctx.rng
    once = Once()
    # the generated module is compiled first; the certified evaluation files (which import
    # only it) are then compiled by a worker thread WHILE Props/C17.v is being checked
    stage = None
    if gen_ok:
        ctx.gate_text(text + ftext, "GridGen.v")
        ok, _, err = ctx.coqc(os.path.join(ctx.bdir, "GridGen.v"))
        if not ok:
            ctx.broken.append("generated:GridGen.v")
            ctx.log("generated file failed:", vlib.tail(err))
            gen_ok = False
    if gen_ok:
        import threading
        stage_err = []

        def worker():
            try:
                certified_stage(ctx, once, rng)
            except Exception as ex:   # noqa: BLE001
                import traceback
                stage_err.append((ex, traceback.format_exc()))
        stage = threading.Thread(target=worker)
        stage.start()
    proved = gen_ok and facts_ok and ctx.prove(extra=[], timeout=600)
    if stage is not None:
        stage.join()
        for ex, tb in stage_err:
            ctx.log("certified evaluation stage raised", tb)
            ctx.broken.append("harness: certified evaluation stage raised %r" % ex)
    ctx.trusted += ["tools/pyrx.py + tools/gen_grid.py (AST translator, fail-closed)",
                    "Lib/GridMapsCache.v: meaning of attribute stores and of calling a "
                    "separable point function on the three compact arrays (component-wise "
                    "map)",
                    "Interval tactic (certified evaluation; Bignums integers)"]
    # --- (4) the property on the implementation -----------------------------------------
    BOLTZ["left"] = ctx.n(2, 12)
    doctored_grids_fail(ctx)
    replay_witnesses(ctx, once)
    replay_spacing(ctx, once)
    worst_rt = 0.0
    for m in range(ctx.n(150, 1500)):
        p = rand_g3(rng, dyadic=(m % 2 == 0))
        M, N = rng.choice([(6, 5), (8, 5), (11, 7), (20, 11), (40, 11)])
        spacing = rng.choice(["Spectral", "Spectral", "Uniform"])
        case = dict(params=jp(p), M=M, N=N, spacing=spacing)
        try:
            g = mk_g3(p, M, N, spacing)
            rt = check_maps(ctx, once, g, case, "three-scale", True)
            getters_vs_maps(ctx, once, g, case, "three-scale", True)
            check_nodes(ctx, once, g, case, "three-scale", True)
        except Exception as ex:   # noqa: BLE001
            once(ctx, "Grid3Scales raised %r" % ex, dict(kind="maps", three=True,
                                                            case=case),
                 "g3-raises:" + type(ex).__name__)
            continue
        ctx.count("g3_grid", case, bucket="%s|tails %s|L~1e%d" % (
            spacing, "equal" if p[0] == p[1] else "unequal",
            int(math.floor(math.log10(float(p[2]))))))
        if rt is not None:
            worst_rt = max(worst_rt, rt[0])
    ctx.log("three-scale: max |compactify(decompactify(chi)) - chi| over the sweep = %.3g "
            "(known finding g3-compactify-not-inverse)" % worst_rt)
    for m in range(ctx.n(40, 300)):
        L = dy(rng, 16, 31, -11, 3) if m % 2 == 0 else Fraction(10 ** rng.uniform(-2, 2))
        T = dy(rng, 8, 31, -6, 3)
        M, N = rng.choice([(6, 5), (8, 5), (11, 7), (20, 11)])
        spacing = rng.choice(["Spectral", "Uniform"])
        case = dict(L=str(L), T=str(T), M=M, N=N, spacing=spacing)
        try:
            g = mk_g1(L, T, M, N, spacing)
            rt = check_maps(ctx, once, g, case, "simple", False)
            getters_vs_maps(ctx, once, g, case, "simple", False)
            check_nodes(ctx, once, g, case, "simple", False)
        except Exception as ex:   # noqa: BLE001
            once(ctx, "Grid raised %r" % ex, dict(kind="maps", three=False, case=case),
                           "simple-raises:" + type(ex).__name__)
            continue
        ctx.count("simple_grid", case, bucket=spacing)
        if rt is not None and rt[0] > 1e-9:
            once(ctx, "Grid: compactify(decompactify(%r)) is off by %.3g" % (rt[1], rt[0]),
                           dict(kind="maps", three=False, case=case, chi=rt[1]),
                           "simple-inverse")
    for m in range(ctx.n(40, 400)):
        # objects made by the production callers (buildGrid, then _updateGrid): a history
        try:
            p, g = executed_params(rng, *rng.choice([(8, 5), (20, 11), (30, 11)]))
        except Exception as ex:   # noqa: BLE001
            once(ctx, "WallGoManager.buildGrid / EOM._updateGrid raised %r" % ex,
                 dict(kind="executed", seed_index=m), "callers-raise:" + type(ex).__name__)
            continue
        case = dict(params=jp(p), M=int(g.M), N=int(g.N), spacing=g.spacing, executed=True)
        ctx.count("executed_grid", case)
        check_maps(ctx, once, g, case, "three-scale", True)
        getters_vs_maps(ctx, once, g, case, "three-scale", True)
        check_nodes(ctx, once, g, case, "three-scale", True)
        for which in sorted(CONSUMERS):
            ctx.count("consumer_" + which)
            for key, what in use_grid(g, which, True):
                once(ctx, "grid made by buildGrid/_updateGrid: " + what,
                     dict(kind="history", three=True, M=int(g.M), N=int(g.N), spacing=g.spacing,
                          init=jp(p), ops=[["use", which]]), key)
        for nm in diff_snap(snapshot(g, True), snapshot(fresh(g, True), True)):
            if nm != "positionFalloff":
                once(ctx, "a grid made by buildGrid/_updateGrid differs in %s from a new grid "
                     "with its parameters" % nm, dict(kind="maps", three=True, case=case),
                     "rescale-vs-new:" + nm)
    check_histories(ctx, once, rng, True, ctx.n(120, 1200))
    check_histories(ctx, once, rng, False, ctx.n(40, 300))
    for which, why in CONSUMER_SKIPPED.items():
        ctx.log("consumer %s could not be run (%s)" % (which, why))
        ctx.broken.append("harness: consumer %s could not be imported (%s)" % (which, why))
    once.summary(ctx)
    ctx.cov["margins"] = {k: round(v, 4) for k, v in sorted(MARGINS.items())}
    ctx.log("largest observed fractions of the tolerances:", ctx.cov["margins"])

    ctx.cov["rule"] = (
        "three-scale grids: thickness dyadic m*2^e over 0.008..250 (bucketed by decade), "
        "ratio k/16 and 1/32,1/16,15/16,31/32, smoothing in {1/256..1, 0.1}, tails = "
        "bound*(1+d) or whatever WallGoManager.buildGrid / EOM._updateGrid produce when "
        "executed, equal and unequal, centre 0/+-; both spacings, M up to 50; each grid probed "
        "at ~220 compact points incl. its own nodes and points 1e-8 from the ends; node "
        "clauses on the arrays as stored; getters (both endpoints values, every direction) vs "
        "maps; histories of 4-8 calls on one object mixing scale changes, centre-only drifts, "
        "exact repeats, momentum rescalings, calls violating each assertion in turn (object "
        "compared with its snapshot), EOM._updateGrid calls (pairs with flipped offsets), "
        "re-running __init__, rescaling a copy.copy; argument types float / numpy scalar / "
        "0-d array / int; constructor defaults; after every call: vs fresh grid, getters vs "
        "maps, node clauses; distinct = distinct parameter tuple / history")
    ctx.assumptions += [
        "no hypotheses about external numerics: the property is closed-form",
        "smoothing <= 1 for positivity/monotonicity of the three-scale map (documented "
        "domain; g3_monotone_large_smoothing_refuted shows it is needed)",
        "numpy applies the translated point functions element-wise (separability is proved, "
        "the broadcasting itself is validated by the cached-array checks)"]


def replay(rep):
    print(json.dumps(rep, indent=1))
    kind = rep.get("kind")
    if kind == "compactify":
        g = mk_g3([Fraction(x) for x in rep["params"]])
        z = g.decompactify(np.array(rep["chi"]), np.array(0.0), np.array(0.0))[0]
        print("decompactify(%r) = %r ; compactify(.) = %r" % (
            rep["chi"], float(z), float(g.compactify(z, 0.0, 0.0)[0])))
    elif kind in ("stale", "ops", "history"):
        case = dict(rep)
        case.setdefault("three", True)
        if kind != "history":        # recorded format: absolute arguments
            case["ops"] = [(["posabs"] + o[1:]) if o[0] == "pos" and case["three"] else o
                           for o in rep["ops"]]
        h = start_history(case)
        for k, o in enumerate(case["ops"]):
            before = snapshot(h["g"], h["three"])
            try:
                status, ex = exec_op(h, o)
            except Exception as e2:   # noqa: BLE001
                print("op %d %r raised %r" % (k + 1, o, e2))
                break
            print("op %d %r: %s %s" % (k + 1, o, status, ex if ex is not None else ""))
            for key, what in judge(h, status, before, "replay"):
                print("   ", key, "--", what)
        g, three = h["g"], h["three"]
        a, b = snapshot(g, three), snapshot(fresh(g, three), three)
        for k in diff_snap(a, b):
            print("differs:", k, "\n  object:", a[k], "\n  fresh: ", b[k])
    elif kind == "value":
        c = rep["case"]
        g = mk_g3([Fraction(x) for x in c["params"]]) if c.get("three") else \
            mk_g1(Fraction(c["L"]), Fraction(c["T"]))
        x = float(Fraction(rep["x"]))
        a = [np.array(0.0)] * 3
        a[int(rep["fn"][-1]) - 1] = np.array(x)
        f = {"dec": g.decompactify, "jac": g.compactificationDerivatives,
             "com": g.compactify}[rep["fn"][:3]]
        print("%s(%r) component %s = %r" % (f.__name__, x, rep["fn"][-1],
                                             f(*a)[int(rep["fn"][-1]) - 1]))
    elif kind == "maps":
        c = rep["case"]
        if rep.get("three"):
            g = mk_g3([Fraction(x) for x in c["params"]], c["M"], c["N"], c["spacing"])
        else:
            g = mk_g1(Fraction(c["L"]), Fraction(c["T"]), c["M"], c["N"], c["spacing"])
        x = rep.get("chi", rep.get("x", 0.0))
        zf = lambda t: g.decompactify(t, np.zeros_like(t), np.zeros_like(t))[0]
        xa = np.array([x])
        print("chi=%r map=%r jacobian=%r finite-difference=%r" % (
            x, float(zf(xa)[0]),
            float(g.compactificationDerivatives(xa, 0 * xa, 0 * xa)[0][0]),
            float(fd5(zf, xa, 2e-2 * min(
                1 - abs(x),
                math.hypot(float(getattr(g, "aIn", 1.0)), x + float(getattr(g, "ratioPointsWall", 9))),
                math.hypot(float(getattr(g, "aOut", 1.0)), x - float(getattr(g, "ratioPointsWall", 9)))))[0])
            if abs(x) < 1 else None))
    return 0
