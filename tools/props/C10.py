"""C10 -- equation of state: thermodynamic consistency and smooth extrapolation."""
import json
import math
import random
import re
import subprocess
import traceback
from fractions import Fraction

import numpy as np

import gen_thermo
import pyrx
import vlib
import wgmodels

EXPLANATION = (
    "The whole Thermodynamics class (all piecewise EOS functions of both phases and "
    "setExtrapolate, as a state transformer) is regenerated from thermodynamics.py by "
    "the pyrx translator; Coq proves, for EVERY free-energy table with positive enthalpy "
    "and heat capacity at the range ends and for every prior state, the identities "
    "e=Tp'-p, w=Tp', cs2=p'/e' at all T>0, that p', p'' are the derivatives of p away "
    "from the two junctions, continuity of p,p',p'',cs2 across both range ends, and "
    "p=-Veff inside. Model values are compared with the running implementation by "
    "certified interval evaluation; the property is also evaluated directly on the "
    "implementation (stub and traced free energies).")

FUNS = ["p", "dp", "ddp", "e", "de", "w", "csq"]


def rand_stub(rng):
    """f(T) = k0 + k2 T^2 - k3 T^3 - k4 T^4 (small dyadic coefficients) and a range on
    which f' < 0 and f'' < 0"""
    k4 = Fraction(rng.randint(4, 40), 4)
    k3 = Fraction(rng.randint(0, 8), 8)
    k2 = Fraction(rng.randint(0, 24), 2)
    k0 = Fraction(rng.randint(-20, 20))
    tmin2 = k2 / k4 + Fraction(1, 4)
    tmin = Fraction(math.ceil(math.sqrt(float(tmin2)) * 8 + 1), 8) + Fraction(
        rng.randint(0, 16), 8)
    tmax = tmin + Fraction(rng.randint(2, 40), 8)
    return [k0, Fraction(0), k2, -k3, -k4], (tmin, tmax)


def coq_poly(c, order=0):
    c = list(c)
    for _ in range(order):
        c = [k * i for i, k in enumerate(c)][1:]
    terms = []
    for i, k in enumerate(c):
        if k == 0:
            continue
        terms.append("%s * T ^ %d" % (pyrx.rlit(k), i) if i else pyrx.rlit(k))
    return "(fun T : R => %s)" % (" + ".join(terms) if terms else "0")


def temps(rng, lo, hi):
    lo, hi = Fraction(lo), Fraction(hi)
    return [lo * Fraction(rng.randint(2, 7), 8), lo - Fraction(1, 64), lo,
            lo + (hi - lo) * Fraction(rng.randint(1, 7), 8), hi, hi + Fraction(1, 64),
            hi * Fraction(rng.randint(9, 40), 8)]


def impl_values(th, T):
    T = float(T)
    out = {}
    for ph in ("High", "Low"):
        for fn in FUNS:
            out[fn + ph + "T"] = float(getattr(th, fn + ph + "T")(T))
    out["alpha"] = float(th.alpha(T))
    return out


def direct_checks(ctx, th, label, case, extra=None):
    """The property evaluated on the implementation object `th` (after setExtrapolate).
    extra: {phase: [temperatures]} additional probe points (e.g. table nodes)."""
    ok = True
    for ph in ("High", "Low"):
        lo = getattr(th, "TMin" + ph + "T")
        hi = getattr(th, "TMax" + ph + "T")
        p, dp, ddp = (getattr(th, f + ph + "T") for f in ("p", "dp", "ddp"))
        e, de, w, csq = (getattr(th, f + ph + "T") for f in ("e", "de", "w", "csq"))
        grid = [lo * x for x in (0.2, 0.5, 0.9, 0.999)] + \
            [lo + (hi - lo) * x for x in (0.0, 0.1, 0.5, 0.9, 1.0)] + \
            [hi * x for x in (1.001, 1.1, 2.0, 7.0)] + \
            [lo * (1 - 5e-6), lo * (1 + 5e-6), hi * (1 - 5e-6), hi * (1 + 5e-6)] + \
            list((extra or {}).get(ph, []))
        for T in grid:
            vals = dict(p=float(p(T)), dp=float(dp(T)), ddp=float(ddp(T)), e=float(e(T)),
                        de=float(de(T)), w=float(w(T)), csq=float(csq(T)))
            ctx.count("direct_" + label)
            bad = None
            if not all(math.isfinite(v) for v in vals.values()):
                ok = False
                ctx.fail_input("%sT(%.6g): non-finite value %s [%s]" % (
                    ph, T, {k: v for k, v in vals.items() if not math.isfinite(v)},
                    label), dict(kind="nonfinite", phase=ph, T=T, values=vals, case=case),
                    key="nonfinite:" + ph)
                continue
            sc = abs(vals["p"]) + abs(T * vals["dp"]) + 1e-300
            if abs(vals["e"] - (T * vals["dp"] - vals["p"])) > 1e-10 * sc:
                bad = "e != T dp - p"
            elif abs(vals["w"] - T * vals["dp"]) > 1e-10 * sc:
                bad = "w != T dp"
            elif abs(vals["csq"] - vals["dp"] / vals["de"]) > 1e-8 * abs(vals["csq"]):
                bad = "csq != dp/de"
            else:
                # reported derivatives vs central differences (away from the junctions)
                # central differences with a small step: inside the table p is a cubic
                # spline, so across a knot the difference quotient of dp is off by about
                # h/4 times the jump of the third derivative (seen as a false alarm at
                # h = 1e-5 T on a noisy non-paranoid table); rounding costs ~1e-16 |p| / h.
                # (a node of a table whose first steps are 1e-4 apart showed the same effect
                # at h = 1e-6 T, marginally); h = 1e-8 T keeps the knot term below 1e-7
                # relative and rounding at ~1e-8 (p + T dp) / T
                h = 1e-8 * T
                if min(abs(T - lo), abs(T - hi)) > 2 * h:
                    d1 = (float(p(T + h)) - float(p(T - h))) / (2 * h)
                    d2 = (float(dp(T + h)) - float(dp(T - h))) / (2 * h)
                    if abs(d1 - vals["dp"]) > 3e-6 * abs(vals["dp"]) + 1e-7 * sc / T:
                        bad = "dp is not the derivative of p"
                    elif abs(d2 - vals["ddp"]) > 3e-6 * abs(vals["ddp"]) + \
                            1e-7 * sc / T ** 2:
                        bad = "ddp is not the derivative of dp"
            if bad:
                ok = False
                ctx.fail_input("%sT(%.6g): %s [%s]" % (ph, T, bad, label),
                               dict(kind="identity", phase=ph, T=T, values=vals,
                                    case=case, what_fails=bad),
                               key="identity:%s:%s" % (ph, bad))
        # continuity across both ends
        for end, Tb in (("TMin", lo), ("TMax", hi)):
            d = 1e-9 * Tb
            # scale of each quantity: its own size plus T times its derivative (p may pass
            # through zero at a range end: |p| alone is no scale)
            pe, dpe, ddpe = abs(float(p(Tb))), abs(float(dp(Tb))), abs(float(ddp(Tb)))
            for fn, f, scale in (("p", p, pe + Tb * dpe), ("dp", dp, dpe + Tb * ddpe),
                                 ("ddp", ddp, ddpe + dpe / Tb), ("csq", csq, 0.0)):
                a, b0, c = float(f(Tb - d)), float(f(Tb)), float(f(Tb + d))
                ref = abs(b0) + scale + 1e-300
                ctx.count("continuity_" + label)
                if not (abs(a - b0) <= 1e-6 * ref and abs(c - b0) <= 1e-6 * ref):
                    ok = False
                    ctx.fail_input(
                        "%s%sT jumps across %s%sT=%.8g: %.12g | %.12g | %.12g [%s]" % (
                            fn, ph, end, ph, Tb, a, b0, c, label),
                        dict(kind="jump", fn=fn, phase=ph, end=end, T=Tb,
                             values=[a, b0, c], case=case),
                        key="jump:%s%s@%s" % (fn, ph, end))
    return ok


def jfr(x):
    return [str(Fraction(v)) for v in x]


RANGE_ATTRS = (("TMaxHighT", "freeEnergyHigh", "maxPossibleTemperature"),
               ("TMinHighT", "freeEnergyHigh", "minPossibleTemperature"),
               ("TMaxLowT", "freeEnergyLow", "maxPossibleTemperature"),
               ("TMinLowT", "freeEnergyLow", "minPossibleTemperature"))


def fresh_twin(th):
    """A new Thermodynamics object on the SAME two free-energy objects, in the state
    __init__ leaves it in, after one setExtrapolate(): what `th` must be indistinguishable
    from whatever its history was (caches, stale copies, order dependence show up here)."""
    t2 = object.__new__(type(th))
    t2.__dict__.update(th.__dict__)
    for a in gen_thermo.ATTRS:
        setattr(t2, a, 0.0)
    for a, fe, lim in RANGE_ATTRS:
        setattr(t2, a, getattr(getattr(th, fe), lim)[0])
    t2.setExtrapolate()
    return t2


def same(x, y):
    return x == y or (x != x and y != y)


def probe_temps(th, absolute=()):
    out = list(absolute)
    for ph in ("High", "Low"):
        lo, hi = getattr(th, "TMin" + ph + "T"), getattr(th, "TMax" + ph + "T")
        out += [0.5 * lo, lo, lo + 0.37 * (hi - lo), hi, 1.5 * hi]
    return [float(t) for t in out if t > 0 and math.isfinite(t)]


def twin_check(ctx, th, label, case, absolute=()):
    """bit-equal with a fresh object on the same tables, at the same temperatures"""
    t2 = fresh_twin(th)
    for a in gen_thermo.ATTRS:
        ctx.count("twin_" + label)
        if not same(float(getattr(th, a)), float(getattr(t2, a))):
            ctx.fail_input("after its history the object's %s = %r, a fresh object on the "
                           "same tables has %r [%s]" % (a, getattr(th, a), getattr(t2, a),
                                                        label),
                           dict(kind="twin_attr", attr=a, case=case), key="history:attr:" + a)
    for T in probe_temps(th, absolute):
        v1, v2 = impl_values(th, T), impl_values(t2, T)
        for k in v1:
            ctx.count("twin_" + label)
            if not same(v1[k], v2[k]):
                ctx.fail_input("%s(%.9g) = %r after the object's history, %r on a fresh "
                               "object built on the same tables [%s]" % (k, T, v1[k], v2[k],
                                                                         label),
                               dict(kind="twin", fn=k, T=T, got=v1[k], fresh=v2[k], case=case),
                               key="history:differs-from-fresh-object:" + k)
                return False
    return True


def hypotheses_hold(ctx, th, label):
    """the hypotheses of the theorems (positive enthalpy and heat capacity at the ends of both
    tabulated ranges) asserted on the object itself"""
    ok = True
    for ph in ("High", "Low"):
        lo, hi = getattr(th, "TMin" + ph + "T"), getattr(th, "TMax" + ph + "T")
        dp, ddp = getattr(th, "dp" + ph + "T"), getattr(th, "ddp" + ph + "T")
        good = 0 < lo < hi and all(float(dp(x)) > 0 and float(ddp(x)) > 0 for x in (lo, hi))
        ctx.count("hypotheses_" + label, bucket="hold" if good else "outside proven domain")
        if not good:
            ctx.log("NOTE %s phase of a %s model is outside the theorems' hypotheses "
                    "(w>0, de/dT>0 at the range ends)" % (ph, label))
        ok = ok and good
    return ok


def eval_file(model_id, cH, rH, cL, rL, rows):
    """Coq file with certified interval evaluations for one stub model."""
    hdr = """From Coq Require Import Reals Lra.
From Interval Require Import Tactic.
From WG Require Import Lib.NumpySem Lib.EosTemplate.
From GenC10 Require Import Thermo Props_C10.
Local Open Scope R_scope.
Definition e0 := mk_env %s %s %s %s %s %s %s %s %s %s.
Definition s00 := mk_st 0 0 0 0 0 0 0 0 0 0 0 0 0 0 0 0.
Lemma hypH : tabMinHigh e0 < tabMaxHigh e0 /\\ 0 < tabMinHigh e0 /\\
  dfHigh e0 (tabMinHigh e0) < 0 /\\ ddfHigh e0 (tabMinHigh e0) < 0 /\\
  dfHigh e0 (tabMaxHigh e0) < 0 /\\ ddfHigh e0 (tabMaxHigh e0) < 0.
Proof. cbn. repeat split; lra. Qed.
Lemma hypL : tabMinLow e0 < tabMaxLow e0 /\\ 0 < tabMinLow e0 /\\
  dfLow e0 (tabMinLow e0) < 0 /\\ ddfLow e0 (tabMinLow e0) < 0 /\\
  dfLow e0 (tabMaxLow e0) < 0 /\\ ddfLow e0 (tabMaxLow e0) < 0.
Proof. cbn. repeat split; lra. Qed.
Ltac ev :=
  destruct hypH as [H1 [H2 [H3 [H4 [H5 H6]]]]];
  destruct hypL as [L1 [L2 [L3 [L4 [L5 L6]]]]];
  destruct (extrapolation_matched_High e0 s00 H1 H2 H3 H4 H5 H6) as [[Hmu [HA Heps]] [Hmu' [HA' Heps']]];
  destruct (extrapolation_matched_Low e0 s00 L1 L2 L3 L4 L5 L6) as [[Lmu [LA Leps]] [Lmu' [LA' Leps']]];
  destruct (S_range_High e0 s00) as [Ra Rb]; destruct (S_range_Low e0 s00) as [Qa Qb];
  repeat progress unfold alpha, eHighT, wHighT, eLowT, wLowT, deHighT, deLowT;
  rewrite ?deHighT_is_DE, ?deLowT_is_DE;
  rewrite ?pHighT_is_P, ?dpHighT_is_DP, ?ddpHighT_is_DDP, ?csqHighT_is_CSQ,
          ?pLowT_is_P, ?dpLowT_is_DP, ?ddpLowT_is_DDP, ?csqLowT_is_CSQ;
  rewrite ?Ra, ?Rb, ?Qa, ?Qb;
  unfold P, DP, DDP, CSQ, DE, DDP, DP;
  cbn [tabMinHigh tabMaxHigh tabMinLow tabMaxLow e0];
  repeat match goal with |- context [Rlt_dec ?x ?y] => destruct (Rlt_dec x y); try lra end;
  rewrite ?Heps, ?Heps', ?HA, ?HA', ?Hmu, ?Hmu', ?Leps, ?Leps', ?LA, ?LA', ?Lmu, ?Lmu';
  cbn [fHigh dfHigh ddfHigh fLow dfLow ddfLow tabMinHigh tabMaxHigh tabMinLow tabMaxLow e0];
  interval with (i_prec 90).
""" % (coq_poly(cH), coq_poly(cL), coq_poly(cH, 1), coq_poly(cH, 2), coq_poly(cL, 1),
       coq_poly(cL, 2), pyrx.rlit(rH[1]), pyrx.rlit(rH[0]), pyrx.rlit(rL[1]),
       pyrx.rlit(rL[0]))
    goals = []
    for fn, T, y in rows:
        q = Fraction(y)
        tol = abs(q) * Fraction(1, 10 ** 9) + Fraction(1, 10 ** 12)
        call = "alpha e0 (setExtrapolate e0 s00) %s" % pyrx.rlit(T) if fn == "alpha" \
            else "%s e0 (setExtrapolate e0 s00) %s" % (fn, pyrx.rlit(T))
        goals.append("Goal Rabs (%s - %s) <= %s.\nProof. ev. Qed." % (
            call, pyrx.rlit(q), pyrx.rlit(tol)))
    return hdr + "\n".join(goals) + "\n"


def traced_model(ctx, rng, variant=0):
    """End to end: real FreeEnergy tables traced on the closed-form quartic potential.
    variant 0: paranoid tracing, then a HISTORY on the same objects (limits lifted, both
    phases re-traced over wider, then over narrower shifted windows, setExtrapolate again,
    findCriticalTemperature in between);
    variant 1: non-paranoid tracing with a very tight tolerance (the re-minimisation
    branch of the tracer fires at most steps)."""
    import WallGo
    from WallGo import Fields, Thermodynamics
    D = rng.choice([0.15, 0.2, 0.3])
    E = rng.choice([0.03, 0.05])
    lam = rng.choice([0.08, 0.1])
    T0 = rng.choice([60.0, 80.0])
    uTn, uLoH, uHiH, uLoL = (rng.uniform(0.3, 0.8), rng.uniform(0.1, 0.6),
                             rng.uniform(1.0, 1.1), rng.uniform(0.95, 1.0))
    pot = wgmodels.quartic1(D=D, E=E, lam=lam, T0=T0)
    ex = wgmodels.quartic1_exact(**pot.params)
    pot.configureDerivatives(WallGo.VeffDerivativeSettings(
        temperatureVariationScale=1.0, fieldValueVariationScale=10.0))
    # T0 (spinodal of the symmetric phase) < Tn < Tc < spinodal of the broken phase, and the
    # start of every traced window lies strictly between T0 and Tn (tracePhase starts at Tn)
    Tn = T0 + uTn * (ex["Tc"] - T0)
    th = Thermodynamics(pot, Tn, Fields([ex["phi_broken"](Tn)]), Fields([0.0]))
    dT = 0.004 * Tn
    paranoid = variant == 0
    rTol = 1e-8 if variant == 0 else 1e-12
    case = dict(model="quartic1", D=D, E=E, lam=lam, T0=T0, Tn=Tn, paranoid=paranoid,
                rTol=rTol)
    loH = T0 + uLoH * (Tn - T0)
    absolute = [0.5 * T0, loH, Tn, ex["Tc"], ex["Tspin_broken"] * 0.999,
                ex["Tspin_broken"] * 1.2, 3.0 * T0]

    def check(stage):
        c2 = dict(case, stage=stage)
        # where Tn lies inside the old range copy AND inside the new table of a phase, the
        # values at Tn do not depend on the extrapolation parameters, so they are the same
        # before and after the call (the tracer may stop short of Tn near a spinodal: then
        # Tn is extrapolated and nothing is claimed)
        before = {}
        if stage != "first trace":
            for ph, fe in (("High", th.freeEnergyHigh), ("Low", th.freeEnergyLow)):
                if getattr(th, "TMin" + ph + "T") <= Tn <= getattr(th, "TMax" + ph + "T") and \
                        fe.minPossibleTemperature[0] <= Tn <= fe.maxPossibleTemperature[0]:
                    for f in ("p", "dp", "ddp"):
                        before[f + ph] = float(getattr(th, f + ph + "T")(Tn))
        th.setExtrapolate()
        if before:
            for k, v in before.items():
                ctx.count("before_after_setExtrapolate")
                w = float(getattr(th, k + "T")(Tn))
                if not same(v, w):
                    ctx.fail_input("%sT(Tn) = %r before setExtrapolate(), %r after [%s]" % (
                        k, v, w, stage), dict(kind="before_after", case=c2, fn=k),
                        key="history:before-after:" + k)
        hypotheses_hold(ctx, th, "traced")
        nodes = {}
        for ph, fe in (("High", th.freeEnergyHigh), ("Low", th.freeEnergyLow)):
            lo, hi = fe.minPossibleTemperature[0], fe.maxPossibleTemperature[0]
            nn = [float(t) for t in np.asarray(fe._interpolationPoints).ravel()
                  if lo < t < hi]
            nodes[ph] = nn[::max(1, len(nn) // 12)]
        direct_checks(ctx, th, "traced", c2, extra=nodes)
        twin_check(ctx, th, "traced", c2, absolute)
        th.setExtrapolate()
        twin_check(ctx, th, "traced_twice", c2, absolute)
        # p = -Veff at the (closed-form) minimum inside the TABLE's range (taken from the
        # free-energy objects, not from the copies th keeps): between nodes and AT the nodes
        for ph, phi, fe in (("High", lambda T: 0.0, th.freeEnergyHigh),
                            ("Low", ex["phi_broken"], th.freeEnergyLow)):
            lo, hi = fe.minPossibleTemperature[0], fe.maxPossibleTemperature[0]
            for T in [lo + (hi - lo) * x for x in (0.0, 0.05, 0.3, 0.6, 0.95, 1.0)] + nodes[ph]:
                want = -ex["V"](phi(T), T)
                got = float(getattr(th, "p" + ph + "T")(T))
                ctx.count("p_in_range_traced")
                if not abs(got - want) <= 1e-7 * abs(want):
                    ctx.fail_input(
                        "p%sT(%g) = %r but -Veff(min) = %r [%s]" % (ph, T, got, want,
                                                                     stage),
                        dict(kind="p_in_range", case=c2, T=T, got=got, want=want),
                        key="p-in-range:" + ph)
                    return

    def other_methods(stage):
        """methods a user (and the manager) calls between setExtrapolate and the reads must
        leave the equation of state alone"""
        snap = {T: impl_values(th, T) for T in absolute}
        try:
            Tc = th.findCriticalTemperature(dT=0.05 * (ex["Tc"] - T0), rTol=rTol,
                                            paranoid=paranoid)
            ctx.count("findCriticalTemperature_called")
            if not abs(Tc - ex["Tc"]) <= 1e-4 * ex["Tc"]:
                ctx.log("NOTE findCriticalTemperature = %r, closed form %r" % (Tc, ex["Tc"]))
        except WallGo.WallGoError as exc:
            lo_, hi_ = th._getCoexistenceRange()
            dF = lambda T: float(th.freeEnergyLow(T).veffValue - th.freeEnergyHigh(T).veffValue)
            ctx.log("NOTE findCriticalTemperature raised", exc, "coexistence range", lo_, hi_,
                    "closed-form Tc", ex["Tc"], "dF at the ends", dF(lo_), dF(hi_), case)
        th._getCoexistenceRange()
        for T, v in snap.items():
            w = impl_values(th, T)
            for k in v:
                ctx.count("frame_other_methods")
                if not same(v[k], w[k]):
                    ctx.fail_input("%s(%.9g) changed from %r to %r by calling "
                                   "findCriticalTemperature/_getCoexistenceRange [%s]" % (
                                       k, T, v[k], w[k], stage),
                                   dict(kind="frame", fn=k, T=T, case=dict(case, stage=stage)),
                                   key="history:changed-by-other-method:" + k)
                    return
        twin_check(ctx, th, "traced_after_other_methods", dict(case, stage=stage), absolute)

    # different windows for the two phases (the ends then do not coincide)
    th.freeEnergyHigh.tracePhase(loH, ex["Tspin_broken"] * uHiH, dT, rTol=rTol,
                                 paranoid=paranoid)
    th.freeEnergyLow.tracePhase(0.9 * T0 * uLoL, ex["Tspin_broken"] * 0.999, dT, rTol=rTol,
                                paranoid=paranoid)
    check("first trace")
    other_methods("first trace")
    if variant == 0:
        # history: lift the limits and trace again on the SAME objects, wider ...
        def lift():
            for fe in (th.freeEnergyHigh, th.freeEnergyLow):
                fe.minPossibleTemperature = [0.0, False]
                fe.maxPossibleTemperature = [np.inf, False]
        lift()
        th.freeEnergyHigh.tracePhase(T0 + 0.05 * (Tn - T0), ex["Tspin_broken"] * 1.3, dT,
                                     rTol=rTol)
        th.freeEnergyLow.tracePhase(0.6 * T0, ex["Tspin_broken"] * 0.999, dT, rTol=rTol)
        check("re-traced wider on the same objects")
        # ... and narrower, shifted
        lift()
        th.freeEnergyHigh.tracePhase(Tn - 0.3 * (Tn - T0), ex["Tc"] * 1.02, dT, rTol=rTol)
        th.freeEnergyLow.tracePhase(0.95 * T0, ex["Tc"] * 1.01, dT, rTol=rTol)
        check("re-traced narrower on the same objects")
        other_methods("re-traced narrower")
    ctx.sample(dict(traced=case, ranges=[th.TMinHighT, th.TMaxHighT, th.TMinLowT,
                                         th.TMaxLowT]))


def stub_history(ctx, th, rng, case):
    """histories on one object with analytic tables: setExtrapolate twice, other methods in
    between, the tables' ranges moved (what a re-trace does) and setExtrapolate again"""
    from WallGo import WallGoError
    twin_check(ctx, th, "stub", case)
    th.setExtrapolate()
    twin_check(ctx, th, "stub_twice", case)
    snap = {T: impl_values(th, T) for T in probe_temps(th)}
    try:
        lo, hi = th._getCoexistenceRange()
        if lo < hi:
            th.findCriticalTemperature(dT=(hi - lo) / 40.0)
    except WallGoError:
        pass
    for T, v in snap.items():
        w = impl_values(th, T)
        for k in v:
            ctx.count("frame_other_methods")
            if not same(v[k], w[k]):
                ctx.fail_input("%s(%.9g) changed from %r to %r by calling "
                               "findCriticalTemperature/_getCoexistenceRange [stub]" % (
                                   k, T, v[k], w[k]),
                               dict(kind="frame", fn=k, T=T, case=case),
                               key="history:changed-by-other-method:" + k)
                return
    # move the ranges (shrink one phase, shift the other), as a re-trace would
    for fe, (fa, fb) in ((th.freeEnergyHigh, (rng.uniform(0.0, 0.3), rng.uniform(0.6, 1.0))),
                         (th.freeEnergyLow, (rng.uniform(0.0, 0.4), rng.uniform(0.5, 1.0)))):
        lo, hi = fe.minPossibleTemperature[0], fe.maxPossibleTemperature[0]
        fe.minPossibleTemperature = [lo + fa * (hi - lo), False]
        fe.maxPossibleTemperature = [lo + fb * (hi - lo), False]
    th.setExtrapolate()
    c2 = dict(case, stage="ranges moved on the same object")
    direct_checks(ctx, th, "stub_moved", c2)
    twin_check(ctx, th, "stub_moved", c2, list(snap))


def run(ctx):
    src = vlib.read_src("thermodynamics.py")
    gen_ok = True
    try:
        text, tr = gen_thermo.generate(src)
        ctx.write("Thermo.v", text, sources=dict(file="src/WallGo/thermodynamics.py",
                                                 sha=vlib.sha(src), spans=tr.spans))
        ftext, finfo = gen_thermo.frame_facts(vlib.SRC)
        ctx.write("ThermoFacts.v", ftext, sources=dict(
            file="src/WallGo/**/*.py (%d files)" % finfo["files"], sha=vlib.sha(ftext)))
        for w in finfo["foreign"] + finfo["dynamic"]:
            ctx.log("writer of a modelled attribute outside __init__/setExtrapolate:", w)
        for m in finfo["writers"]:
            if m not in ("__init__", "setExtrapolate"):
                ctx.log("method %s assigns %s" % (m, finfo["writers"][m]))
    except pyrx.TranslateError as e:
        ctx.log("translator failed:", e)
        ctx.broken.append("translator: %s" % e)
        gen_ok = False
    proved = gen_ok and ctx.prove(extra=["Thermo.v", "ThermoFacts.v"])
    ctx.trusted += ["tools/pyrx.py + tools/gen_thermo.py (AST translator, writer facts)",
                    "Interval tactic (certified evaluation; uses kernel primitive "
                    "floats/ints)"]
    # --- stub models: direct property checks + certified correspondence -------------
    nmodels = ctx.n(3, 24)
    ndirect = ctx.n(40, 600)
    rng = ctx.rng
    files = []
    for m in range(ndirect):
        # every random choice is drawn whether or not the proofs went through, so that a
        # broken proof does not change the inputs of the search
        cH, rH = rand_stub(rng)
        cL, rL = rand_stub(rng)
        tlist = {ph: temps(rng, *r) for ph, r in (("High", rH), ("Low", rL))} \
            if m < nmodels else None
        hrng = random.Random(rng.random())
        case = dict(cHigh=jfr(cH), rangeHigh=jfr(rH), cLow=jfr(cL), rangeLow=jfr(rL))
        th = wgmodels.stub_thermodynamics(cH, rH, cL, rL, float(rH[0]))
        try:
            th.setExtrapolate()
            direct_checks(ctx, th, "stub", case)
            hypotheses_hold(ctx, th, "stub")
        except Exception as ex:
            ctx.fail_input("Thermodynamics raised %r" % ex, dict(kind="raise", case=case),
                           key="raises")
            continue
        ctx.count("stub_model", case, bucket="TMaxLow%sTMaxHigh" % (
            ">" if rL[1] > rH[1] else "<="))
        if m < nmodels:
            rows = []
            for ph, r in (("High", rH), ("Low", rL)):
                for T in tlist[ph]:
                    vals = impl_values(th, T)
                    for fn in ("p", "dp", "ddp", "csq", "e", "w"):
                        rows.append((fn + ph + "T", T, vals[fn + ph + "T"]))
            Tmid = rH[0] + (rH[1] - rH[0]) / 2
            rows.append(("alpha", Tmid, impl_values(th, Tmid)["alpha"]))
            if proved:
                files.append((m, case, rows,
                              ctx.write("Cases/Eval_%d.v" % m,
                                        eval_file(m, cH, rH, cL, rL, rows))))
            if m == 0:
                ctx.sample(dict(stub=case, some_values=[(r[0], str(r[1]), r[2])
                                                        for r in rows[:6]]))
        try:
            stub_history(ctx, th, hrng, case)
        except Exception as ex:
            ctx.log(traceback.format_exc())
            ctx.fail_input("Thermodynamics raised %r during a history on one object" % ex,
                           dict(kind="raise", case=case), key="raises:history")
    # compile the certified evaluations, at most 8 at a time
    pending = list(files)
    running = []

    def reap(m, case, rows, p, pr):
        out, err = pr.communicate()
        for _ in rows:
            ctx.count("certified_eval")
        if pr.returncode == 124:
            ctx.broken.append("correspondence: certified evaluation Eval_%d timed out" % m)
        elif pr.returncode != 0:
            ctx.broken.append("correspondence: certified evaluation Eval_%d" % m)
            ctx.log("certified evaluation failed", vlib.tail(err, 6))
            mm = re.search(r"line (\d+)", err)
            if mm:
                txt = open(p).read().splitlines()
                ln = min(int(mm.group(1)), len(txt))
                goal = next((txt[k] for k in range(ln - 1, -1, -1)
                             if txt[k].startswith("Goal")), "?")
                ctx.log("failing row:", goal)
                k = [g for g in range(len(rows)) if (" %s e0" % rows[g][0]) in goal
                     and (" %s - " % pyrx.rlit(rows[g][1])) in goal]
                if k:
                    fn, T, y = rows[k[0]]
                    ctx.fail_input("%s(%s) = %r on the implementation is not the value of "
                                   "the generated model (certified interval evaluation)" % (
                                       fn, T, y),
                                   dict(kind="model_vs_impl", fn=fn, T=str(T), impl=y,
                                        case=case), key="model-vs-impl:" + fn)
            ctx.log("model", json.dumps(case))

    while pending or running:
        while pending and len(running) < 8:
            m, case, rows, p = pending.pop(0)
            running.append((m, case, rows, p, subprocess.Popen(
                ["timeout", "900", "coqc"] + ctx.coq_args() + [p], cwd=ctx.bdir,
                stdout=subprocess.PIPE, stderr=subprocess.PIPE, text=True)))
        reap(*running.pop(0))
    # --- traced potentials ------------------------------------------------------------
    for it in range(ctx.n(2, 10)):
        trng = random.Random(rng.random())
        try:
            traced_model(ctx, trng, variant=it % 2)
        except Exception as ex:
            ctx.log("traced model raised", traceback.format_exc())
            ctx.fail_input("tracing / evaluating a traced model raised %r" % ex,
                           dict(kind="raise_traced", variant=it % 2), key="raises:traced")
    ctx.cov["rule"] = (
        "stub models: random dyadic free energies k0+k2T^2-k3T^3-k4T^4 with independent "
        "ranges for the two phases (both orderings of the upper ends occur); each model "
        "is probed at 17 temperatures per phase from 0.2 TMin to 7 TMax (5e-6-close to the "
        "ends included) plus 1e-9-close points on both sides of all four range ends, then "
        "taken through a history on the same object (setExtrapolate twice, "
        "findCriticalTemperature/_getCoexistenceRange, ranges moved, setExtrapolate) and "
        "compared bit for bit with a fresh object on the same tables; distinct = distinct "
        "coefficient/range tuple; traced models use the real FreeEnergy.tracePhase with "
        "random Tn and windows, three traces on the same objects")
    ctx.assumptions += [
        "the interpolation spline and its derivative(order) are a C2 function and its "
        "derivatives (external: scipy CubicSpline; central differences at the probe points "
        "and at table nodes)",
        "w>0 and de/dT>0 at the ends of each tabulated range (hypotheses of the theorems; "
        "asserted on every stub and traced object, counted under hypotheses_*)",
        "the tables are -Veff at the traced minimum (property C11; here only compared with "
        "the closed form on windows that stop short of both spinodals)"]


def replay(rep):
    print(json.dumps(rep, indent=1))
    c = rep.get("case", {})
    if "cHigh" in c:
        f = lambda l: [Fraction(x) for x in l]
        th = wgmodels.stub_thermodynamics(f(c["cHigh"]), f(c["rangeHigh"]), f(c["cLow"]),
                                          f(c["rangeLow"]), 1.0)
        th.setExtrapolate()
        T = rep.get("T")
        if T:
            for d in (-1e-9, 0, 1e-9):
                print("T=%r" % (T * (1 + d)), impl_values(th, T * (1 + d)))
    return 0
