"""C10 -- equation of state: thermodynamic consistency and smooth extrapolation."""
import json
import math
import os
import random
import re
import subprocess
import time
import traceback
from fractions import Fraction

import numpy as np

import gen_thermo
import pyrx
import vlib
import wgmodels

EXPLANATION = (
    "The whole Thermodynamics class (all piecewise EOS functions of both phases, alpha, and "
    "setExtrapolate as a state transformer) is regenerated from thermodynamics.py by the pyrx "
    "translator on every run; Coq proves, for EVERY free-energy table with positive enthalpy "
    "and heat capacity at the range ends and for every prior state: e=Tp'-p, w=Tp', de=Tp'' at "
    "all T; cs2=p'/e' at every T>0; p', p'' are the derivatives of p and de/dT the derivative "
    "of e at EVERY T>0 (below, inside, above the table and at the two junction temperatures "
    "themselves); p, p', p'', cs2 are continuous (two-sided) at both range ends; p=-f inside; "
    "alpha is assembled as documented; and two frame theorems over facts extracted from every "
    "file under src/WallGo (only __init__/setExtrapolate write the modelled state; no method "
    "is rebound on an instance, on the class, in a subclass or through a base class, and the "
    "two free-energy members are bound by __init__ only). Model values are compared with the "
    "running implementation by certified interval evaluation (also when a later lemma of the "
    "Props file breaks); the property is also evaluated directly on the implementation with "
    "stub and traced free energies, each object taken through a history (values read before "
    "the first trace and beyond the spinodals, setExtrapolate repeated, other methods called, "
    "phases re-traced over other windows and with other settings, the potential's parameters "
    "changed in place) and compared bit for bit with objects built afresh from the "
    "constructor arguments (Thermodynamics on the same tables, FreeEnergy traced with the "
    "same arguments) and with the closed form of the CURRENT potential.")

FUNS = ["p", "dp", "ddp", "e", "de", "w", "csq"]


def rand_stub(rng):
    """f(T) = k0 + k2 T^2 - k3 T^3 - k4 T^4 (small dyadic coefficients) and a range on
    which f' < 0 and f'' < 0"""
    k4 = Fraction(rng.randint(4, 40), 4)
    k3 = Fraction(rng.randint(0, 8), 8)
    k2 = Fraction(rng.randint(0, 24), 2)
    k0 = Fraction(rng.randint(-20, 20))
    tmin2 = k2 / k4 + Fraction(1, 4)
    tmin = Fraction(math.ceil(math.sqrt(float(tmin2)) * 8 + 1), 8) + Fraction(
        rng.randint(0, 16), 8)
    tmax = tmin + Fraction(rng.randint(2, 40), 8)
    return [k0, Fraction(0), k2, -k3, -k4], (tmin, tmax)


def coq_poly(c, order=0):
    c = list(c)
    for _ in range(order):
        c = [k * i for i, k in enumerate(c)][1:]
    terms = []
    for i, k in enumerate(c):
        if k == 0:
            continue
        terms.append("%s * T ^ %d" % (pyrx.rlit(k), i) if i else pyrx.rlit(k))
    return "(fun T : R => %s)" % (" + ".join(terms) if terms else "0")


def temps(rng, lo, hi):
    lo, hi = Fraction(lo), Fraction(hi)
    return [lo * Fraction(rng.randint(2, 7), 8), lo - Fraction(1, 64), lo,
            lo + (hi - lo) * Fraction(rng.randint(1, 7), 8), hi, hi + Fraction(1, 64),
            hi * Fraction(rng.randint(9, 40), 8)]


def impl_values(th, T):
    T = float(T)
    out = {}
    for ph in ("High", "Low"):
        for fn in FUNS:
            out[fn + ph + "T"] = float(getattr(th, fn + ph + "T")(T))
    out["alpha"] = float(th.alpha(T))
    return out


def margin(ctx, clause, observed, allowed, at=None):
    """worst observed/allowed per clause, kept in the evidence (coverage.tolerance_margins)"""
    observed, allowed = float(observed), float(allowed)
    fr = observed / allowed if allowed > 0 else (0.0 if observed == 0 else math.inf)
    if fr != fr:
        fr = math.inf
    m = ctx.cov.setdefault("tolerance_margins", {})
    r = m.get(clause)
    if r is None:
        r = m[clause] = dict(worst_used_fraction=-1.0, evaluations=0)
    r["evaluations"] += 1
    if fr > r["worst_used_fraction"]:
        r.update(worst_used_fraction=float("%.3g" % fr), observed=float("%.6g" % observed),
                 allowed=float("%.6g" % allowed), at=at)
    return fr <= 1.0


def direct_checks(ctx, th, label, case, extra=None):
    """The property evaluated on the implementation object `th` (after setExtrapolate).
    extra: {phase: [temperatures]} additional probe points (e.g. table nodes)."""
    ok = True
    for ph in ("High", "Low"):
        lo = getattr(th, "TMin" + ph + "T")
        hi = getattr(th, "TMax" + ph + "T")
        p, dp, ddp = (getattr(th, f + ph + "T") for f in ("p", "dp", "ddp"))
        e, de, w, csq = (getattr(th, f + ph + "T") for f in ("e", "de", "w", "csq"))
        grid = [lo * x for x in (0.2, 0.5, 0.9, 0.999)] + \
            [lo + (hi - lo) * x for x in (0.0, 0.1, 0.5, 0.9, 1.0)] + \
            [hi * x for x in (1.001, 1.1, 2.0, 7.0)] + \
            [lo * (1 - 5e-6), lo * (1 + 5e-6), hi * (1 - 5e-6), hi * (1 + 5e-6)] + \
            list((extra or {}).get(ph, []))
        for T in grid:
            vals = dict(p=float(p(T)), dp=float(dp(T)), ddp=float(ddp(T)), e=float(e(T)),
                        de=float(de(T)), w=float(w(T)), csq=float(csq(T)))
            ctx.count("direct_" + label)
            bad = None
            if not all(math.isfinite(v) for v in vals.values()):
                ok = False
                ctx.fail_input("%sT(%.6g): non-finite value %s [%s]" % (
                    ph, T, {k: v for k, v in vals.items() if not math.isfinite(v)},
                    label), dict(kind="nonfinite", phase=ph, T=T, values=vals, case=case),
                    key="nonfinite:" + ph)
                continue
            sc = abs(vals["p"]) + abs(T * vals["dp"]) + 1e-300
            at = "%sT(%.9g) [%s]" % (ph, T, label)
            mg = lambda cl, o, a: margin(ctx, cl + " [" + label.split("_")[0] + "]", o, a, at)
            if not mg("e = T dp - p", abs(vals["e"] - (T * vals["dp"] - vals["p"])),
                      1e-10 * sc):
                bad = "e != T dp - p"
            elif not mg("w = T dp", abs(vals["w"] - T * vals["dp"]), 1e-10 * sc):
                bad = "w != T dp"
            elif not mg("csq = dp/de", abs(vals["csq"] - vals["dp"] / vals["de"]),
                        1e-8 * abs(vals["csq"])):
                bad = "csq != dp/de"
            else:
                # reported derivatives vs central differences (away from the junctions)
                # central differences with a small step: inside the table p is a cubic
                # spline, so across a knot the difference quotient of dp is off by about
                # h/4 times the jump of the third derivative (seen as a false alarm at
                # h = 1e-5 T on a noisy non-paranoid table); rounding costs ~1e-16 |p| / h.
                # (a node of a table whose first steps are 1e-4 apart showed the same effect
                # at h = 1e-6 T, marginally); h = 1e-8 T keeps the knot term below 1e-7
                # relative and rounding at ~1e-8 (p + T dp) / T
                h = 1e-8 * T
                if min(abs(T - lo), abs(T - hi)) > 2 * h:
                    d1 = (float(p(T + h)) - float(p(T - h))) / (2 * h)
                    d2 = (float(dp(T + h)) - float(dp(T - h))) / (2 * h)
                    if not mg("dp is the derivative of p", abs(d1 - vals["dp"]),
                              3e-6 * abs(vals["dp"]) + 1e-7 * sc / T):
                        bad = "dp is not the derivative of p"
                    elif not mg("ddp is the derivative of dp", abs(d2 - vals["ddp"]),
                                3e-6 * abs(vals["ddp"]) + 1e-7 * sc / T ** 2):
                        bad = "ddp is not the derivative of dp"
            if bad:
                ok = False
                ctx.fail_input("%sT(%.6g): %s [%s]" % (ph, T, bad, label),
                               dict(kind="identity", phase=ph, T=T, values=vals,
                                    case=case, what_fails=bad),
                               key="identity:%s:%s" % (ph, bad))
        # continuity across both ends
        for end, Tb in (("TMin", lo), ("TMax", hi)):
            d = 1e-9 * Tb
            # scale of each quantity: its own size plus T times its derivative (p may pass
            # through zero at a range end: |p| alone is no scale)
            pe, dpe, ddpe = abs(float(p(Tb))), abs(float(dp(Tb))), abs(float(ddp(Tb)))
            for fn, f, scale in (("p", p, pe + Tb * dpe), ("dp", dp, dpe + Tb * ddpe),
                                 ("ddp", ddp, ddpe + dpe / Tb), ("csq", csq, 0.0)):
                a, b0, c = float(f(Tb - d)), float(f(Tb)), float(f(Tb + d))
                ref = abs(b0) + scale + 1e-300
                ctx.count("continuity_" + label)
                if not margin(ctx, "continuity of %s at the range ends [%s]" % (
                        fn, label.split("_")[0]), max(abs(a - b0), abs(c - b0)), 1e-6 * ref,
                        "%s%sT at %s=%.9g [%s]" % (fn, ph, end, Tb, label)):
                    ok = False
                    ctx.fail_input(
                        "%s%sT jumps across %s%sT=%.8g: %.12g | %.12g | %.12g [%s]" % (
                            fn, ph, end, ph, Tb, a, b0, c, label),
                        dict(kind="jump", fn=fn, phase=ph, end=end, T=Tb,
                             values=[a, b0, c], case=case),
                        key="jump:%s%s@%s" % (fn, ph, end))
    return ok


def jfr(x):
    return [str(Fraction(v)) for v in x]


RANGE_ATTRS = (("TMaxHighT", "freeEnergyHigh", "maxPossibleTemperature"),
               ("TMinHighT", "freeEnergyHigh", "minPossibleTemperature"),
               ("TMaxLowT", "freeEnergyLow", "maxPossibleTemperature"),
               ("TMinLowT", "freeEnergyLow", "minPossibleTemperature"))


_DUMMY = []


def stub_ctor(Tn):
    """constructor arguments for an object whose tables are then replaced by analytic stubs"""
    from WallGo import Fields
    if not _DUMMY:
        _DUMMY.append(wgmodels.quartic1())
    return (_DUMMY[0], float(Tn), Fields([1.0]), Fields([0.0]))


def on_tables(ctor, feHigh, feLow):
    """A Thermodynamics object built by its own CONSTRUCTOR from `ctor` (so everything
    __init__ sets up -- per-instance caches, wrappers, bookkeeping -- is there and fresh), with
    the two free-energy members replaced by the given tables and the four range attributes
    re-read from them, i.e. the state __init__ would have left had it been given these tables"""
    from WallGo import Thermodynamics
    t2 = Thermodynamics(*ctor)
    t2.freeEnergyHigh, t2.freeEnergyLow = feHigh, feLow
    for a, fe, lim in RANGE_ATTRS:
        setattr(t2, a, getattr(getattr(t2, fe), lim)[0])
    return t2


def make_stub(cHigh, rngHigh, cLow, rngLow, Tn):
    """a real Thermodynamics object (constructed by __init__) on two analytic tables"""
    return on_tables(stub_ctor(Tn), wgmodels.StubFreeEnergy(cHigh, *rngHigh),
                     wgmodels.StubFreeEnergy(cLow, *rngLow))


def fresh_twin(th, ctor):
    """A new Thermodynamics object built from the constructor arguments on the SAME two
    free-energy objects, after one setExtrapolate(): what `th` must be indistinguishable from
    whatever its history was (caches, stale copies, order dependence show up here; nothing is
    copied from th.__dict__, so state hidden there cannot leak into the twin)."""
    t2 = on_tables(ctor, th.freeEnergyHigh, th.freeEnergyLow)
    t2.setExtrapolate()
    return t2


def same(x, y):
    return x == y or (x != x and y != y)


def probe_temps(th, absolute=()):
    out = list(absolute)
    for ph in ("High", "Low"):
        lo, hi = getattr(th, "TMin" + ph + "T"), getattr(th, "TMax" + ph + "T")
        out += [0.5 * lo, lo, lo + 0.37 * (hi - lo), hi, 1.5 * hi]
    return [float(t) for t in out if t > 0 and math.isfinite(t)]


def twin_check(ctx, th, label, case, absolute=(), ctor=None):
    """bit-equal with a fresh object on the same tables, at the same temperatures"""
    t2 = fresh_twin(th, ctor)
    for a in gen_thermo.ATTRS:
        ctx.count("twin_" + label)
        if not same(float(getattr(th, a)), float(getattr(t2, a))):
            ctx.fail_input("after its history the object's %s = %r, a fresh object on the "
                           "same tables has %r [%s]" % (a, getattr(th, a), getattr(t2, a),
                                                        label),
                           dict(kind="twin_attr", attr=a, case=case), key="history:attr:" + a)
    for T in probe_temps(th, absolute):
        v1, v2 = impl_values(th, T), impl_values(t2, T)
        for k in v1:
            ctx.count("twin_" + label)
            if not same(v1[k], v2[k]):
                ctx.fail_input("%s(%.9g) = %r after the object's history, %r on a fresh "
                               "object built on the same tables [%s]" % (k, T, v1[k], v2[k],
                                                                         label),
                               dict(kind="twin", fn=k, T=T, got=v1[k], fresh=v2[k], case=case),
                               key="history:differs-from-fresh-object:" + k)
                return False
    return True


def hypotheses_hold(ctx, th, label):
    """the hypotheses of the theorems (positive enthalpy and heat capacity at the ends of both
    tabulated ranges) asserted on the object itself"""
    ok = True
    for ph in ("High", "Low"):
        lo, hi = getattr(th, "TMin" + ph + "T"), getattr(th, "TMax" + ph + "T")
        dp, ddp = getattr(th, "dp" + ph + "T"), getattr(th, "ddp" + ph + "T")
        good = 0 < lo < hi and all(float(dp(x)) > 0 and float(ddp(x)) > 0 for x in (lo, hi))
        ctx.count("hypotheses_" + label, bucket="hold" if good else "outside proven domain")
        if not good:
            ctx.log("NOTE %s phase of a %s model is outside the theorems' hypotheses "
                    "(w>0, de/dT>0 at the range ends)" % (ph, label))
        ok = ok and good
    return ok


def eval_file(model_id, cH, rH, cL, rL, rows, module="Props_C10"):
    """Coq file with certified interval evaluations for one stub model."""
    hdr = """From Coq Require Import Reals Lra.
From Interval Require Import Tactic.
From WG Require Import Lib.NumpySem Lib.EosTemplate.
From GenC10 Require Import Thermo %s.
Local Open Scope R_scope.
Definition e0 := mk_env %s %s %s %s %s %s %s %s %s %s.
Definition s00 := mk_st 0 0 0 0 0 0 0 0 0 0 0 0 0 0 0 0.
Lemma hypH : tabMinHigh e0 < tabMaxHigh e0 /\\ 0 < tabMinHigh e0 /\\
  dfHigh e0 (tabMinHigh e0) < 0 /\\ ddfHigh e0 (tabMinHigh e0) < 0 /\\
  dfHigh e0 (tabMaxHigh e0) < 0 /\\ ddfHigh e0 (tabMaxHigh e0) < 0.
Proof. cbn. repeat split; lra. Qed.
Lemma hypL : tabMinLow e0 < tabMaxLow e0 /\\ 0 < tabMinLow e0 /\\
  dfLow e0 (tabMinLow e0) < 0 /\\ ddfLow e0 (tabMinLow e0) < 0 /\\
  dfLow e0 (tabMaxLow e0) < 0 /\\ ddfLow e0 (tabMaxLow e0) < 0.
Proof. cbn. repeat split; lra. Qed.
Ltac ev :=
  destruct hypH as [H1 [H2 [H3 [H4 [H5 H6]]]]];
  destruct hypL as [L1 [L2 [L3 [L4 [L5 L6]]]]];
  destruct (extrapolation_matched_High e0 s00 H1 H2 H3 H4 H5 H6) as [[Hmu [HA Heps]] [Hmu' [HA' Heps']]];
  destruct (extrapolation_matched_Low e0 s00 L1 L2 L3 L4 L5 L6) as [[Lmu [LA Leps]] [Lmu' [LA' Leps']]];
  destruct (S_range_High e0 s00) as [Ra Rb]; destruct (S_range_Low e0 s00) as [Qa Qb];
  repeat progress unfold alpha, eHighT, wHighT, eLowT, wLowT, deHighT, deLowT;
  rewrite ?deHighT_is_DE, ?deLowT_is_DE;
  rewrite ?pHighT_is_P, ?dpHighT_is_DP, ?ddpHighT_is_DDP, ?csqHighT_is_CSQ,
          ?pLowT_is_P, ?dpLowT_is_DP, ?ddpLowT_is_DDP, ?csqLowT_is_CSQ;
  rewrite ?Ra, ?Rb, ?Qa, ?Qb;
  unfold P, DP, DDP, CSQ, DE, DDP, DP;
  cbn [tabMinHigh tabMaxHigh tabMinLow tabMaxLow e0];
  repeat match goal with |- context [Rlt_dec ?x ?y] => destruct (Rlt_dec x y); try lra end;
  rewrite ?Heps, ?Heps', ?HA, ?HA', ?Hmu, ?Hmu', ?Leps, ?Leps', ?LA, ?LA', ?Lmu, ?Lmu';
  cbn [fHigh dfHigh ddfHigh fLow dfLow ddfLow tabMinHigh tabMaxHigh tabMinLow tabMaxLow e0];
  interval with (i_prec 90).
""" % (module, coq_poly(cH), coq_poly(cL), coq_poly(cH, 1), coq_poly(cH, 2), coq_poly(cL, 1),
       coq_poly(cL, 2), pyrx.rlit(rH[1]), pyrx.rlit(rH[0]), pyrx.rlit(rL[1]),
       pyrx.rlit(rL[0]))
    goals = []
    for fn, T, y in rows:
        q = Fraction(y)
        tol = abs(q) * Fraction(1, 10 ** 9) + Fraction(1, 10 ** 12)
        call = "alpha e0 (setExtrapolate e0 s00) %s" % pyrx.rlit(T) if fn == "alpha" \
            else "%s e0 (setExtrapolate e0 s00) %s" % (fn, pyrx.rlit(T))
        goals.append("Goal Rabs (%s - %s) <= %s.\nProof. ev. Qed." % (
            call, pyrx.rlit(q), pyrx.rlit(tol)))
    return hdr + "\n".join(goals) + "\n"


def make_quartic(par):
    """V = D (T^2 - T0^2) phi^2 - E T phi^3 + lam/4 phi^4 - g pi^2/90 T^4 whose parameters live
    on the object (`par`) and may be changed in place, as a parameter scan that keeps its
    objects does"""
    from WallGo import EffectivePotential, Fields

    class Quartic(EffectivePotential):
        fieldCount = 1
        effectivePotentialError = 1e-15

        def __init__(self, par):
            super().__init__()
            self.par = dict(par)

        def evaluate(self, fields, temperature):
            q = self.par
            phi = Fields(fields).getField(0)
            T = np.asarray(temperature)
            return (q["D"] * (T ** 2 - q["T0"] ** 2) * phi ** 2 - q["E"] * T * phi ** 3
                    + q["lam"] / 4 * phi ** 4 - q["g"] * math.pi ** 2 / 90 * T ** 4)

    return Quartic(par)


def quartic_closed(par):
    """closed forms of both phases of make_quartic(par): spinodals, Tc, minimum, and the
    equation of state p, dp/dT, d2p/dT2 (envelope theorem) and alpha"""
    D, E, lam, T0, g = (par[k] for k in ("D", "E", "lam", "T0", "g"))
    ex = wgmodels.quartic1_exact(D=D, E=E, lam=lam, T0=T0, g=g)
    a = g * math.pi ** 2 / 90
    phi = ex["phi_broken"]

    def dphi(T):
        disc = 9 * E ** 2 * T ** 2 - 8 * lam * D * (T ** 2 - T0 ** 2)
        return (3 * E + (9 * E ** 2 - 8 * lam * D) * T / math.sqrt(disc)) / (2 * lam)

    def eos(ph, T):
        if ph == "High":
            return a * T ** 4, 4 * a * T ** 3, 12 * a * T ** 2
        f, df = phi(T), dphi(T)
        return (-ex["V"](f, T), -(2 * D * T * f ** 2 - E * f ** 3 - 4 * a * T ** 3),
                -(2 * D * f ** 2 + (4 * D * T * f - 3 * E * f ** 2) * df - 12 * a * T ** 2))

    def alpha(T):
        pH, dpH, _ = eos("High", T)
        pL, dpL, ddpL = eos("Low", T)
        return ((T * dpH - pH) - (T * dpL - pL) - (pH - pL) / (dpL / (T * ddpL))) / (3 * T * dpH)

    ex.update(eos=eos, alpha=alpha, phi=dict(High=lambda T: 0.0, Low=phi))
    return ex


def fe_twin_check(ctx, fe, which, ctor, adaptive_off, limits, args, kw, case):
    """A twin one level down: a FreeEnergy built afresh from the CONSTRUCTOR arguments, given the
    limits the object had before the call, and traced with the same arguments on the potential
    as it is NOW must end up with the same table, limits and starting point, bit for bit.
    (State kept inside the free-energy objects -- warm starts, tables kept from an earlier
    trace, settings remembered -- is invisible to a Thermodynamics twin that shares them.)"""
    from WallGo.freeEnergy import FreeEnergy
    from WallGo import Fields
    f2 = FreeEnergy(ctor[0], ctor[1], Fields(np.array(ctor[2], dtype=float)))
    if adaptive_off:
        f2.disableAdaptiveInterpolation()
    f2.minPossibleTemperature = list(limits[0])
    f2.maxPossibleTemperature = list(limits[1])
    f2.tracePhase(*args, **kw)
    arr = lambda x: np.asarray(x, dtype=float)
    items = [("startingTemperature", fe.startingTemperature, ctor[1]),
             ("startingPhaseLocationGuess", fe.startingPhaseLocationGuess, ctor[2]),
             ("minPossibleTemperature", fe.minPossibleTemperature, f2.minPossibleTemperature),
             ("maxPossibleTemperature", fe.maxPossibleTemperature, f2.maxPossibleTemperature),
             ("_interpolationPoints", fe._interpolationPoints, f2._interpolationPoints),
             ("_interpolationValues", fe._interpolationValues, f2._interpolationValues)]
    ok = True
    for name, x, y in items:
        ctx.count("free_energy_twin")
        x, y = arr(x), arr(y)
        if name == "startingPhaseLocationGuess":
            x, y = x.ravel(), y.ravel()
        if x.shape != y.shape or not np.array_equal(x, y, equal_nan=True):
            ok = False
            if x.shape == y.shape and x.size:
                k = int(np.argmax(np.abs(np.where(x == y, 0.0, x - y)).ravel()))
                d = "entry %d: %r vs %r" % (k, x.ravel()[k], y.ravel()[k])
            else:
                d = "shapes %s vs %s" % (x.shape, y.shape)
            ctx.fail_input(
                "after its history freeEnergy%s.%s differs from a FreeEnergy built afresh from "
                "the constructor arguments and traced with the same arguments tracePhase%s %s "
                "on the current potential (%s) [%s]" % (which, name, tuple(args), kw, d,
                                                        case.get("stage")),
                dict(kind="fe_twin", phase=which, attr=name, args=list(args), kwargs=kw,
                     limits_before=[list(limits[0]), list(limits[1])], case=case),
                key="history:free-energy-differs-from-fresh-trace:" + name)
    return ok


def traced_model(ctx, rng, variant=0):
    """End to end: real FreeEnergy tables traced on the closed-form quartic potential, ONE
    Thermodynamics object taken through a history:
      0. before any table exists every EOS function is read on a grid that runs beyond a
         spinodal (variant 0: upwards beyond the end of the low-T phase, adaptive interpolation
         switched off as WallGoManager does; variant 1: downwards to below T0, defaults) and
         judged against the closed form where the phase exists;
      1. first trace (variant 0 paranoid, variant 1 non-paranoid with a very tight tolerance:
         the re-minimisation branch of the tracer fires at most steps), other methods;
      2. a parameter of the potential is changed IN PLACE and both phases are traced again over
         the SAME windows with the SAME settings, limits not lifted (a parameter scan that
         keeps its objects), judged against the closed form of the CURRENT parameters;
      3. (variant 0) limits lifted, both phases re-traced wider with another dT, rTol and
         paranoid off, then narrower and shifted with yet other settings, other methods.
    After every trace the free-energy object is compared with a fresh one traced with the same
    arguments; after every stage the identities, continuity, p = -Veff(min), alpha and the
    comparison with a Thermodynamics object built afresh on the same tables are evaluated."""
    import WallGo
    from WallGo import Fields, Thermodynamics
    D = rng.choice([0.15, 0.2, 0.3])
    E = rng.choice([0.03, 0.05])
    lam = rng.choice([0.08, 0.1])
    T0 = rng.choice([60.0, 80.0])
    uTn, uLoH, uHiH, uLoL = (rng.uniform(0.3, 0.8), rng.uniform(0.1, 0.6),
                             rng.uniform(1.0, 1.1), rng.uniform(0.95, 1.0))
    which_par = rng.choice(["D", "E"])
    delta = rng.uniform(0.02, 0.05)
    par = dict(D=D, E=E, lam=lam, T0=T0, g=100.0)
    pot = make_quartic(par)
    cur = dict(ex=quartic_closed(pot.par))
    ex0 = cur["ex"]
    pot.configureDerivatives(WallGo.VeffDerivativeSettings(
        temperatureVariationScale=1.0, fieldValueVariationScale=10.0))
    # T0 (spinodal of the symmetric phase) < Tn < Tc < spinodal of the broken phase, and the
    # start of every traced window lies strictly between T0 and Tn (tracePhase starts at Tn)
    Tc0, Tsp0 = ex0["Tc"], ex0["Tspin_broken"]
    Tn = T0 + uTn * (Tc0 - T0)
    guess = dict(Low=[ex0["phi_broken"](Tn)], High=[0.0])
    ctor = (pot, Tn, Fields(list(guess["Low"])), Fields(list(guess["High"])))
    th = Thermodynamics(pot, Tn, Fields(list(guess["Low"])), Fields(list(guess["High"])))
    dT = 0.004 * Tn
    paranoid = variant == 0
    rTol = 1e-8 if variant == 0 else 1e-12
    case = dict(model="quartic", D=D, E=E, lam=lam, T0=T0, Tn=Tn, paranoid=paranoid,
                rTol=rTol, variant=variant, changed=[which_par, delta])
    loH = T0 + uLoH * (Tn - T0)
    absolute = [0.5 * T0, loH, Tn, Tc0, Tsp0 * 0.999, Tsp0 * 1.2, 3.0 * T0]
    adaptive_off = variant == 0
    if adaptive_off:
        for fe in (th.freeEnergyHigh, th.freeEnergyLow):
            fe.disableAdaptiveInterpolation()          # as WallGoManager does

    def trace(which, stage, lo, hi, step, **kw):
        fe = getattr(th, "freeEnergy" + which)
        limits = (list(fe.minPossibleTemperature), list(fe.maxPossibleTemperature))
        fe.tracePhase(lo, hi, step, **kw)
        ctx.count("tracePhase_called", bucket="paranoid=%s" % kw.get("paranoid", True))
        if variant == 1 and which == "High":
            # the symmetric phase traced non-paranoid at rTol 1e-12 takes ~8000 steps (the
            # integrator chases rounding noise around phi = 0): no second trace for the twin
            return
        fe_twin_check(ctx, fe, which, (pot, Tn, guess[which]), adaptive_off, limits,
                      (lo, hi, step), kw, dict(case, stage=stage, par=dict(pot.par)))

    def closed_form(stage, c2):
        """p = -Veff at the (closed-form) minimum of the CURRENT potential inside the TABLE's
        range (taken from the free-energy objects, not from the copies th keeps): between
        nodes and AT the nodes; alpha where both tables cover the temperature"""
        ex = cur["ex"]
        rng_ = {}
        for ph, fe in (("High", th.freeEnergyHigh), ("Low", th.freeEnergyLow)):
            lo, hi = fe.minPossibleTemperature[0], fe.maxPossibleTemperature[0]
            rng_[ph] = (lo, hi)
            nn = [float(t) for t in np.asarray(fe._interpolationPoints).ravel() if lo < t < hi]
            for T in [lo + (hi - lo) * x for x in (0.0, 0.05, 0.3, 0.6, 0.95, 1.0)] + \
                    nn[::max(1, len(nn) // 12)]:
                want = -ex["V"](ex["phi"][ph](T), T)
                got = float(getattr(th, "p" + ph + "T")(T))
                ctx.count("p_in_range_traced")
                if not margin(ctx, "p = -Veff(min) in range, %s [traced]" % ph,
                              abs(got - want), 1e-7 * abs(want),
                              "p%sT(%.9g) [%s]" % (ph, T, stage)):
                    ctx.fail_input(
                        "p%sT(%g) = %r but -Veff(min) = %r [%s]" % (ph, T, got, want, stage),
                        dict(kind="p_in_range", case=c2, T=T, got=got, want=want),
                        key="p-in-range:" + ph)
                    break
        lo, hi = max(rng_["High"][0], rng_["Low"][0]), min(rng_["High"][1], rng_["Low"][1])
        pts = [Tn] if lo <= Tn <= hi else []
        if lo < hi:
            pts.append(lo + 0.5 * (hi - lo))
        for T in pts:
            got, want = float(th.alpha(T)), ex["alpha"](T)
            ctx.count("alpha_traced")
            if not margin(ctx, "alpha vs closed form [traced]", abs(got - want),
                          2e-3 * abs(want), "alpha(%.9g) [%s]" % (T, stage)):
                ctx.fail_input("alpha(%.9g) = %r but the closed form of the two phases gives "
                               "%r [%s]" % (T, got, want, stage),
                               dict(kind="alpha", case=c2, T=T, got=got, want=want),
                               key="alpha-closed-form")

    def check(stage):
        c2 = dict(case, stage=stage, par=dict(pot.par))
        # where Tn lies inside the old range copy AND inside the new table of a phase, the
        # values at Tn do not depend on the extrapolation parameters, so they are the same
        # before and after the call (the tracer may stop short of Tn near a spinodal: then
        # Tn is extrapolated and nothing is claimed)
        before = {}
        if stage != "first trace":
            for ph, fe in (("High", th.freeEnergyHigh), ("Low", th.freeEnergyLow)):
                if getattr(th, "TMin" + ph + "T") <= Tn <= getattr(th, "TMax" + ph + "T") and \
                        fe.minPossibleTemperature[0] <= Tn <= fe.maxPossibleTemperature[0]:
                    for f in ("p", "dp", "ddp"):
                        before[f + ph] = float(getattr(th, f + ph + "T")(Tn))
        th.setExtrapolate()
        if before:
            for k, v in before.items():
                ctx.count("before_after_setExtrapolate")
                w = float(getattr(th, k + "T")(Tn))
                if not same(v, w):
                    ctx.fail_input("%sT(Tn) = %r before setExtrapolate(), %r after [%s]" % (
                        k, v, w, stage), dict(kind="before_after", case=c2, fn=k),
                        key="history:before-after:" + k)
        hypotheses_hold(ctx, th, "traced")
        nodes = {}
        for ph, fe in (("High", th.freeEnergyHigh), ("Low", th.freeEnergyLow)):
            lo, hi = fe.minPossibleTemperature[0], fe.maxPossibleTemperature[0]
            kn = [float(t) for t in np.asarray(fe._interpolationPoints).ravel()]
            # (nodes closer than 1e-5 T to a neighbour are not probed: around the starting
            # temperature a tight tolerance makes the integrator take steps of ~1e-7, and
            # central differences across such a cluster measure the rounding noise of the
            # tabulated values divided by the cube of the spacing, not the spline)
            nn = [t for i, t in enumerate(kn) if lo < t < hi and 0 < i < len(kn) - 1
                  and min(t - kn[i - 1], kn[i + 1] - t) >= 1e-5 * t]
            # table nodes and the SAME absolute temperatures in every stage (not Tn itself: the
            # integrator's first steps away from the starting temperature are tiny, and
            # central differences across knots ~1e-7 apart measure the tracer's noise, not
            # the spline's derivative; Tn stays among the twin's probe temperatures)
            nodes[ph] = nn[::max(1, len(nn) // 12)] + [t for t in absolute if t != Tn]
        direct_checks(ctx, th, "traced", c2, extra=nodes)
        twin_check(ctx, th, "traced", c2, absolute, ctor=ctor)
        th.setExtrapolate()
        twin_check(ctx, th, "traced_twice", c2, absolute, ctor=ctor)
        closed_form(stage, c2)

    def other_methods(stage):
        """methods a user (and the manager) calls between setExtrapolate and the reads must
        leave the equation of state alone"""
        ex = cur["ex"]
        snap = {T: impl_values(th, T) for T in absolute}
        try:
            Tc = th.findCriticalTemperature(dT=0.05 * (ex["Tc"] - pot.par["T0"]), rTol=rTol,
                                            paranoid=paranoid)
            ctx.count("findCriticalTemperature_called", bucket="returned")
            if not abs(Tc - ex["Tc"]) <= 1e-4 * ex["Tc"]:
                ctx.log("NOTE findCriticalTemperature = %r, closed form %r" % (Tc, ex["Tc"]))
        except WallGo.WallGoError as exc:
            lo_, hi_ = th._getCoexistenceRange()
            ctx.count("findCriticalTemperature_called", bucket="raised")
            if lo_ < ex["Tc"] < hi_:
                ctx.log("NOTE findCriticalTemperature raised", exc, "coexistence range", lo_,
                        hi_, "closed-form Tc", ex["Tc"], case)
        th._getCoexistenceRange()
        for T, v in snap.items():
            w = impl_values(th, T)
            for k in v:
                ctx.count("frame_other_methods")
                if not same(v[k], w[k]):
                    ctx.fail_input("%s(%.9g) changed from %r to %r by calling "
                                   "findCriticalTemperature/_getCoexistenceRange [%s]" % (
                                       k, T, v[k], w[k], stage),
                                   dict(kind="frame", fn=k, T=T, case=dict(case, stage=stage)),
                                   key="history:changed-by-other-method:" + k)
                    return
        twin_check(ctx, th, "traced_after_other_methods", dict(case, stage=stage), absolute,
                   ctor=ctor)

    # --- 0. a look at both phases before anything is tabulated ---------------------------
    # (Thermodynamics works without tables: every value is a minimisation from the phase
    # location given to the constructor; WallGoManager itself evaluates p, w, cs^2 at Tn
    # before it traces.)  Beyond a spinodal the numbers are meaningless and are not judged;
    # where the phase exists comfortably the pressure must be the closed form.
    nlook = 9
    if variant == 0:
        look = [0.92 * T0 + (1.08 * Tsp0 - 0.92 * T0) * k / (nlook - 1) for k in range(nlook)]
    else:
        look = [0.999 * Tsp0 + (0.9 * T0 - 0.999 * Tsp0) * k / (nlook - 1)
                for k in range(nlook)]
    c0 = dict(case, stage="before the first trace")
    with np.errstate(all="ignore"):
        for k, T in enumerate(look):
            vals = impl_values(th, T) if (variant == 0 and k % 4 == 0) else dict(
                pHighT=float(th.pHighT(T)), pLowT=float(th.pLowT(T)))
            ctx.count("evaluated_before_first_trace")
            for ph, ok_ in (("High", T >= T0 + 0.1 * (Tc0 - T0)),
                            ("Low", T <= T0 + 0.9 * (Tc0 - T0))):
                if not ok_:
                    continue
                want = -ex0["V"](ex0["phi"][ph](T), T)
                got = vals["p" + ph + "T"]
                if not margin(ctx, "p = -Veff(min) before the first trace, %s [traced]" % ph,
                              abs(got - want), 1e-7 * abs(want), "p%sT(%.9g)" % (ph, T)):
                    ctx.fail_input("p%sT(%g) = %r before the first trace but -Veff(min) = %r"
                                   % (ph, T, got, want),
                                   dict(kind="p_before_trace", case=c0, T=T, got=got,
                                        want=want), key="p-before-trace:" + ph)
    # --- 1. first trace: different windows for the two phases (the ends do not coincide) ---
    kw = dict(rTol=rTol, paranoid=paranoid)
    winH, winL = (loH, Tsp0 * uHiH), (0.9 * T0 * uLoL, Tsp0 * 0.999)
    trace("High", "first trace", winH[0], winH[1], dT, **kw)
    trace("Low", "first trace", winL[0], winL[1], dT, **kw)
    check("first trace")
    other_methods("first trace")
    # --- 2. the potential changes in place; same windows, same settings, limits not lifted ---
    # (D lowered / E raised: Tc and the end of the low-T phase move UP, so Tn and both windows
    # stay inside the region where both phases exist)
    pot.par[which_par] = pot.par[which_par] * ((1 - delta) if which_par == "D" else (1 + delta))
    cur["ex"] = quartic_closed(pot.par)
    st = "parameter %s changed in place, same windows and settings" % which_par
    for which, win in (("High", winH), ("Low", winL)):
        fe = getattr(th, "freeEnergy" + which)
        lo = max(fe.minPossibleTemperature[0], win[0])
        hi = min(fe.maxPossibleTemperature[0], win[1])
        # limits NOT lifted: every trace reports a range 2 dT short of what it covered (issue
        # #145) and the next one is clipped to it, but never past the starting temperature;
        # the clipped window may therefore start or end AT Tn (one-sided trace).  The only
        # legitimate refusal is the documented assertion when the span left is below 4 dT.
        span = max(hi, Tn) - min(lo, Tn)
        inside = lo < Tn < hi
        try:
            trace(which, st, win[0], win[1], dT, **kw)
            ctx.count("retrace_same_window", bucket="Tn inside the clipped window" if inside
                      else "clipped window ends at Tn")
        except AssertionError as exc:
            ctx.count("retrace_same_window", bucket="refused: span below 4 dT")
            if "Temperature range negative" not in str(exc) or span > 4.5 * dT:
                ctx.fail_input(
                    "tracePhase%s refused a re-trace over the window of the first trace (%s) "
                    "although the span left after clipping is %.4g = %.2f dT [%s]" % (
                        (win[0], win[1], dT), exc, span, span / dT, st),
                    dict(kind="retrace_refused", phase=which, case=dict(case, stage=st)),
                    key="retrace-refused:" + which)
            # go on with the history as a user would: limits reset, traced again
            fe.minPossibleTemperature = [0.0, False]
            fe.maxPossibleTemperature = [np.inf, False]
            trace(which, st, win[0], win[1], dT, **kw)
    check(st)
    if variant == 0:
        ex = cur["ex"]
        Tc, Tsp = ex["Tc"], ex["Tspin_broken"]

        # history: lift the limits and trace again on the SAME objects, wider, with another
        # step, tolerance and without re-minimising at every step ...
        def lift():
            for fe in (th.freeEnergyHigh, th.freeEnergyLow):
                fe.minPossibleTemperature = [0.0, False]
                fe.maxPossibleTemperature = [np.inf, False]
        lift()
        kw2 = dict(rTol=1e-10, paranoid=False)
        st = "re-traced wider on the same objects, other dT/rTol, not paranoid"
        trace("High", st, T0 + 0.05 * (Tn - T0), Tsp * 1.3, 0.7 * dT, **kw2)
        trace("Low", st, 0.6 * T0, Tsp * 0.999, 0.7 * dT, **kw2)
        check(st)
        # ... and narrower, shifted, default paranoid, coarser step and looser tolerance
        lift()
        st = "re-traced narrower on the same objects, other dT/rTol"
        trace("High", st, Tn - 0.3 * (Tn - T0), Tc * 1.02, 1.1 * dT, rTol=1e-7)
        trace("Low", st, 0.95 * T0, Tc * 1.01, 1.1 * dT, rTol=1e-7)
        check(st)
        other_methods("re-traced narrower")
    ctx.sample(dict(traced=case, ranges=[th.TMinHighT, th.TMaxHighT, th.TMinLowT,
                                         th.TMaxLowT]))


def stub_history(ctx, th, rng, case):
    """histories on one object with analytic tables: setExtrapolate twice, other methods in
    between, the tables' ranges moved (what a re-trace does) and setExtrapolate again"""
    from WallGo import WallGoError
    ctor = stub_ctor(th.Tnucl)
    twin_check(ctx, th, "stub", case, ctor=ctor)
    th.setExtrapolate()
    twin_check(ctx, th, "stub_twice", case, ctor=ctor)
    snap = {T: impl_values(th, T) for T in probe_temps(th)}
    try:
        lo, hi = th._getCoexistenceRange()
        if lo < hi:
            th.findCriticalTemperature(dT=(hi - lo) / 40.0)
    except WallGoError:
        pass
    for T, v in snap.items():
        w = impl_values(th, T)
        for k in v:
            ctx.count("frame_other_methods")
            if not same(v[k], w[k]):
                ctx.fail_input("%s(%.9g) changed from %r to %r by calling "
                               "findCriticalTemperature/_getCoexistenceRange [stub]" % (
                                   k, T, v[k], w[k]),
                               dict(kind="frame", fn=k, T=T, case=case),
                               key="history:changed-by-other-method:" + k)
                return
    # move the ranges (shrink one phase, shift the other), as a re-trace would
    for fe, (fa, fb) in ((th.freeEnergyHigh, (rng.uniform(0.0, 0.3), rng.uniform(0.6, 1.0))),
                         (th.freeEnergyLow, (rng.uniform(0.0, 0.4), rng.uniform(0.5, 1.0)))):
        lo, hi = fe.minPossibleTemperature[0], fe.maxPossibleTemperature[0]
        fe.minPossibleTemperature = [lo + fa * (hi - lo), False]
        fe.maxPossibleTemperature = [lo + fb * (hi - lo), False]
    th.setExtrapolate()
    c2 = dict(case, stage="ranges moved on the same object")
    direct_checks(ctx, th, "stub_moved", c2)
    twin_check(ctx, th, "stub_moved", c2, list(snap), ctor=ctor)


def run(ctx):
    src = vlib.read_src("thermodynamics.py")
    gen_ok = True
    try:
        text, tr = gen_thermo.generate(src)
        ctx.write("Thermo.v", text, sources=dict(file="src/WallGo/thermodynamics.py",
                                                 sha=vlib.sha(src), spans=tr.spans))
        ftext, finfo = gen_thermo.frame_facts(vlib.SRC)
        ctx.write("ThermoFacts.v", ftext, sources=dict(
            file="src/WallGo/**/*.py (%d files)" % finfo["files"], sha=vlib.sha(ftext)))
        for w in finfo["foreign"] + finfo["dynamic"]:
            ctx.log("writer of a modelled attribute outside __init__/setExtrapolate:", w)
        for w in finfo["shadow"]:
            ctx.log("a method of the class is rebound:", w)
        for m in finfo["writers"]:
            if m not in ("__init__", "setExtrapolate"):
                ctx.log("method %s assigns %s" % (m, finfo["writers"][m]))
        for m in finfo["env_writers"]:
            if m != "__init__":
                ctx.log("method %s rebinds %s" % (m, finfo["env_writers"][m]))
        if finfo["notes"]:
            # dynamic attribute access on objects that are not thermodynamics objects: not part
            # of the frame theorem, listed in the evidence
            ctx.cov["dynamic_access_elsewhere"] = finfo["notes"]
            for w in finfo["notes"]:
                ctx.log("NOTE dynamic attribute access that cannot be tied to a Thermodynamics "
                        "object (not part of the frame theorem):", w)
    except pyrx.TranslateError as e:
        ctx.log("translator failed:", e)
        ctx.broken.append("translator: %s" % e)
        gen_ok = False
    proved = gen_ok and ctx.prove(extra=["Thermo.v", "ThermoFacts.v"])
    # The certified evaluations need the generated model and the CORE of the Props file (ties
    # to the template, state after setExtrapolate, matched coefficients).  A lemma that breaks
    # further down must not drop them: the core is then compiled on its own.
    eval_module = "Props_C10" if proved else None
    if gen_ok and not proved and os.path.exists(os.path.join(ctx.bdir, "Thermo.vo")):
        with open(os.path.join(vlib.COQ, "Props", "C10.v")) as f:
            core = f.read().split("(* ==== END OF CORE ====")[0]
        core = core.replace("From GenC10 Require Import Thermo ThermoFacts.",
                            "From GenC10 Require Import Thermo.")
        ok, _, err = ctx.coqc(ctx.write("EvalCore.v", core), timeout=600)
        if ok:
            eval_module = "EvalCore"
            ctx.log("Props/C10.v does not compile as a whole; its core does: the certified "
                    "model-vs-implementation evaluations are carried out through it")
        else:
            ctx.log("the core lemmas of Props/C10.v do not compile either: NO certified "
                    "model-vs-implementation evaluation in this run", vlib.tail(err, 4))
            ctx.broken.append("correspondence: certified evaluation impossible (core lemmas "
                              "of Props/C10.v do not compile)")
    elif not proved:
        ctx.log("the generated model does not compile: NO certified model-vs-implementation "
                "evaluation in this run")
        ctx.broken.append("correspondence: certified evaluation impossible (generated model "
                          "does not compile)")
    ctx.trusted += ["tools/pyrx.py + tools/gen_thermo.py (AST translator, writer facts)",
                    "Interval tactic (certified evaluation; uses kernel primitive "
                    "floats/ints)"]
    # --- stub models: direct property checks + certified correspondence -------------
    nmodels = ctx.n(3, 24)
    ndirect = ctx.n(40, 600)
    rng = ctx.rng
    files = []
    for m in range(ndirect):
        # every random choice is drawn whether or not the proofs went through, so that a
        # broken proof does not change the inputs of the search
        cH, rH = rand_stub(rng)
        cL, rL = rand_stub(rng)
        tlist = {ph: temps(rng, *r) for ph, r in (("High", rH), ("Low", rL))} \
            if m < nmodels else None
        hrng = random.Random(rng.random())
        case = dict(cHigh=jfr(cH), rangeHigh=jfr(rH), cLow=jfr(cL), rangeLow=jfr(rL))
        th = make_stub(cH, rH, cL, rL, float(rH[0]))
        try:
            th.setExtrapolate()
            direct_checks(ctx, th, "stub", case)
            hypotheses_hold(ctx, th, "stub")
        except Exception as ex:
            ctx.fail_input("Thermodynamics raised %r" % ex, dict(kind="raise", case=case),
                           key="raises")
            continue
        ctx.count("stub_model", case, bucket="TMaxLow%sTMaxHigh" % (
            ">" if rL[1] > rH[1] else "<="))
        if m < nmodels:
            rows = []
            for ph, r in (("High", rH), ("Low", rL)):
                for T in tlist[ph]:
                    vals = impl_values(th, T)
                    for fn in ("p", "dp", "ddp", "csq", "e", "w"):
                        rows.append((fn + ph + "T", T, vals[fn + ph + "T"]))
            Tmid = rH[0] + (rH[1] - rH[0]) / 2
            rows.append(("alpha", Tmid, impl_values(th, Tmid)["alpha"]))
            if eval_module:
                files.append((m, case, rows,
                              ctx.write("Cases/Eval_%d.v" % m,
                                        eval_file(m, cH, rH, cL, rL, rows, eval_module))))
            if m == 0:
                ctx.sample(dict(stub=case, some_values=[(r[0], str(r[1]), r[2])
                                                        for r in rows[:6]]))
        try:
            stub_history(ctx, th, hrng, case)
        except Exception as ex:
            ctx.log(traceback.format_exc())
            ctx.fail_input("Thermodynamics raised %r during a history on one object" % ex,
                           dict(kind="raise", case=case), key="raises:history")
    ctx.log("stub models: %d direct, %d with certified evaluation" % (ndirect, len(files)))
    # compile the certified evaluations, at most 8 at a time
    pending = list(files)
    running = []

    def reap(m, case, rows, p, pr):
        out, err = pr.communicate()
        for _ in rows:
            ctx.count("certified_eval")
        if pr.returncode == 124:
            ctx.broken.append("correspondence: certified evaluation Eval_%d timed out" % m)
        elif pr.returncode != 0:
            ctx.broken.append("correspondence: certified evaluation Eval_%d" % m)
            ctx.log("certified evaluation failed", vlib.tail(err, 6))
            mm = re.search(r"line (\d+)", err)
            if mm:
                txt = open(p).read().splitlines()
                ln = min(int(mm.group(1)), len(txt))
                goal = next((txt[k] for k in range(ln - 1, -1, -1)
                             if txt[k].startswith("Goal")), "?")
                ctx.log("failing row:", goal)
                k = [g for g in range(len(rows)) if (" %s e0" % rows[g][0]) in goal
                     and (" %s - " % pyrx.rlit(rows[g][1])) in goal]
                if k:
                    fn, T, y = rows[k[0]]
                    ctx.fail_input("%s(%s) = %r on the implementation is not the value of "
                                   "the generated model (certified interval evaluation)" % (
                                       fn, T, y),
                                   dict(kind="model_vs_impl", fn=fn, T=str(T), impl=y,
                                        case=case), key="model-vs-impl:" + fn)
            ctx.log("model", json.dumps(case))

    while pending or running:
        while pending and len(running) < 8:
            m, case, rows, p = pending.pop(0)
            running.append((m, case, rows, p, subprocess.Popen(
                ["timeout", "900", "coqc"] + ctx.coq_args() + [p], cwd=ctx.bdir,
                stdout=subprocess.PIPE, stderr=subprocess.PIPE, text=True)))
        reap(*running.pop(0))
    ctx.log("certified evaluations done")
    # --- traced potentials ------------------------------------------------------------
    for it in range(ctx.n(2, 10)):
        trng = random.Random(rng.random())
        t_it = time.time()
        try:
            traced_model(ctx, trng, variant=it % 2)
            ctx.log("traced model %d (variant %d) done in %.1fs" % (it, it % 2,
                                                                    time.time() - t_it))
        except Exception as ex:
            ctx.log("traced model raised", traceback.format_exc())
            ctx.fail_input("tracing / evaluating a traced model raised %r" % ex,
                           dict(kind="raise_traced", variant=it % 2), key="raises:traced")
    ctx.cov["rule"] = (
        "stub models: random dyadic free energies k0+k2T^2-k3T^3-k4T^4 with independent "
        "ranges for the two phases (both orderings of the upper ends occur); each model "
        "is probed at 17 temperatures per phase from 0.2 TMin to 7 TMax (5e-6-close to the "
        "ends included) plus 1e-9-close points on both sides of all four range ends, then "
        "taken through a history on the same object (setExtrapolate twice, "
        "findCriticalTemperature/_getCoexistenceRange, ranges moved, setExtrapolate) and "
        "compared bit for bit with a fresh object on the same tables; distinct = distinct "
        "coefficient/range tuple; stub objects are built by Thermodynamics.__init__ and their "
        "tables swapped in; traced models use the real FreeEnergy.tracePhase on a quartic "
        "potential with random parameters, Tn and windows: all EOS functions read before "
        "the first trace on a grid running beyond a spinodal, first trace, one parameter "
        "(D or E, 2-5%) changed in place and both phases re-traced over the same windows with "
        "the same settings, then (paranoid variant) re-traced wider with another dT/rTol and "
        "paranoid off and narrower with yet other settings; after every trace the "
        "free-energy object is compared bit for bit with a fresh one traced with the same "
        "arguments, after every stage p and alpha with the closed form of the current "
        "potential; tolerance_margins = worst observed/allowed per clause in this run")
    ctx.assumptions += [
        "the interpolation spline and its derivative(order) are a C2 function and its "
        "derivatives (external: scipy CubicSpline; central differences at the probe points "
        "and at table nodes)",
        "w>0 and de/dT>0 at the ends of each tabulated range (hypotheses of the theorems; "
        "asserted on every stub and traced object, counted under hypotheses_*)",
        "the tables are -Veff at the traced minimum (property C11; here compared with the "
        "closed form of the current potential after every trace, on windows that stop short "
        "of the spinodals except the narrow re-trace of weak transitions)"]


def replay(rep):
    print(json.dumps(rep, indent=1))
    c = rep.get("case", {})
    if "cHigh" in c:
        f = lambda l: [Fraction(x) for x in l]
        th = make_stub(f(c["cHigh"]), f(c["rangeHigh"]), f(c["cLow"]), f(c["rangeLow"]), 1.0)
        th.setExtrapolate()
        T = rep.get("T")
        if T:
            for d in (-1e-9, 0, 1e-9):
                print("T=%r" % (T * (1 + d)), impl_values(th, T * (1 + d)))
    return 0
