"""C05 -- the LTE wall velocity conserves the entropy flux across the wall."""
import json
import math
import traceback
from fractions import Fraction

import numpy as np

import gen_hydro_shock
import pyrx
import vlib
from props import C03 as S          # equations of state, independent xi-integrator (oracle)

EXPLANATION = (
    "The closure `matching` of matchDeflagOrHyb (vp=None), vpvmAndvpovm, the statements of "
    "matchDeflagOrHyb after the 2x2 solve, the template findvwLTE with its closure, getVp and "
    "the alpha bounds of solveAlpha are regenerated from the sources on every run. Coq proves "
    "for EVERY equation of state: a zero of the generated residual satisfies T+^2(1-v-^2) = "
    "T-^2(1-v+^2); the returned quadruple has T+ gamma+ = T- gamma- (with real square roots) "
    "and, at a zero of the residual, equal energy and momentum fluxes; the decision rules of "
    "the template findvwLTE and the documented alpha bounds. The decision logic of "
    "Hydrodynamics.findvwLTE is an executable Coq model over oracles with theorems for the "
    "three outcomes (interior => sign change between the bracket ends and the root finder's "
    "output on that bracket; 0 => stopping sign at vMin; 1 => one end tested; the whole-window "
    "sign only under monotonicity: partial); the model is compared by vm_compute with "
    "instrumented runs of the real function. The property is evaluated on the real code: "
    "entropy, fluxes and the Tn boundary (independent xi-integrator) at the returned "
    "velocity; window scans for both sentinels.")

MARGIN_V = 1e-2          # scans run over [max(vMin + MARGIN_V, S.SLOW_WALL), vJ - MARGIN_TOP]
MARGIN_TOP = 1e-3
MARGIN_E = 3e-4          # |mismatch| at the decisive end below this: too close to a threshold
TOL_ENT = 1e-9           # T+ g+ = T- g- at the LTE matching (by construction of v+)
TOL_FLUX = 2e-6          # energy / momentum flux across the wall (2x2 solve, xtol = atol)
TOL_TN = 5e-5            # Tn boundary at the returned vw (root in vw has rtol 1e-6)
TOL_ENT_SHOOT = 5e-5     # entropy mismatch of the Tn-shooting matching at the returned vw
WORST = {}


# Inputs on which the UNCHANGED code violates the property (registered in
# known_findings.json under input-naming keys).  They are replayed first in both tiers so
# that the KNOWN-FINDING lines are deterministic; every other input keeps its own key.
KNOWN_INPUTS = [
    (dict(kind="bag", psi=0.655, Tn=0.561), 1e-6, 1e-10),
    (dict(kind="bag", psi=0.548, Tn=0.598), 1e-6, 1e-10),
    (dict(kind="bag", psi=0.169, Tn=0.774), 1e-6, 1e-10),
    (dict(kind="bag", psi=0.242, Tn=0.686), 1e-6, 1e-10),
    (dict(kind="bag", psi=0.722, Tn=0.523), 1e-6, 1e-10),
    (dict(kind="bag", psi=0.429, Tn=0.7), 1e-6, 1e-10),
    (dict(kind="template", psiN=0.5348, alN=1.07426, cs2=0.271, cb2=0.2613, Tn=1.0),
     1e-6, 1e-10),
    (dict(kind="bag", psi=0.6, Tn=0.6), 1e-6, 1e-6),
    (dict(kind="bag", psi=0.4, Tn=0.7), 1e-6, 1e-6),
]


# Deterministic part of the sample (bag grid, Tn >= Tc rows, strong-supercooling rows, fixed
# two-step row) whose answer on the recorded clean tree is an interior velocity.  A point of
# this list answering with a sentinel or an exception is a failing input of its own (key
# grid-outcome:<input>), whatever class key the symptom would otherwise take: no cap needed.
GRID_INTERIOR = {
    "bag:Tn=0.5,psi=0.2",
    "bag:Tn=0.5,psi=0.4",
    "bag:Tn=0.5,psi=0.5",
    "bag:Tn=0.5,psi=0.6",
    "bag:Tn=0.5,psi=0.7",
    "bag:Tn=0.5,psi=0.8",
    "bag:Tn=0.6,psi=0.2",
    "bag:Tn=0.6,psi=0.4",
    "bag:Tn=0.6,psi=0.5",
    "bag:Tn=0.6,psi=0.6",
    "bag:Tn=0.6,psi=0.7",
    "bag:Tn=0.6,psi=0.8",
    "bag:Tn=0.7,psi=0.2",
    "bag:Tn=0.7,psi=0.4",
    "bag:Tn=0.7,psi=0.5",
    "bag:Tn=0.7,psi=0.6",
    "bag:Tn=0.7,psi=0.7",
    "bag:Tn=0.7,psi=0.8",
    "bag:Tn=0.8,psi=0.2",
    "bag:Tn=0.8,psi=0.4",
    "bag:Tn=0.8,psi=0.5",
    "bag:Tn=0.8,psi=0.6",
    "bag:Tn=0.8,psi=0.7",
    "bag:Tn=0.8,psi=0.8",
    "bag:Tn=0.8,psi=0.9",
    "bag:Tn=0.88,psi=0.58",
    "bag:Tn=0.88,psi=0.62",
    "bag:Tn=0.9,psi=0.2",
    "bag:Tn=0.9,psi=0.4",
    "bag:Tn=0.9,psi=0.5",
    "bag:Tn=0.9,psi=0.6",
    "bag:Tn=0.9,psi=0.7",
    "bag:Tn=0.9,psi=0.8",
    "bag:Tn=0.9,psi=0.9",
    "bag:Tn=0.9,psi=0.95",
    "bag:Tn=0.92,psi=0.65",
    "bag:Tn=0.95,psi=0.2",
    "bag:Tn=0.95,psi=0.4",
    "bag:Tn=0.95,psi=0.5",
    "bag:Tn=0.95,psi=0.6",
    "bag:Tn=0.95,psi=0.7",
    "bag:Tn=0.95,psi=0.8",
    "bag:Tn=0.95,psi=0.9",
    "bag:Tn=0.95,psi=0.95",
    "twostep:Tn=0.9,ab=0.2,asy=0.1,musq=0.4",
    "twostep:Tn=0.95,ab=0.2,asy=0.1,musq=0.4",
}


CLASS_NO_BRACKET = "lte-runaway-without-shock-bracket"
CLASS_RAISES_AT_VJ = "lte-raises-before-first-decision"
CLASS_CB_GT_CS = "lte-no-matching-at-vwLTE-cb-above-cs"
KNOWN_INPUTS_OTHER = [
    dict(kind="template", psiN=0.9347, alN=0.01051, cs2=0.2357, cb2=0.2815, Tn=173.2),
    dict(kind="template", psiN=0.9226, alN=0.03241, cs2=0.2752, cb2=0.3232, Tn=100.0),
    dict(kind="twostep", ab=0.235, asy=0.145, musq=0.458, Tn=0.416),
    dict(kind="template", psiN=0.7055, alN=1.75637, cs2=0.2791, cb2=0.2013, Tn=100.0),
]


def gam(v):
    return 1.0 / math.sqrt(1.0 - v * v)


def worst(name, value, case):
    if value > WORST.get(name, (0.0, None))[0]:
        WORST[name] = (value, case)


# ----------------------------------------------------------------------------------------
# inputs

def specs(ctx):
    rng = ctx.rng
    out = []
    for psi in (0.2, 0.4, 0.5, 0.6, 0.7, 0.8, 0.9, 0.95):
        for Tn in (0.5, 0.6, 0.7, 0.8, 0.9, 0.95):
            out.append(dict(kind="bag", psi=psi, Tn=Tn))
    for psi, Tn in ((0.9, 1.02), (0.8, 1.1), (0.6, 1.05), (0.95, 1.003), (0.62, 0.88),
                    (0.58, 0.88), (0.65, 0.92)):
        out.append(dict(kind="bag", psi=psi, Tn=Tn))
    for _ in range(ctx.n(8, 80)):
        out.append(dict(kind="bag", psi=round(rng.uniform(0.15, 0.98), 3),
                        Tn=round(rng.uniform(0.45, 1.08), 3)))
    for Tn in (0.5, 0.6, 0.7, 0.8, 0.9, 0.95, 1.02):
        out.append(dict(kind="twostep", ab=0.2, asy=0.1, musq=0.4, Tn=Tn))
    for _ in range(ctx.n(4, 40)):
        out.append(dict(kind="twostep", ab=round(rng.uniform(0.16, 0.24), 3),
                        asy=round(rng.uniform(0.06, 0.12), 3),
                        musq=round(rng.uniform(0.32, 0.48), 3),
                        Tn=round(rng.uniform(0.5, 1.02), 3)))
    for k in range(ctx.n(10, 80)):
        psiN = 1 - 0.5 * rng.random()
        cs2 = 1 / 4 + (1 / 3 - 1 / 4) * rng.random()
        out.append(dict(kind="template", psiN=round(psiN, 4),
                        alN=round((1 - psiN) / 3 * rng.uniform(0.5, 1.0) + rng.random() *
                                  rng.choice([0.05, 0.3, 1.0]), 5),
                        cs2=round(cs2, 4), cb2=round(cs2 - (1 / 3 - 1 / 4) * rng.random(), 4),
                        Tn=[1.0, 0.01, 100.0][k % 3]))
    return out


# ----------------------------------------------------------------------------------------
# instrumented run of Hydrodynamics.findvwLTE

class LteRaised(Exception):
    def __init__(self, exc, aux, events=()):
        Exception.__init__(self, repr(exc))
        self.exc, self.aux, self.events = exc, aux, list(events)


def record_findvwLTE(hy):
    """Runs the real hy.findvwLTE() while recording, from outside, the top-level calls it
    makes: matchDeflagOrHyb(vw) [+ success flag], solveHydroShock, root_scalar(shock |
    shockTnuclDiff).  Returns (result, events, aux); aux lists for every top-level
    matchDeflagOrHyb call the initial guess handed to scipy root, the success flag and
    whether the call raised.  If findvwLTE raises, LteRaised carries aux."""
    import WallGo.hydrodynamics as H
    events, aux = [], []
    depth = [0]
    cur = {"x0": None}
    orig_match, orig_shock, orig_rs, orig_root = hy.matchDeflagOrHyb, hy.solveHydroShock, \
        H.root_scalar, H.root

    def root(f, x0, *a, **k):
        if depth[0] == 0:
            cur["x0"] = [float(t) for t in x0]
        return orig_root(f, x0, *a, **k)

    def guess():
        if cur["x0"] is None:
            return None
        return [float(t) for t in hy._inverseMappingT(cur["x0"])]

    def match(vw, vp=None):
        if depth[0] == 0:
            cur["x0"] = None
        try:
            r = orig_match(vw, vp)
        except Exception:
            if depth[0] == 0:
                aux.append(dict(vw=float(vw), guess=guess(), success=bool(hy.success),
                                raised=True))
            raise
        if depth[0] == 0:
            events.append(("match", float(vw), vp is None, tuple(float(x) for x in r),
                           bool(hy.success)))
            aux.append(dict(vw=float(vw), guess=guess(), success=bool(hy.success),
                            raised=False))
        return r

    def shockT(vw, vp, Tp):
        r = orig_shock(vw, vp, Tp)
        if depth[0] == 0:
            events.append(("Tn", float(vw), float(r)))
        return r

    def rs(f, *a, **k):
        name = getattr(f, "__name__", "?")
        top = depth[0] == 0 and name in ("shock", "shockTnuclDiff")
        depth[0] += 1
        try:
            r = orig_rs(f, *a, **k)
        except ValueError:
            depth[0] -= 1
            if top:
                events.append(("root", name, tuple(float(x) for x in k.get("bracket")), None))
            raise
        except Exception:
            depth[0] -= 1
            raise
        depth[0] -= 1
        if top:
            events.append(("root", name, tuple(float(x) for x in k.get("bracket")),
                           float(r.root)))
        return r
    hy.matchDeflagOrHyb, hy.solveHydroShock, H.root_scalar, H.root = match, shockT, rs, root
    try:
        res = hy.findvwLTE()
    except Exception as ex:
        raise LteRaised(ex, aux, events)
    finally:
        del hy.matchDeflagOrHyb, hy.solveHydroShock
        H.root_scalar, H.root = orig_rs, orig_root
    return float(res), events, aux


CLASS_KEY = "lte-crude-guess-at-vMin"


def crude_guess_class(hy, aux, judge):
    """The registered defect class, measured on the live object.  The recorded mechanism: the
    solver's vMin (a brentq root, rtol) lands a hair BELOW the template model's vMin, so the
    guard `vw > self.template.vMin` of matchDeflagOrHyb is False at vw == vMin, scipy root
    starts from the crude guess [Tn, 0.99 Tn] and fails.  All of:
      (b) 0 < template.vMin - hy.vMin <= 10 rtol  (root-finder noise; an EXACT equality or a
          larger gap is not the recorded mechanism);
      (b') hy.vMin agrees with the independently computed vMin (relative 1e-4);
      (c) the top-level matchDeflagOrHyb(vMin) of findvwLTE started scipy root from
          [Tn, 0.99 Tn] (to 1e-9) and did not converge (success False, or it raised).
    (a) -- wrong sentinel / exception although the mismatch is positive at the smallest
    allowed velocity -- is established by the caller."""
    gap = hy.template.vMin - hy.vMin
    if not 0 < gap <= 10 * hy.rtol:
        return False
    if judge.vMin is None or abs(hy.vMin - judge.vMin) > 1e-4 * judge.vMin:
        return False
    at = [a for a in aux if a["vw"] == float(hy.vMin)]
    if not at:
        return False
    a = at[-1]
    Tn = float(hy.Tnucl)
    g = a["guess"]
    crude = g is not None and abs(g[0] - Tn) <= 1e-9 * Tn and abs(g[1] - 0.99 * Tn) <= 1e-9 * Tn
    return crude and (a["raised"] or not a["success"])


def Q(x):
    f = Fraction(float(x))
    return "(%d # %d)" % (f.numerator, f.denominator)


def model_case(th, hy, res, events):
    """Coq boolean: the model, fed with the recorded oracle values, returns the outcome the
    code returned.  None if the trace does not have the shape the model assumes (reported)."""
    Tn = hy.Tnucl
    ev = list(events)
    if not ev or ev[0][0] != "match" or not ev[0][2]:
        return None, "first call is not matchDeflagOrHyb(vmax)"
    vmax0 = ev[0][1]
    vp, _vm, Tp, _Tm = ev[0][3]
    s0 = vp * vmax0 - float(th.csqHighT(Tp))
    ev = ev[1:]
    root_shock = "fun _ _ => None"
    if ev and ev[0][0] == "root" and ev[0][1] == "shock":
        a, b = ev[0][2]
        r = ev[0][3]
        root_shock = "fun a b => if near %s a && near %s b then %s else None" % (
            Q(a), Q(b), "Some %s" % Q(r) if r is not None else "None")
        ev = ev[1:]
    diffs = []
    while len(ev) >= 2 and ev[0][0] == "match" and ev[1][0] == "Tn":
        diffs.append((ev[0][1], ev[1][2] - Tn, ev[0][4]))
        ev = ev[2:]
    root_diff = "fun _ _ => (-7 # 1)"
    if ev and ev[0][0] == "root" and ev[0][1] == "shockTnuclDiff":
        a, b = ev[0][2]
        root_diff = "fun a b => if near %s a && near %s b then %s else (-7 # 1)" % (
            Q(a), Q(b), Q(ev[0][3]))
        ev = ev[1:]
    if ev:
        return None, "unexpected trailing calls %r" % (ev[:2],)
    dfun = "(99 # 1, false)"
    for (v, d, ok) in reversed(diffs):
        dfun = "if near %s v then (%s, %s) else %s" % (Q(v), Q(d), "true" if ok else "false",
                                                       dfun)
    o = "(mk_oracles (fun v => if near %s v then %s else (-99 # 1)) (fun v => %s) (%s) (%s))" % (
        Q(vmax0), Q(s0), dfun, root_shock, root_diff)
    want = "Static" if res == 0 else ("Runaway" if res == 1 else "Interior %s" % Q(res))
    term = "outcome_eqb (findvwLTE lte_epsJ lte_epsShock %s %s %s %s) (%s)" % (
        o, Q(hy.vMin), Q(hy.vJ), Q(float(th.csqHighT(Tn)) ** 0.5), want)
    return term, None


CASE_HDR = """From Coq Require Import QArith Qabs Bool List.
Import ListNotations.
From WG Require Import Model.FindVwLTE.
From GenC05 Require Import LteFacts.
Local Open Scope Q_scope.
"""


# ----------------------------------------------------------------------------------------
# certified evaluation of the generated real-valued definitions

EVAL_HDR = """From Coq Require Import Reals Lra.
From Interval Require Import Tactic.
From WG Require Import Lib.NumpySem Lib.HydroShock.
From GenC05 Require Import HydroLTE.
Local Open Scope R_scope.
%(defs)s
Ltac redx := cbv beta iota zeta delta [matchingLTE matchTail vpvmAndvpovm gammaSq boostVelocity
  fst snd csqHighT csqLowT wHighT wLowT pHighT pLowT eHighT eLowT alN Tnucl invMap
  t_getVp t_alpha_shooting t_alpha_initial t_solveAlpha_bounds t_cs2 t_cb2 t_cb t_cs t_alN
  t_psiN t_mu t_nu t_vJ %(envs)s].
Ltac killmin := repeat match goal with
  | |- context [Rmin ?a ?b] => first [ rewrite (Rmin_left a b) by interval with (i_prec 90)
                                     | rewrite (Rmin_right a b) by interval with (i_prec 90) ]
  | |- context [Rmax ?a ?b] => first [ rewrite (Rmax_left a b) by interval with (i_prec 90)
                                     | rewrite (Rmax_right a b) by interval with (i_prec 90) ]
  end.
Ltac ev := redx; killmin;
  repeat match goal with |- context [Req_EM_T ?a ?b] =>
    destruct (Req_EM_T a b) as [EQ|_];
    [exfalso; assert (NE : a - b <> 0) by interval with (i_prec 90); apply NE; lra|] end;
  cbv beta iota zeta delta [negb fst snd]; interval with (i_prec 90).
"""


def goal(term, y, rel=1e-9, absol=Fraction(1, 10 ** 12)):
    yq = Fraction(float(y))
    tol = abs(yq) * Fraction(rel).limit_denominator(10 ** 15) + absol
    return "Goal Rabs (%s - %s) <= %s.\nProof. ev. Qed." % (term, pyrx.rlit(yq), pyrx.rlit(tol))


def q(x):
    return pyrx.rlit(Fraction(float(x)))


def certified(ctx, proved):
    import WallGo.hydrodynamics as H
    import WallGo
    rng = ctx.rng
    sp = [dict(kind="bag", psi=0.8, Tn=0.8), dict(kind="twostep", ab=0.2, asy=0.1, musq=0.4,
                                                  Tn=0.9)]
    defs, goals, names = [], [], []
    k = 0
    for spec in sp:
        th, hy = S.make_hydro(spec)
        for vw in (0.3, 0.65):
            captured = []
            orig_root = H.root

            def root(f, x0, *a, **kw):
                # the closure must be evaluated while the solver runs: after the solve the
                # method rebinds `vp`, which the closure reads
                sol = orig_root(f, x0, *a, **kw)
                tpm = [float(t) for t in hy._inverseMappingT(sol.x)]
                pts = [sol.x, hy._mappingT([tpm[0] * rng.uniform(0.97, 1.03),
                                            tpm[1] * rng.uniform(0.96, 1.04)])]
                vals = [([float(x[0]), float(x[1])], [float(y) for y in f(
                    [float(x[0]), float(x[1])])]) for x in pts]
                captured.append((f, vals, [float(t) for t in S.cells(f)["Tpm0"]]))
                return sol
            H.root = root
            try:
                vp, vm, Tp, Tm = hy.matchDeflagOrHyb(vw)
            finally:
                H.root = orig_root
            if not captured or captured[-1][0].__name__ != "matching":
                ctx.broken.append("correspondence: `matching` not handed to scipy root")
                continue
            f, vals, Tpm0 = captured[-1]
            for x, got in vals:
                tp, tm = [float(t) for t in hy._inverseMappingT(x)]
                name = "e%d" % k
                k += 1
                names.append(name)
                env = S.coq_env(spec) % dict(alN=q(hy.template.alN))
                env = env.replace("(fun x => x))", "(fun _ => (%s, %s)))" % (q(tp), q(tm)))
                defs.append("Definition %s := %s." % (name, env))
                for i, proj in ((0, "fst"), (1, "snd")):
                    goals.append((goal("%s (matchingLTE %s %s (%s, %s) (0, 0))" % (
                        proj, name, q(vw), q(Tpm0[0]), q(Tpm0[1])), got[i],
                        absol=Fraction(1, 10 ** 10)),
                        dict(fn="matching", spec=spec, vw=vw, x=x)))
                    ctx.count("certified_matching")
            # the returned quadruple from the solved temperatures
            name = "e%d" % k
            k += 1
            names.append(name)
            defs.append("Definition %s := %s." % (name, S.coq_env(spec) % dict(
                alN=q(hy.template.alN))))
            for i, proj in ((0, "fst (fst (fst (%s)))"), (1, "snd (fst (fst (%s)))")):
                goals.append((goal(proj % ("matchTail %s %s %s %s" % (name, q(vw), q(Tp), q(Tm))),
                                   (vp, vm)[i]),
                              dict(fn="matchTail", spec=spec, vw=vw, Tp=float(Tp),
                                   Tm=float(Tm))))
                ctx.count("certified_matchTail")
    # template: getVp, the two alpha forms, the bounds of solveAlpha
    tdefs = []
    for j in range(ctx.n(2, 10)):
        psiN = 1 - 0.5 * rng.random()
        cs2 = 1 / 4 + (1 / 3 - 1 / 4) * rng.random()
        spec = dict(kind="template", psiN=round(psiN, 4), alN=round((1 - psiN) / 3 +
                                                                   0.3 * rng.random(), 5),
                    cs2=round(cs2, 4), cb2=round(cs2 - (1 / 3 - 1 / 4) * rng.random(), 4),
                    Tn=1.0)
        th = S.make_eos(spec)
        tm = WallGo.HydrodynamicsTemplateModel(th)
        name = "t%d" % j
        names.append(name)
        tdefs.append("Definition %s := mk_t_env %s %s %s %s %s %s %s %s %s %s 0 "
                     "(fun _ => 0) (fun _ _ => 0) (fun _ _ => 0)." % (
                         name, q(tm.cs2), q(tm.cb2), q(tm.cb), q(tm.cs), q(tm.alN), q(tm.psiN),
                         q(tm.mu), q(tm.nu), q(tm.vJ), q(tm.Tnucl)))
        for _ in range(ctx.n(2, 3)):
            vmv = rng.uniform(0.2, float(tm.cb))
            al = rng.uniform(0.01, 0.3)
            for br in (-1, 1):
                goals.append((goal("t_getVp %s %s %s (%d)" % (name, q(vmv), q(al), br),
                                   tm.getVp(vmv, al, br)),
                              dict(fn="getVp", spec=spec, vm=vmv, al=al, branch=br)))
                ctx.count("certified_getVp")
        # alMin/alMax as used by the code: capture the bracket of root_scalar in solveAlpha
        import WallGo.hydrodynamicsTemplateModel as HT
        for vw, cons in ((0.4, True), (0.7, True), (0.45, False), (0.75, False)):
            seen = []
            orig = HT.root_scalar

            def rs(f, *a, **kw):
                seen.append((getattr(f, "__name__", "?"), a, kw))
                return orig(f, *a, **kw)
            HT.root_scalar = rs
            try:
                tm.solveAlpha(vw, cons)
            except Exception:
                pass
            finally:
                HT.root_scalar = orig
            br = [s for s in seen if s[0] == "_eqWall"]
            if not br:
                ctx.broken.append("correspondence: solveAlpha did not call root_scalar on "
                                  "_eqWall")
                continue
            alMin, alMax = br[-1][2]["bracket"]
            vmv = br[-1][1][0][0]
            c = "true" if cons else "false"
            for proj, val in (("fst (fst (fst (%s)))", vmv), ("snd (fst (%s))", alMin),
                              ("snd (%s)", alMax))[ctx.n(1, 0):ctx.n(2, 3)]:
                goals.append((goal(proj % ("t_solveAlpha_bounds %s %s %s" % (name, q(vw), c)),
                                   val), dict(fn="solveAlpha_bounds", spec=spec, vw=vw,
                                              constraint=cons)))
                ctx.count("certified_alpha_bounds")
    if not proved:
        return
    hdr = EVAL_HDR % dict(defs="\n".join(defs + tdefs), envs=" ".join(names))
    nfiles = 4
    import subprocess
    procs = []
    for j in range(nfiles):
        chunk = goals[j::nfiles]
        p = ctx.write("Cases/Eval_%d.v" % j, hdr + "\n".join(g for g, _ in chunk) + "\n")
        procs.append((chunk, p, subprocess.Popen(
            ["timeout", "600", "coqc"] + ctx.coq_args() + [p], cwd=ctx.bdir,
            stdout=subprocess.PIPE, stderr=subprocess.PIPE, text=True)))
    import re
    for chunk, p, pr in procs:
        out, err = pr.communicate()
        if pr.returncode != 0:
            m = re.search(r"line (\d+)", err)
            which = None
            if m:
                text = open(p).read().splitlines()
                idx = "\n".join(text[:int(m.group(1))]).count("\nGoal ") - 1
                if 0 <= idx < len(chunk):
                    which = chunk[idx][1]
            ctx.broken.append("correspondence: certified evaluation %s" % (
                which["fn"] if which else "?"))
            ctx.log("certified evaluation failed:", json.dumps(which, default=str),
                    vlib.tail(err, 5))
    ctx.sample(dict(certified_goals=len(goals), example=goals[0][1]))


def template_decisions(ctx, proved, tspecs):
    """generated t_findvwLTE vs HydrodynamicsTemplateModel.findvwLTE on the same numbers"""
    import WallGo
    import WallGo.hydrodynamicsTemplateModel as HT
    hdr = """From Coq Require Import Reals Lra.
From WG Require Import Lib.NumpySem Lib.HydroShock.
From GenC05 Require Import HydroLTE Props_C05.
Local Open Scope R_scope.
%s
Ltac fields := cbv beta iota zeta delta [t_shootingInLTE t_alN t_psiN t_mu t_nu t_vJ t_cb
  maxAl100 shooting solveAlphaRoot rootLTE %s] in *.
"""
    defs, goals, names = [], [], []
    for j, spec in enumerate(tspecs):
        try:
            th = S.make_eos(spec)
            tm = WallGo.HydrodynamicsTemplateModel(th)
        except Exception:
            continue
        rec = dict(maxAl=None, shoot=None, root=None)
        lo1, lo2 = (1 - tm.psiN) / 3, (tm.mu - tm.nu) / (3 * tm.mu)
        orig = HT.root_scalar

        def rs(f, *a, **kw):
            r = orig(f, *a, **kw)
            if getattr(f, "__name__", "") == "shootingInLTE":
                rec["root"] = float(r.root)
                rec["f"] = f
            return r
        HT.root_scalar = rs
        try:
            res = float(tm.findvwLTE())
        except Exception as ex:
            ctx.count("template_findvwLTE_raises", spec)
            UNJUDGED.append(("template findvwLTE raised %s" % repr(ex)[:100], dict(spec=spec)))
            continue
        finally:
            HT.root_scalar = orig
        small = tm.alN < lo1 or tm.alN <= lo2
        maxal = tm.maxAl(100)
        sh = None
        if not small and not tm.alN > maxal:
            # value of the closure at vJ as the code computes it
            al = tm.solveAlpha(tm.vJ)
            sh = tm._shooting(tm.vJ, tm.getVp(min(tm.cb, tm.vJ), al))
        name = "t%d" % j
        names.append(name)
        defs.append("Definition %s := mk_t_env %s %s %s %s %s %s %s %s %s %s %s (fun _ => 0) "
                    "(fun _ _ => %s) (fun _ _ => %s)." % (
                        name, q(tm.cs2), q(tm.cb2), q(tm.cb), q(tm.cs), q(tm.alN), q(tm.psiN),
                        q(tm.mu), q(tm.nu), q(tm.vJ), q(tm.Tnucl), q(maxal),
                        q(sh if sh is not None else 0.0),
                        q(rec["root"] if rec["root"] is not None else -7.0)))
        if small:
            side = "left" if tm.alN < lo1 else "right"
            prf = "destruct (template_lte_decisions %s) as (A & _). fields. apply A. %s. lra." \
                % (name, side)
            want = 0.0
        elif tm.alN > maxal or (sh is not None and sh < 0):
            side = "left" if tm.alN > maxal else "right"
            prf = ("destruct (template_lte_decisions %s) as (_ & B & _). fields. apply B; "
                   "[intros [N|N]; lra|%s; lra]." % (name, side))
            want = 1.0
        else:
            prf = ("destruct (template_lte_decisions %s) as (_ & _ & C). fields. rewrite C by "
                   "lra. reflexivity." % name)
            want = rec["root"] if rec["root"] is not None else -7.0
        ctx.count("template_decision", spec, bucket="static" if small else (
            "runaway" if want == 1.0 else "interior"))
        if res != want:
            ctx.fail_input("HydrodynamicsTemplateModel.findvwLTE() = %r but its decision rule "
                           "on the same numbers gives %r; %s" % (res, want, spec),
                           dict(kind="template_decision", spec=spec), key="template-decision")
        goals.append("Goal t_findvwLTE %s = %s.\nProof. %s Qed." % (name, q(want), prf))
    if not proved or not goals:
        return
    text = hdr % ("\n".join(defs), " ".join(names)) + "\n".join(goals) + "\n"
    p = ctx.write("Cases/Template.v", text)
    ok, out, err = ctx.coqc(p, timeout=300)
    if not ok:
        ctx.broken.append("correspondence: generated t_findvwLTE disagrees with the running "
                          "template findvwLTE")
        ctx.log(vlib.tail(err, 8))


# ----------------------------------------------------------------------------------------
# direct validation

def own_vJ(eos):
    """Jouguet velocity from the spec's EOS alone: extremum of v+ over T- on the detonation
    branch (v+ v- and v+/v- from the junction conditions, T+ = Tn)"""
    from scipy.optimize import minimize_scalar
    Tn = eos.Tnucl
    pH = eos.pHighT(Tn)
    eH = eos.wHighT(Tn) - pH

    def vp2(Tm):
        pL = eos.pLowT(Tm)
        eL = eos.wLowT(Tm) - pL
        return (pH - pL) * (pH + eL) / ((eH - eL) * (eH + pL))
    # the detonation branch: v+^2 in (0, 1); its first local minimum in T- is the Jouguet point
    grid = [Tn * 10 ** (k / 600.0) for k in range(601)]
    vals = []
    for T in grid:
        try:
            x = vp2(T)
        except ZeroDivisionError:
            x = float("nan")
        vals.append(x if 0 < x < 1 else float("inf"))
    k = next((i for i in range(1, len(vals) - 1) if vals[i] < float("inf") and
              vals[i] <= vals[i - 1] and vals[i] <= vals[i + 1] and
              vals[i + 1] < float("inf")), None)
    if k is None:
        raise ValueError("no Jouguet point found by the independent computation")
    r = minimize_scalar(vp2, bounds=(grid[k - 1], grid[k + 1]), method="bounded",
                        options=dict(xatol=1e-13 * Tn))
    return math.sqrt(r.fun)


def own_vMin(eos, vJ, tmin=0.01, vlow=1e-3):
    """smallest wall velocity with a deflagration: strongest shock (v+ = 0, T- at the lower
    temperature bound) reaching Tn, by the independent xi-integrator"""
    from scipy.optimize import brentq
    Tn = eos.Tnucl
    target = eos.pLowT(tmin * Tn)
    try:
        Tps = brentq(lambda T: eos.pHighT(T) - target, tmin * Tn, 10 * Tn, xtol=1e-300,
                     rtol=1e-13)
    except ValueError:
        return vlow
    f = lambda vw: S.oracle_Tn(eos, vw, 0.0, Tps)[0] - Tn
    try:
        a, b = f(vlow), f(vJ)
        if a * b > 0:
            return vlow
        return max(vlow, brentq(f, vlow, vJ, xtol=1e-12, rtol=1e-10))
    except Exception:
        return None


class Judge:
    """Everything the verdict needs, computed without the object under test: the EOS from the
    spec's analytic p, p', p'', the window ends vMin / vJ, and the validity of a matching
    (fluxes conserved across the wall) instead of Hydrodynamics.success."""

    def __init__(self, spec, tmin=0.01):
        self.eos = S.OwnEOS(spec)
        self.vJ = own_vJ(self.eos)
        self.vMin = own_vMin(self.eos, self.vJ, tmin)
        self.lo = None if self.vMin is None else max(self.vMin + MARGIN_V, S.SLOW_WALL)
        self.hi = self.vJ - MARGIN_TOP

    def fluxes(self, vp, vm, Tp, Tm):
        e = self.eos
        wp, wm = float(e.wHighT(Tp)), float(e.wLowT(Tm))
        pp, pm = float(e.pHighT(Tp)), float(e.pLowT(Tm))
        ef = abs(wp * gam(vp) ** 2 * vp - wm * gam(vm) ** 2 * vm) / abs(wp * gam(vp) ** 2 * vp)
        mf = abs(wp * gam(vp) ** 2 * vp ** 2 + pp - wm * gam(vm) ** 2 * vm ** 2 - pm) / (
            abs(wp) + abs(pp))
        return ef, mf

    def valid(self, vp, vm, Tp, Tm):
        if vp is None or not (0 < vp < 1 and 0 < vm < 1 and Tm > 0 and Tp > 0):
            return False
        ef, mf = self.fluxes(vp, vm, Tp, Tm)
        return ef < 1e-5 and mf < 1e-5


UNJUDGED = []


def mismatch(hy, vw, judge, confirm=False):
    """entropy mismatch T+g+/(T-g-) - 1 of the matching that findMatching returns at vw.
    None if there is no valid matching: validity = fluxes conserved with the judge's own EOS
    (not Hydrodynamics.success); confirm=True: the flow from it also reaches Tn (oracle)."""
    try:
        (vp, vm, Tp, Tm), fb = S.find_matching(hy, vw)
    except Exception:
        return None
    if not judge.valid(vp, vm, Tp, Tm):
        return None
    if confirm:
        try:
            tn, _ = S.oracle_Tn(judge.eos, vw, vp, Tp)
        except Exception:
            return None
        if S.rel(tn, hy.Tnucl) > 1e-3:
            return None
    return Tp * gam(vp) / (Tm * gam(vm)) - 1


def scan(ctx, hy, judge, n):
    lo, hi = judge.lo, judge.hi
    if lo is None or not lo < hi:
        return []
    out = []
    for i in range(n):
        v = lo + (hi - lo) * i / (n - 1)
        out.append((v, mismatch(hy, v, judge)))
        ctx.count("scan_velocity")
    return out


def lte_residual(hy, vw):
    """shockTnuclDiff of findvwLTE rebuilt from the public methods (relative to Tn)"""
    vp, _vm, Tp, _Tm = hy.matchDeflagOrHyb(vw)
    return hy.solveHydroShock(vw, vp, Tp) / hy.Tnucl - 1.0


def spec_id(spec):
    return ",".join("%s=%s" % (k, spec[k]) for k in sorted(spec) if k != "kind")


def build_with_history(spec, rtol, atol, later_Tn):
    """The solver for `spec`, followed by what a temperature scan re-using one model object
    does: the model's nucleation temperature is changed and a second solver is built.  The
    FIRST solver is returned; the property is about its own nucleation temperature."""
    import WallGo
    th, hy = S.make_hydro(spec, rtol, atol)
    th.Tnucl = later_Tn
    try:
        SECOND_SOLVER[0] = (th, WallGo.Hydrodynamics(th, 10.0, 0.01, rtol, atol))
    except Exception:
        SECOND_SOLVER[0] = None
    return th, hy


SECOND_SOLVER = [None]


def no_bracket_class(events):
    """recorded mechanism of CLASS_NO_BRACKET: the first matching (at vJ - 1e-10) did not
    converge, its garbage put the shock front behind the wall (shock > 0), root_scalar(shock)
    found no bracket and `except ValueError: return 1` answered -- nothing else was evaluated"""
    ev = [e for e in events if e[0] in ("match", "root")]
    return len(ev) == 2 and ev[0][0] == "match" and ev[0][4] is False and \
        ev[1][0] == "root" and ev[1][1] == "shock" and ev[1][3] is None


def check_lte(ctx, spec, rtol=1e-6, atol=1e-10, gated=True, later_Tn=None, tmax=10.0,
              tmin=0.01, prebuilt=None, tag=""):
    """returns a list of failures (what, replay, key); reported by the caller.  Keys of
    sentinel / exception failures name the input: a registered finding for one equation of
    state must not hide the same symptom on another one.  With `later_Tn` the solver is
    evaluated after the model object went on to another nucleation temperature; `prebuilt`
    = (th, hy) built by the caller (other call paths / call histories)."""
    fails = []
    sid = "%s:%s" % (spec["kind"], spec_id(spec))
    if (rtol, atol) != (1e-6, 1e-10):
        sid += ":rtol=%g,atol=%g" % (rtol, atol)
    if (tmax, tmin) != (10.0, 0.01):
        sid += ":tmax=%g,tmin=%g" % (tmax, tmin)
    if later_Tn is not None:
        sid += ":history(model.Tnucl->%g)" % later_Tn
    sid += tag
    case = dict(spec=spec, rtol=rtol, atol=atol)
    if (tmax, tmin) != (10.0, 0.01):
        case.update(tmax=tmax, tmin=tmin)
    try:
        if prebuilt is not None:
            th, hy = prebuilt
        elif later_Tn is None:
            th, hy = S.make_hydro(spec, rtol, atol, tmax, tmin)
        else:
            th, hy = build_with_history(spec, rtol, atol, later_Tn)
    except Exception as ex:
        ctx.count("eos_skipped", spec)
        UNJUDGED.append(("eos_skipped: constructor raised %s" % repr(ex)[:100], case))
        return fails, None
    try:
        judge = Judge(spec, tmin)
    except Exception as ex:
        ctx.count("eos_skipped", spec)
        UNJUDGED.append(("eos_skipped: independent window ends not computable (%s)" %
                         repr(ex)[:80], case))
        return fails, None
    Tn = hy.Tnucl              # the solver's own nucleation temperature
    if later_Tn is not None:
        case["later_Tn"] = later_Tn
    if float(Tn) != float(spec["Tn"]):
        fails.append(("Hydrodynamics.Tnucl = %r for a solver built at %r; %s" % (
            Tn, spec["Tn"], spec), dict(kind="history", **case), "history-Tnucl"))
    # window ends: the solver's own against the independent ones
    if judge.vMin is None:
        ctx.count("eos_skipped", spec)
        UNJUDGED.append(("eos_skipped: independent vMin not computable", case))
        return fails, None
    worst("vJ_vs_independent", abs(hy.vJ - judge.vJ), case)
    worst("vMin_vs_independent", abs(hy.vMin - judge.vMin), case)
    if abs(hy.vJ - judge.vJ) > 1e-5 or abs(hy.vMin - judge.vMin) > 1e-4:
        fails.append(("window ends of the solver differ from the independent ones: vJ %.8f vs "
                      "%.8f, vMin %.8f vs %.8f; %s" % (hy.vJ, judge.vJ, hy.vMin, judge.vMin,
                                                       spec),
                      dict(kind="window", **case), "window-ends:" + spec["kind"]))
    if not judge.lo < judge.vJ - 2e-2:
        ctx.count("eos_no_window", spec)
        return fails, None
    try:
        res, events, aux = record_findvwLTE(hy)
    except LteRaised as lr:
        E = mismatch(hy, judge.lo, judge, confirm=True)
        key = "raises:" + sid
        if E is not None and E > MARGIN_E and crude_guess_class(hy, lr.aux, judge):
            key = CLASS_KEY
        elif E is not None and E > MARGIN_E and "Not able to find vp" in repr(lr.exc) and \
                not any(e[0] == "Tn" for e in lr.events):
            # recorded mechanism: runaway regime (mismatch positive); the matchings near vJ
            # that findvwLTE needs BEFORE its first decision (at vJ - 1e-10, or inside the
            # search for the shock position) have no real v+ and the NaN guard raises
            key = CLASS_RAISES_AT_VJ
        fails.append(("findvwLTE raised %s (mismatch %s at vw=%.6f); %s" % (
            repr(lr.exc)[:160], "n/a" if E is None else "%+.3e" % E, judge.lo, spec),
            dict(kind="raise", **case), key))
        return fails, None
    term, why = model_case(th, hy, res, events)
    nscan = ctx.n(64, 512)
    # facts about the recorded run that the decision model takes as hypotheses
    roots = [e for e in events if e[0] == "root" and e[1] == "shockTnuclDiff"]
    for e in roots:
        a, b = e[2]
        if not a <= b:
            fails.append(("findvwLTE called its root finder on the inverted bracket (vMin=%.8f, "
                          "vmax=%.8f) and returned %.8f; %s" % (a, b, res, spec),
                          dict(kind="bracket", **case), "lte-inverted-bracket:" + sid))
    if 0 < res < 1:
        ctx.count("lte_interior" + tag, case, bucket=spec["kind"])
        vp, vm, Tp, Tm = hy.matchDeflagOrHyb(res)
        ent = abs(Tp * gam(vp) / (Tm * gam(vm)) - 1)
        eflux, mflux = judge.fluxes(vp, vm, Tp, Tm)
        worst("entropy", ent, case)
        worst("energy_flux", eflux, case)
        worst("momentum_flux", mflux, case)
        d = dict(kind="interior", vw=res, vp=vp, vm=vm, Tp=Tp, Tm=Tm, **case)
        if ent > TOL_ENT:
            fails.append(("vwLTE=%.8f: T+g+/(T-g-)-1 = %.3e at the returned matching; %s" % (
                res, ent, spec), d, "entropy:" + spec["kind"]))
        if eflux > TOL_FLUX or mflux > TOL_FLUX:
            fails.append(("vwLTE=%.8f: fluxes across the wall differ: energy %.2e momentum "
                          "%.2e (relative)%s; %s" % (
                              res, eflux, mflux, "" if hy.success else
                              " [Hydrodynamics.success False]", spec), d,
                          "fluxes:" + spec["kind"]))
        try:
            tn, _ = S.oracle_Tn(judge.eos, res, vp, Tp)
            worst("Tn_boundary", S.rel(tn, Tn), case)
            if S.rel(tn, Tn) > TOL_TN:
                fails.append(("vwLTE=%.8f: the flow from (v+,T+)=(%.8f,%.8f) reaches T=%.10g "
                              "ahead of the shock, not Tn=%.10g (rel %.2e); %s" % (
                                  res, vp, Tp, tn, Tn, S.rel(tn, Tn), spec), d,
                              "Tn-boundary:" + spec["kind"]))
        except RuntimeError as ex:
            fails.append(("vwLTE=%.8f: no shock front ahead of the returned matching (%s); %s"
                          % (res, ex, spec), d, "no-front"))
        # hypothesis of lte_interior_reaches_Tn, measured: the code's own shooting function
        try:
            dres = abs(lte_residual(hy, res))
            worst("shooting_function_at_result", dres, case)
            if dres > TOL_TN:
                fails.append(("vwLTE=%.8f: the code's own shockTnuclDiff/Tn there is %.3e; %s" % (
                    res, dres, spec), d, "lte-root-contract:" + spec["kind"]))
        except Exception:
            pass
        # the matching that findMatching produces at this velocity conserves entropy
        E = mismatch(hy, res, judge)
        if E is None:
            e_ = judge.eos
            cb_gt_cs = float(e_.csqLowT(Tn)) > float(e_.csqHighT(Tn)) and spec["kind"] == \
                "template"
            fails.append(("vwLTE=%.8f: findMatching has no valid matching at the returned "
                          "velocity%s; %s" % (res, " [cb^2 > cs^2]" if cb_gt_cs else "", spec), d,
                          CLASS_CB_GT_CS if cb_gt_cs else "lte-findMatching:" + sid))
        else:
            worst("entropy_of_findMatching", abs(E), case)
            if abs(E) > TOL_ENT_SHOOT:
                fails.append(("vwLTE=%.8f: findMatching there has T+g+/(T-g-)-1 = %.3e; %s" % (
                    res, E, spec), d, "entropy-findMatching:" + spec["kind"]))
        if judge.lo < res < judge.hi:
            pts = [judge.lo + (res - judge.lo) * x for x in (0.0, 0.4, 0.8)] + \
                [res + (judge.hi - res) * x for x in (0.2, 0.6, 1.0)]
            BRIDGE.append((spec, hy, judge, [(v, mismatch(hy, v, judge)) for v in pts]))
        if not (judge.vMin - 1e-4 <= res <= judge.vJ + 1e-5):
            fails.append(("vwLTE=%.8f outside the independent window [vMin, vJ] = [%.6f, %.6f]"
                          "; %s" % (res, judge.vMin, judge.vJ, spec), d, "lte-outside-window"))
    elif res == 1:
        sc = scan(ctx, hy, judge, nscan)
        vals = [(v, e) for v, e in sc if e is not None]
        top = vals[-1][1] if vals else None
        if len(vals) < nscan // 2 or top is None:
            ctx.count("lte_runaway_unscannable", case)
            UNJUDGED.append(("runaway sentinel: only %d of %d scanned velocities have a valid "
                             "matching" % (len(vals), nscan), case))
        elif abs(top) < MARGIN_E:
            ctx.count("lte_near_threshold", case, bucket="runaway")
        else:
            ctx.count("lte_runaway" + tag, case, bucket=spec["kind"])
            neg = [(v, e) for v, e in vals if e < -MARGIN_E]
            neg = [(v, e) for v, e in neg if mismatch(hy, v, judge, confirm=True) is not None]
            if neg:
                v, e = neg[0]
                fails.append((
                    "findvwLTE returned 1 (runaway) but the entropy mismatch changes sign in "
                    "the window: T+g+/(T-g-)-1 = %+.3e at vw=%.6f (%d of %d scanned velocities "
                    "negative; %+.3e at vw=%.4f); %s" % (e, v, len(neg), len(vals), vals[0][1],
                                                         vals[0][0], spec),
                    dict(kind="runaway", vw=v, **case),
                    CLASS_NO_BRACKET if no_bracket_class(events) else "runaway-sign:" + sid))
            else:
                BRIDGE.append((spec, hy, judge, vals))
    elif res == 0:
        lo = judge.lo
        E = mismatch(hy, lo, judge, confirm=True)
        for step in (0.02, 0.05, 0.1):
            # no valid matching exactly there (findMatching's own slow-wall problems belong to
            # C03): the lowest velocity at which one exists
            if E is not None or judge.lo + step >= judge.hi:
                break
            lo = judge.lo + step
            E = mismatch(hy, lo, judge, confirm=True)
        if E is None:
            ctx.count("lte_static_unscannable", case)
            UNJUDGED.append(("static sentinel: no valid matching at the lowest velocity %.6f"
                             % lo, case))
        elif abs(E) < MARGIN_E:
            ctx.count("lte_near_threshold", case, bucket="static")
        else:
            ctx.count("lte_static" + tag, case, bucket=spec["kind"])
            if E > 0:
                sc = scan(ctx, hy, judge, 16)
                fails.append((
                    "findvwLTE returned 0 (static) but the entropy mismatch is %+.3e > 0 at "
                    "the smallest allowed velocity vw=%.6f (scan: %s); %s" % (
                        E, lo, " ".join("%+.0e" % e if e is not None else "n/a"
                                        for _v, e in sc), spec),
                    dict(kind="static", vw=lo, **case),
                    CLASS_KEY if crude_guess_class(hy, aux, judge) else "static-sign:" + sid))
            else:
                BRIDGE.append((spec, hy, judge, [(lo, E)]))
    else:
        fails.append(("findvwLTE returned %r; %s" % (res, spec), dict(kind="value", **case),
                      "lte-value"))
    return fails, (term, why, res, case)


BRIDGE = []


def check_sign_bridge(ctx):
    """Hypothesis of Model/FindVwLTE.v lte_sentinel_bridge, validated: the shock-temperature
    difference of the entropy-conserving matching (what the code tests) and the entropy
    mismatch of the Tn-reaching matching (what the property speaks about) have the same sign."""
    for spec, hy, judge, vals in BRIDGE[::max(1, len(BRIDGE) // ctx.n(24, 120))]:
        pts = vals[::max(1, len(vals) // 6)][:6]
        for v, E in pts:
            if E is None or abs(E) < 10 * MARGIN_E:
                continue
            try:
                d = lte_residual(hy, v)
                ok = bool(hy.success)
            except Exception:
                continue
            if not ok or abs(d) < 1e-4:
                continue
            ctx.count("sign_bridge_point")
            if (d > 0) != (E > 0):
                ctx.fail_input("sign bridge violated at vw=%.6f: shockTnuclDiff/Tn = %+.3e but "
                               "the entropy mismatch of findMatching is %+.3e; %s" % (
                                   v, d, E, spec), dict(kind="bridge", spec=spec, vw=v),
                               key="sign-bridge:" + spec["kind"])


# WallGoManager on a one-field quartic model: wallSpeedLTE after a re-setup

def _quartic_manager():
    import logging
    import WallGo
    from WallGo import EffectivePotential, Fields, GenericModel
    P = dict(D=0.2, E=0.05, lam=0.1, T0=80.0, g=100.0)

    class QPot(EffectivePotential):
        fieldCount = 1
        effectivePotentialError = 1e-15

        def evaluate(self, fields, temperature):
            phi = Fields(fields).getField(0)
            T = np.asarray(temperature)
            return (P["D"] * (T ** 2 - P["T0"] ** 2) * phi ** 2 - P["E"] * T * phi ** 3
                    + P["lam"] / 4 * phi ** 4 - P["g"] * math.pi ** 2 / 90 * T ** 4)

    class QModel(GenericModel):
        def __init__(self):
            self.modelParameters = dict(P)
            self.potential = QPot()

        @property
        def fieldCount(self):
            return 1

        def getEffectivePotential(self):
            return self.potential
    m = WallGo.WallGoManager()
    m.setVerbosity(logging.ERROR)
    m.registerModel(QModel())

    def setup(Tn):
        disc = 9 * P["E"] ** 2 * Tn ** 2 - 8 * P["lam"] * P["D"] * (Tn ** 2 - P["T0"] ** 2)
        phi = (3 * P["E"] * Tn + math.sqrt(disc)) / (2 * P["lam"])
        m.setupThermodynamicsHydrodynamics(
            WallGo.PhaseInfo(temperature=Tn, phaseLocation1=Fields([0.0]),
                             phaseLocation2=Fields([phi])),
            WallGo.VeffDerivativeSettings(temperatureVariationScale=2.0,
                                          fieldValueVariationScale=[50.0]))
    return m, setup


def mismatch_simple(hy, vw):
    """mismatch of findMatching(vw) when no independent EOS is available (traced potential)"""
    try:
        (vp, vm, Tp, Tm), fb = S.find_matching(hy, vw)
    except Exception:
        return None
    if vp is None or not hy.success or fb:
        return None
    return Tp * gam(vp) / (Tm * gam(vm)) - 1


def through_manager(ctx, spec):
    """other call path: the EOS handed to WallGoManager._initHydrodynamics; wallSpeedLTE() must
    be what a solver built with the package defaults returns, and is judged like it"""
    import WallGo
    th = S.make_eos(spec)
    m = WallGo.WallGoManager()
    m._initHydrodynamics(th)
    hy = m.hydrodynamics
    cfg = WallGo.Config().configHydrodynamics
    case = dict(spec=spec, path="WallGoManager._initHydrodynamics")
    ctx.count("through_manager", case, bucket=spec["kind"])
    got = (float(hy.TMaxHydro / hy.Tnucl), float(hy.TMinHydro / hy.Tnucl), hy.rtol, hy.atol)
    want = (cfg.tmax, cfg.tmin, cfg.relativeTol, cfg.absoluteTol)
    if any(abs(a - b) > 1e-12 * abs(b) for a, b in zip(got, want)):
        ctx.fail_input("the manager built Hydrodynamics with (tmax, tmin, rtol, atol) = %r, "
                       "configHydrodynamics says %r; %s" % (got, want, spec),
                       dict(kind="manager", **case), key="manager-config")
    try:
        v = float(m.wallSpeedLTE())
    except Exception as ex:
        v = repr(ex)[:80]
    _th, ref = S.make_hydro(spec, cfg.relativeTol, cfg.absoluteTol, cfg.tmax, cfg.tmin)
    try:
        w = float(ref.findvwLTE())
    except Exception as ex:
        w = repr(ex)[:80]
    if v != w:
        ctx.fail_input("WallGoManager.wallSpeedLTE() = %r but Hydrodynamics(th, %r, %r, %r, %r)"
                       ".findvwLTE() = %r; %s" % (v, cfg.tmax, cfg.tmin, cfg.relativeTol,
                                                  cfg.absoluteTol, w, spec),
                       dict(kind="manager", **case), key="manager-path")
    # and judged independently (prebuilt solver of the manager)
    th2 = S.make_eos(spec)
    m2 = WallGo.WallGoManager()
    m2._initHydrodynamics(th2)
    return check_lte(ctx, spec, prebuilt=(th2, m2.hydrodynamics), tag=":manager")


def success_measured(ctx, spec):
    """Hydrodynamics.success after matchDeflagOrHyb equals the generated definition success_of
    applied to what scipy root reported (Props/C05.v success_definition)"""
    import WallGo.hydrodynamics as H
    th, hy = S.make_hydro(spec)
    seen = []
    orig = H.root

    def root(f, x0, *a, **k):
        sol = orig(f, x0, *a, **k)
        seen.append((bool(sol.success), float(np.sum(np.asarray(sol.fun) ** 2)),
                     int(sol.status)))
        return sol
    H.root = root
    try:
        for vw in (hy.vMin, 0.5 * (hy.vMin + hy.vJ), hy.vJ - 1e-10):
            del seen[:]
            try:
                hy.matchDeflagOrHyb(vw)
            except Exception:
                pass
            if not seen:
                continue
            ok, ss, status = seen[-1]
            want = ok or ss < SUCCESS_THRESHOLD
            ctx.count("success_definition_measured", None, bucket="hybr status %d -> %s" % (
                status, want))
            if bool(hy.success) != want:
                ctx.fail_input("matchDeflagOrHyb(%r): Hydrodynamics.success = %r but scipy root "
                               "reported success=%r status=%d sum(fun^2)=%.3e; %s" % (
                                   vw, bool(hy.success), ok, status, ss, spec),
                               dict(kind="success", spec=spec, vw=vw), key="success-definition")
    finally:
        H.root = orig


SUCCESS_THRESHOLD = 1e-6       # overwritten from the source by _run (success_definition)


def manager_history(ctx):
    """setup(Tn1) -> wallSpeedLTE() -> setup(Tn2) -> wallSpeedLTE(): the second answer is the
    one of a fresh manager at Tn2 and conserves the entropy flux at Tn2"""
    for Tn1, Tn2 in ((83.0, 81.5), (82.0, 83.5))[:ctx.n(1, 2)]:
        m, setup = _quartic_manager()
        setup(Tn1)
        v1 = float(m.wallSpeedLTE())
        setup(Tn2)
        v2 = float(m.wallSpeedLTE())
        f, fsetup = _quartic_manager()
        fsetup(Tn2)
        want = float(f.wallSpeedLTE())
        case = dict(model="quartic1 D=0.2 E=0.05 lam=0.1 T0=80 g=100", Tn1=Tn1, Tn2=Tn2)
        ctx.count("history_manager_resetup", case)
        hy = m.hydrodynamics
        bad = None
        if hy.Tnucl != Tn2:
            bad = "manager.hydrodynamics.Tnucl = %r after setup at %r" % (hy.Tnucl, Tn2)
        elif abs(v2 - want) > 1e-9 * max(abs(want), 1e-30):
            bad = ("wallSpeedLTE() after re-setup at Tn=%g is %.10g (first setup Tn=%g gave "
                   "%.10g) but a fresh manager at Tn=%g gives %.10g" % (Tn2, v2, Tn1, v1, Tn2,
                                                                       want))
        elif 0 < v2 < 1:
            E = mismatch_simple(hy, v2)
            if E is None or abs(E) > TOL_ENT_SHOOT:
                bad = ("after re-setup at Tn=%g: findMatching(wallSpeedLTE()=%.8f) has "
                       "T+g+/(T-g-)-1 = %r" % (Tn2, v2, E))
        if bad:
            ctx.fail_input(bad + "; " + json.dumps(case), dict(kind="manager_history", **case),
                           key="manager-history")


OTHER_CLASS_HITS = []
MAX_OTHER_CLASS_HITS = (4, 16)      # quick, thorough: observed 0-2 / 6-12 on the clean tree


def grid_outcome(ctx, spec, fails, mc):
    sid = "%s:%s" % (spec["kind"], spec_id(spec))
    if sid not in GRID_INTERIOR:
        return
    ctx.count("grid_point_with_recorded_interior_answer")
    res = mc[2] if mc is not None else None
    if res is None or not 0 < res < 1:
        ctx.fail_input("findvwLTE %s for %s, a point of the fixed grid whose recorded answer is "
                       "an interior velocity" % ("raised / was not judged" if res is None else
                                                 "returned the sentinel %g" % res, spec),
                       dict(kind="grid", spec=spec, rtol=1e-6, atol=1e-10),
                       key="grid-outcome:" + sid)


def direct(ctx, proved):
    WORST.clear()
    del UNJUDGED[:]
    del BRIDGE[:]
    del OTHER_CLASS_HITS[:]
    sp = specs(ctx)
    terms, meta = [], []
    for spec, rtol, atol in KNOWN_INPUTS:
        try:
            fails, _mc = check_lte(ctx, spec, rtol, atol)
        except Exception as ex:
            ctx.fail_input("harness/implementation raised %r for %s" % (ex, spec),
                           dict(kind="raise", spec=spec, rtol=rtol, atol=atol),
                           key="raises:%s:%s" % (spec["kind"], spec_id(spec)))
            continue
        ctx.count("known_input_replayed", dict(spec=spec, rtol=rtol, atol=atol),
                  bucket="still failing" if fails else "passes now")
        for what, rep, key in fails:
            ctx.fail_input(what, rep, key=key)
    for spec in KNOWN_INPUTS_OTHER:
        try:
            fails, _mc = check_lte(ctx, spec)
        except Exception as ex:
            ctx.fail_input("harness/implementation raised %r for %s" % (ex, spec),
                           dict(kind="raise", spec=spec), key="raises:" + spec["kind"])
            continue
        ctx.count("known_input_replayed", dict(spec=spec),
                  bucket="still failing" if fails else "passes now")
        for what, rep, key in fails:
            ctx.fail_input(what, rep, key=key)
    for n, spec in enumerate(sp):
        try:
            fails, mc = check_lte(ctx, spec)
        except Exception as ex:
            ctx.fail_input("harness/implementation raised %r for %s" % (ex, spec),
                           dict(kind="raise", spec=spec, tb=traceback.format_exc()[-600:]),
                           key="raises:" + spec["kind"])
            continue
        for what, rep, key in fails:
            if key == CLASS_KEY:
                OTHER_CLASS_HITS.append(spec)
                ctx.log("attributed to %s (not a recorded input): %s" % (CLASS_KEY, spec))
            ctx.fail_input(what, rep, key=key)
        grid_outcome(ctx, spec, fails, mc)
        if mc is not None:
            term, why, res, case = mc
            if term is None:
                ctx.broken.append("correspondence: trace of findvwLTE does not fit the model "
                                  "(%s)" % why)
                ctx.log("trace mismatch", why, json.dumps(case))
            else:
                terms.append(term)
                meta.append((res, case))
            if n < 4:
                ctx.sample(dict(eos=spec, vwLTE=res))
    # histories: the solver is used after its model object moved on to another nucleation
    # temperature (a temperature scan re-using one model; tests/test_Hydrodynamics.py does it)
    pool = [x for x in sp if x["kind"] in ("bag", "twostep")]
    for spec in pool[2::ctx.n(9, 6)]:
        later = round(spec["Tn"] + (0.1 if spec["Tn"] < 0.8 else -0.15), 3)
        try:
            fails, mc = check_lte(ctx, spec, later_Tn=later)
        except Exception as ex:
            ctx.fail_input("harness/implementation raised %r for %s (history)" % (ex, spec),
                           dict(kind="raise", spec=spec, later_Tn=later,
                                tb=traceback.format_exc()[-600:]),
                           key="raises:%s:history" % spec["kind"])
            continue
        ctx.count("history_model_Tnucl_changed", dict(spec=spec, later=later),
                  bucket=spec["kind"])
        for what, rep, key in fails:
            if key != CLASS_KEY and "history" not in key:
                key += ":history"
            ctx.fail_input("[solver built at Tn=%g; model.Tnucl then set to %g and a second "
                           "solver built] %s" % (spec["Tn"], later, what), rep, key=key)
        if mc is not None and mc[0] is not None:
            terms.append(mc[0])
            meta.append((mc[2], mc[3]))
        # ... and the SECOND solver, built on the re-used model object, is as good as one
        # built on a fresh model at that temperature
        second = SECOND_SOLVER[0]
        if second is not None and spec["kind"] in ("bag", "twostep"):
            spec2 = dict(spec, Tn=later)
            try:
                th2, hy2 = second
                th2.Tnucl = later
                f2, mc2 = check_lte(ctx, spec2, prebuilt=(th2, hy2), tag=":reused-model")
                try:
                    fresh = float(S.make_hydro(spec2)[1].findvwLTE())
                except Exception as ex:
                    fresh = repr(ex)[:60]
                got = mc2[2] if mc2 is not None else None
                if mc2 is not None and got != fresh:
                    f2.append(("findvwLTE() = %r for a solver built at Tn=%g on a model object "
                               "that served Tn=%g before, %r on a fresh model; %s" % (
                                   got, later, spec["Tn"], fresh, spec2),
                               dict(kind="history", spec=spec2, earlier_Tn=spec["Tn"]),
                               "reused-model-object"))
                ctx.count("history_second_solver_on_reused_model", dict(spec=spec2))
                for what, rep, key in f2:
                    if key != CLASS_KEY and "reused" not in key:
                        key += ":reused-model"
                    ctx.fail_input("[second solver on a model object that served Tn=%g before]"
                                   " %s" % (spec["Tn"], what), rep, key=key)
            except Exception as ex:
                ctx.fail_input("second solver on a re-used model raised %r; %s" % (ex, spec2),
                               dict(kind="raise", spec=spec2), key="raises:reused-model")
    try:
        manager_history(ctx)
    except Exception as ex:
        ctx.log("manager history raised", traceback.format_exc())
        ctx.broken.append("harness: manager history raised %r" % ex)

    def report(tagname, spec, fails, mc, suffix):
        for what, rep, key in fails:
            if key != CLASS_KEY and suffix not in key:
                key += suffix
            ctx.fail_input("[%s] %s" % (tagname, what), rep, key=key)
        if mc is not None and mc[0] is not None:
            terms.append(mc[0])
            meta.append((mc[2], mc[3]))

    def guarded(tagname, spec, fn, suffix):
        try:
            fails, mc = fn()
        except Exception as ex:
            ctx.fail_input("[%s] harness/implementation raised %r for %s" % (tagname, ex, spec),
                           dict(kind="raise", spec=spec, tb=traceback.format_exc()[-600:]),
                           key="raises:%s%s" % (spec["kind"], suffix))
            return
        report(tagname, spec, fails, mc, suffix)
    # strong supercooling: the first 2x2 solves do not converge there and the guard
    # `or not self.success` of findvwLTE decides
    for psi in (0.9, 0.95, 0.899):
        for Tn in (0.3, 0.301, 0.32, 0.35, 0.4)[::ctx.n(2, 1)]:
            spec = dict(kind="bag", psi=psi, Tn=Tn)
            def sc():
                fails, mc = check_lte(ctx, spec)
                grid_outcome(ctx, spec, fails, mc)
                return fails, mc
            guarded("strong supercooling", spec, sc, "")
            ctx.count("family_strong_supercooling", spec)
    # the EOS through the manager (other call path, config defaults)
    for spec in pool[1::ctx.n(12, 6)]:
        guarded("through WallGoManager", spec, lambda: through_manager(ctx, spec), ":manager")
    # other solver parameters (tmax, tmin, rtol, atol) and integer-typed inputs
    for k, spec in enumerate(pool[3::ctx.n(12, 6)]):
        tmax, tmin, rt, at = [(5.0, 0.05, 1e-7, 1e-11), (20.0, 0.005, 1e-6, 1e-10),
                              (10, 0.01, 1e-8, 1e-12), (3.0, 0.1, 1e-6, 1e-9)][k % 4]
        guarded("tmax=%r tmin=%r rtol=%g atol=%g" % (tmax, tmin, rt, at), spec,
                lambda: check_lte(ctx, spec, rtol=rt, atol=at, tmax=tmax, tmin=float(tmin)),
                ":params")
        ctx.count("family_other_parameters", dict(spec=spec, tmax=tmax, tmin=tmin))
    for Tn in (1, 2):
        spec = dict(kind="template", psiN=0.9, alN=0.1, cs2=0.3, cb2=0.28, Tn=Tn)
        guarded("integer Tn, tmax", spec, lambda: check_lte(ctx, spec, tmax=10), ":int")
    # call histories on one object: findvwLTE twice, and after other methods
    for spec in pool[5::ctx.n(12, 6)]:
        def twice():
            th, hy = S.make_hydro(spec)
            first = None
            try:
                first = float(hy.findvwLTE())
            except Exception:
                pass
            try:
                hy.findMatching(0.5 * (hy.vMin + hy.vJ))
                hy.findHydroBoundaries(0.9 * hy.vJ)
                hy.efficiencyFactor(min(0.99, hy.vJ + 0.02))
            except Exception:
                pass
            fails, mc = check_lte(ctx, spec, prebuilt=(th, hy), tag=":second-call")
            if mc is not None and first is not None and mc[2] != first:
                fails.append(("findvwLTE() returned %r at the first call and %r after "
                              "findMatching/findHydroBoundaries/efficiencyFactor on the same "
                              "object; %s" % (first, mc[2], spec),
                              dict(kind="history", spec=spec), "history-dependence"))
            return fails, mc
        guarded("second call on one object", spec, twice, ":second-call")
        ctx.count("family_second_call", spec)
    # the flag Hydrodynamics.success is what the generated definition says
    for spec in pool[::ctx.n(10, 3)] + [dict(kind="bag", psi=0.9, Tn=0.3)]:
        try:
            success_measured(ctx, spec)
        except Exception as ex:
            ctx.broken.append("harness: success_measured raised %r" % ex)
    try:
        check_sign_bridge(ctx)
    except Exception as ex:
        ctx.log("sign bridge raised", traceback.format_exc())
        ctx.broken.append("harness: sign bridge raised %r" % ex)
    # the repo's own tests run with atol = 1e-6: diagnostics, gated only when listed
    cand = []
    diag = [s for s in sp if s["kind"] == "bag"]
    for spec in diag[1:48:ctx.n(3, 1)] + diag[48:ctx.n(50, 100)]:
        try:
            fails, _mc = check_lte(ctx, spec, rtol=1e-6, atol=1e-6)
        except Exception:
            continue
        cand += fails
    if cand:
        listed = any(k.get("property") == ctx.pid and k.get("key") == "lte-atol-1e-6"
                     for k in ctx.known.get("findings", []))
        msg = ("with absoluteTol = 1e-6 (the value used by tests/test_Hydrodynamics.py; the "
               "package default is 1e-10) %d sampled models violate the property, first: %s" % (
                   len(cand), cand[0][0]))
        ctx.cov["atol_1e-6_candidates"] = [c[0] for c in cand[:10]]
        if listed:
            ctx.fail_input(msg, cand[0][1], key="lte-atol-1e-6")
        else:
            ctx.log("CANDIDATE FINDING (not gated): " + msg)
    # model <-> code: exact outcome on the recorded oracle values
    if proved and terms:
        bad = ctx.run_cases("Lte", CASE_HDR, terms, per_file=60, timeout=300)
        for _ in terms:
            ctx.count("model_vs_code_findvwLTE")
        for b in bad:
            ctx.broken.append("correspondence: FindVwLTE model disagrees with the running "
                              "findvwLTE (%s)" % b["file"])
            for i in b["cases"][:5]:
                ctx.log("model/code mismatch:", json.dumps(meta[i], default=str))
            if not b["cases"]:
                ctx.log(b["err"])
    for k in sorted(WORST):
        ctx.log("worst observed %-26s %.3e  %s" % (k, WORST[k][0], json.dumps(
            WORST[k][1], default=str)[:150]))
    ctx.cov["worst_observed"] = {k: v[0] for k, v in WORST.items()}
    ctx.cov["nspecs"] = len(sp)
    ctx.cov["class_hits_not_recorded"] = OTHER_CLASS_HITS[:40]
    cap = ctx.n(*MAX_OTHER_CLASS_HITS)
    if len(OTHER_CLASS_HITS) > cap:
        ctx.fail_input("%d sampled inputs besides the %d recorded ones fall into the class %s "
                       "(at most %d on the unchanged tree), first: %s" % (
                           len(OTHER_CLASS_HITS), len(KNOWN_INPUTS), CLASS_KEY, cap,
                           OTHER_CLASS_HITS[0]),
                       dict(kind="static", spec=OTHER_CLASS_HITS[0], rtol=1e-6, atol=1e-10),
                       key=CLASS_KEY + ":more-often-than-on-the-clean-tree")
    return [s for s in sp if s["kind"] == "template"]


def report_unjudged(ctx):
    """fail closed: inputs that could not be judged"""
    allowed = ctx.n(0, ctx.cov.get("nspecs", 0) // 100)
    ctx.cov["unjudged"] = [u[0] + " " + json.dumps(u[1], default=str) for u in UNJUDGED[:20]]
    if len(UNJUDGED) > allowed:
        why, case = UNJUDGED[0]
        ctx.fail_input("%d sampled inputs could not be judged (allowed %d), first: %s; %s" % (
            len(UNJUDGED), allowed, why, json.dumps(case, default=str)),
            dict(kind="unjudged", **case), key="unjudged-inputs")


def _private_build(ctx):
    """Work in build/<pid>.<ospid>: another `./check C05` / try_mutant run started meanwhile
    wipes build/<pid> (Ctx does rmtree) and would break the late Coq steps of a long run.
    The directory is moved back to build/<pid> at the end."""
    import os
    shared = ctx.bdir
    ctx.bdir = "%s.%d" % (shared, os.getpid())
    os.makedirs(ctx.bdir, exist_ok=True)
    return shared


def _publish_build(ctx, shared):
    import shutil
    private = ctx.bdir
    try:
        shutil.rmtree(shared, ignore_errors=True)
        shutil.move(private, shared)
    except Exception:
        shutil.rmtree(private, ignore_errors=True)
    ctx.bdir = shared


def run(ctx):
    shared = _private_build(ctx)
    try:
        _run(ctx)
    finally:
        _publish_build(ctx, shared)


def _run(ctx):
    srcs = [vlib.read_src(n) for n in ("hydrodynamics.py", "hydrodynamicsTemplateModel.py",
                                       "helpers.py")]
    gen_ok = True
    try:
        text, info = gen_hydro_shock.generate_c05(*srcs)
        ftext, facts = gen_hydro_shock.generate_lte_facts(srcs[0], srcs[1])
        facts["manager"] = gen_hydro_shock.manager_lte_fact(vlib.read_src("manager.py"))
        facts["manager_init"], defaults = gen_hydro_shock.manager_hydro_facts(
            vlib.read_src("manager.py"), vlib.read_src("config.py"))
        if [float(defaults[k]) for k in ("tmax", "tmin", "relativeTol", "absoluteTol")] != \
                [10.0, 0.01, 1e-6, 1e-10]:
            raise pyrx.TranslateError(
                "ConfigHydrodynamics defaults %r are not the solver parameters the harness "
                "samples (10, 0.01, 1e-6, 1e-10)" % defaults)
        facts["eom"] = gen_hydro_shock.eom_lte_fact(vlib.read_src("equationOfMotion.py"))
        stext, sfacts = gen_hydro_shock.success_definition(srcs[0])
        facts["success"] = sfacts
        global SUCCESS_THRESHOLD
        SUCCESS_THRESHOLD = float(Fraction(sfacts["threshold"]))
        text += stext
        ctx.write("HydroLTE.v", text, sources=dict(
            files=["src/WallGo/hydrodynamics.py", "src/WallGo/hydrodynamicsTemplateModel.py",
                   "src/WallGo/helpers.py"], sha=[vlib.sha(s) for s in srcs],
            spans=info["spans"], preconditions=info["preconditions"], facts=info["facts"]))
        ctx.write("LteFacts.v", ftext, sources=dict(file="src/WallGo/hydrodynamics.py",
                                                    facts=facts))
    except pyrx.TranslateError as e:
        ctx.log("translator failed:", e)
        ctx.broken.append("translator: %s" % e)
        gen_ok = False
    proved = gen_ok and ctx.prove(extra=["HydroLTE.v", "LteFacts.v"])
    ctx.trusted += ["tools/pyrx.py + tools/gen_hydro_shock.py (AST translator, structural "
                    "facts of findvwLTE)", "Interval tactic (certified evaluation)",
                    "coq/Model/FindVwLTE.v is hand-written (tied by AST facts + exact "
                    "vm_compute correspondence on recorded runs)",
                    "the independent xi-integrator of tools/props/C03.py (Tn boundary)"]
    try:
        certified(ctx, proved)
    except Exception as ex:
        ctx.log("certified evaluation raised", traceback.format_exc())
        ctx.broken.append("correspondence: harness raised %r" % ex)
    tspecs = direct(ctx, proved)
    try:
        template_decisions(ctx, proved, tspecs[:ctx.n(10, 80)])
    except Exception as ex:
        ctx.log("template decisions raised", traceback.format_exc())
        ctx.broken.append("correspondence: harness raised %r" % ex)
    report_unjudged(ctx)
    ctx.log("known-finding hits: %r" % (getattr(ctx, "known_count", {}),))
    ctx.cov["rule"] = (
        "EOS: bag on the grid psi in {.2,.4,.5,.6,.7,.8,.9,.95} x Tn/Tc in {.5,.6,.7,.8,.9,.95} "
        "plus Tn >= Tc, strong supercooling Tn/Tc 0.3-0.4 and random points; two-step toy model; "
        "template EOS (Tn in {0.01, 1, 100}); solver parameters (10, 0.01, 1e-6, 1e-10) = "
        "ConfigHydrodynamics defaults (AST fact) plus four other (tmax,tmin,rtol,atol) sets and "
        "integer-typed inputs. The judge uses the spec's analytic EOS, its own vJ and vMin and "
        "the independent integrator; a matching is valid iff it conserves the fluxes. Interior: "
        "entropy, fluxes, Tn boundary, entropy of findMatching, bracket orientation. Sentinels: "
        "mismatch scanned at %d velocities over [max(vMin+%g, 0.05), vJ-%g] (runaway; negative "
        "points confirmed by the integrator) / evaluated at max(vMin+%g, 0.05) (static). "
        "|mismatch| < %g at the decisive end: near-threshold, not judged. Families: model.Tnucl "
        "changed after construction, manager re-setup, EOS through WallGoManager."
        "_initHydrodynamics, second call on one object. Unjudged inputs fail closed. distinct "
        "= distinct (EOS, parameters, family)." % (
            ctx.n(64, 512), MARGIN_V, MARGIN_TOP, MARGIN_V, MARGIN_E))
    ctx.assumptions += [
        "scipy root(hybr) returns a zero of the generated residual when Hydrodynamics.success "
        "is True (validated: fluxes at the returned matching)",
        "root_scalar returns a point of its bracket where the function vanishes to tolerance "
        "(validated: Tn boundary at the returned velocity)",
        "whole-window sign of the mismatch for the runaway sentinel: validated by scanning, "
        "not proved (monotonicity is physics)"]


def replay(rep):
    print(json.dumps({k: v for k, v in rep.items() if k != "tb"}, indent=1))
    spec = rep.get("spec")
    if not spec:
        return 0

    class Dummy:
        def __init__(self):
            self.tier = "quick"
            self.known = {}

        def count(self, *a, **k):
            pass

        def n(self, a, b):
            return a
    if rep.get("kind") == "manager_history":
        return 0
    fails, mc = check_lte(Dummy(), spec, rep.get("rtol", 1e-6), rep.get("atol", 1e-10),
                          later_Tn=rep.get("later_Tn"))
    if mc:
        print("findvwLTE() =", mc[2])
    for f in fails:
        print("FAIL:", f[0])
    return 1 if fails else 0
