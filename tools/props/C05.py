"""C05 -- the LTE wall velocity conserves the entropy flux across the wall."""
import json
import math
import traceback
from fractions import Fraction

import numpy as np

import gen_hydro_shock
import pyrx
import vlib
from props import C03 as S          # equations of state, independent xi-integrator (oracle)

EXPLANATION = (
    "The closure `matching` of matchDeflagOrHyb (vp=None), vpvmAndvpovm, the statements of "
    "matchDeflagOrHyb after the 2x2 solve, the template findvwLTE with its closure, getVp and "
    "the alpha bounds of solveAlpha are regenerated from the sources on every run. Coq proves "
    "for EVERY equation of state: a zero of the generated residual satisfies T+^2(1-v-^2) = "
    "T-^2(1-v+^2); the returned quadruple has T+ gamma+ = T- gamma- (with real square roots) "
    "and, at a zero of the residual, equal energy and momentum fluxes; the decision rules of "
    "the template findvwLTE and the documented alpha bounds. The decision logic of "
    "Hydrodynamics.findvwLTE is an executable Coq model over oracles with theorems for the "
    "three outcomes (interior => sign change between the bracket ends and the root finder's "
    "output on that bracket; 0 => stopping sign at vMin; 1 => one end tested; the whole-window "
    "sign only under monotonicity: partial); the model is compared by vm_compute with "
    "instrumented runs of the real function. The property is evaluated on the real code: "
    "entropy, fluxes and the Tn boundary (independent xi-integrator) at the returned "
    "velocity; window scans for both sentinels.")

MARGIN_V = 1e-2          # scans run over [max(vMin + MARGIN_V, S.SLOW_WALL), vJ - MARGIN_TOP]
MARGIN_TOP = 1e-3
MARGIN_E = 3e-4          # |mismatch| at the decisive end below this: too close to a threshold
TOL_ENT = 1e-9           # T+ g+ = T- g- at the LTE matching (by construction of v+)
TOL_FLUX = 2e-6          # energy / momentum flux across the wall (2x2 solve, xtol = atol)
TOL_TN = 5e-5            # Tn boundary at the returned vw (root in vw has rtol 1e-6)
TOL_ENT_SHOOT = 5e-5     # entropy mismatch of the Tn-shooting matching at the returned vw
WORST = {}


# Inputs on which the UNCHANGED code violates the property (registered in
# known_findings.json under input-naming keys).  They are replayed first in both tiers so
# that the KNOWN-FINDING lines are deterministic; every other input keeps its own key.
KNOWN_INPUTS = [
    (dict(kind="bag", psi=0.655, Tn=0.561), 1e-6, 1e-10),
    (dict(kind="bag", psi=0.548, Tn=0.598), 1e-6, 1e-10),
    (dict(kind="bag", psi=0.169, Tn=0.774), 1e-6, 1e-10),
    (dict(kind="bag", psi=0.242, Tn=0.686), 1e-6, 1e-10),
    (dict(kind="bag", psi=0.722, Tn=0.523), 1e-6, 1e-10),
    (dict(kind="bag", psi=0.429, Tn=0.7), 1e-6, 1e-10),
    (dict(kind="template", psiN=0.5348, alN=1.07426, cs2=0.271, cb2=0.2613, Tn=1.0),
     1e-6, 1e-10),
    (dict(kind="bag", psi=0.6, Tn=0.6), 1e-6, 1e-6),
    (dict(kind="bag", psi=0.4, Tn=0.7), 1e-6, 1e-6),
]


def gam(v):
    return 1.0 / math.sqrt(1.0 - v * v)


def worst(name, value, case):
    if value > WORST.get(name, (0.0, None))[0]:
        WORST[name] = (value, case)


# ----------------------------------------------------------------------------------------
# inputs

def specs(ctx):
    rng = ctx.rng
    out = []
    for psi in (0.2, 0.4, 0.5, 0.6, 0.7, 0.8, 0.9, 0.95):
        for Tn in (0.5, 0.6, 0.7, 0.8, 0.9, 0.95):
            out.append(dict(kind="bag", psi=psi, Tn=Tn))
    for psi, Tn in ((0.9, 1.02), (0.8, 1.1), (0.6, 1.05), (0.95, 1.003), (0.62, 0.88),
                    (0.58, 0.88), (0.65, 0.92)):
        out.append(dict(kind="bag", psi=psi, Tn=Tn))
    for _ in range(ctx.n(8, 120)):
        out.append(dict(kind="bag", psi=round(rng.uniform(0.15, 0.98), 3),
                        Tn=round(rng.uniform(0.45, 1.08), 3)))
    for Tn in (0.5, 0.6, 0.7, 0.8, 0.9, 0.95, 1.02):
        out.append(dict(kind="twostep", ab=0.2, asy=0.1, musq=0.4, Tn=Tn))
    for _ in range(ctx.n(4, 40)):
        out.append(dict(kind="twostep", ab=round(rng.uniform(0.16, 0.24), 3),
                        asy=round(rng.uniform(0.06, 0.12), 3),
                        musq=round(rng.uniform(0.32, 0.48), 3),
                        Tn=round(rng.uniform(0.5, 1.02), 3)))
    for k in range(ctx.n(10, 80)):
        psiN = 1 - 0.5 * rng.random()
        cs2 = 1 / 4 + (1 / 3 - 1 / 4) * rng.random()
        out.append(dict(kind="template", psiN=round(psiN, 4),
                        alN=round((1 - psiN) / 3 * rng.uniform(0.5, 1.0) + rng.random() *
                                  rng.choice([0.05, 0.3, 1.0]), 5),
                        cs2=round(cs2, 4), cb2=round(cs2 - (1 / 3 - 1 / 4) * rng.random(), 4),
                        Tn=[1.0, 0.01, 100.0][k % 3]))
    return out


# ----------------------------------------------------------------------------------------
# instrumented run of Hydrodynamics.findvwLTE

class LteRaised(Exception):
    def __init__(self, exc, aux):
        Exception.__init__(self, repr(exc))
        self.exc, self.aux = exc, aux


def record_findvwLTE(hy):
    """Runs the real hy.findvwLTE() while recording, from outside, the top-level calls it
    makes: matchDeflagOrHyb(vw) [+ success flag], solveHydroShock, root_scalar(shock |
    shockTnuclDiff).  Returns (result, events, aux); aux lists for every top-level
    matchDeflagOrHyb call the initial guess handed to scipy root, the success flag and
    whether the call raised.  If findvwLTE raises, LteRaised carries aux."""
    import WallGo.hydrodynamics as H
    events, aux = [], []
    depth = [0]
    cur = {"x0": None}
    orig_match, orig_shock, orig_rs, orig_root = hy.matchDeflagOrHyb, hy.solveHydroShock, \
        H.root_scalar, H.root

    def root(f, x0, *a, **k):
        if depth[0] == 0:
            cur["x0"] = [float(t) for t in x0]
        return orig_root(f, x0, *a, **k)

    def guess():
        if cur["x0"] is None:
            return None
        return [float(t) for t in hy._inverseMappingT(cur["x0"])]

    def match(vw, vp=None):
        if depth[0] == 0:
            cur["x0"] = None
        try:
            r = orig_match(vw, vp)
        except Exception:
            if depth[0] == 0:
                aux.append(dict(vw=float(vw), guess=guess(), success=bool(hy.success),
                                raised=True))
            raise
        if depth[0] == 0:
            events.append(("match", float(vw), vp is None, tuple(float(x) for x in r),
                           bool(hy.success)))
            aux.append(dict(vw=float(vw), guess=guess(), success=bool(hy.success),
                            raised=False))
        return r

    def shockT(vw, vp, Tp):
        r = orig_shock(vw, vp, Tp)
        if depth[0] == 0:
            events.append(("Tn", float(vw), float(r)))
        return r

    def rs(f, *a, **k):
        name = getattr(f, "__name__", "?")
        top = depth[0] == 0 and name in ("shock", "shockTnuclDiff")
        depth[0] += 1
        try:
            r = orig_rs(f, *a, **k)
        except ValueError:
            depth[0] -= 1
            if top:
                events.append(("root", name, tuple(float(x) for x in k.get("bracket")), None))
            raise
        except Exception:
            depth[0] -= 1
            raise
        depth[0] -= 1
        if top:
            events.append(("root", name, tuple(float(x) for x in k.get("bracket")),
                           float(r.root)))
        return r
    hy.matchDeflagOrHyb, hy.solveHydroShock, H.root_scalar, H.root = match, shockT, rs, root
    try:
        res = hy.findvwLTE()
    except Exception as ex:
        raise LteRaised(ex, aux)
    finally:
        del hy.matchDeflagOrHyb, hy.solveHydroShock
        H.root_scalar, H.root = orig_rs, orig_root
    return float(res), events, aux


CLASS_KEY = "lte-crude-guess-at-vMin"


def crude_guess_class(th, hy, aux):
    """The registered defect class, measured on the live object.  All of:
      (b) not (hy.vMin > hy.template.vMin): on the unchanged code the guard
          `vw > self.template.vMin` of matchDeflagOrHyb is legitimately False at vw == vMin;
      (c) the top-level matchDeflagOrHyb(vMin) of findvwLTE started scipy root from the crude
          guess [Tn, 0.99 Tn] and did not converge (success False, or it raised).
    (a) -- wrong sentinel / exception although the mismatch is positive at the smallest
    allowed velocity -- is established by the caller."""
    if hy.vMin > hy.template.vMin:
        return False
    at = [a for a in aux if a["vw"] == float(hy.vMin)]
    if not at:
        return False
    a = at[-1]
    Tn = float(hy.Tnucl)
    g = a["guess"]
    crude = g is not None and abs(g[0] - Tn) <= 1e-9 * Tn and abs(g[1] - 0.99 * Tn) <= 1e-9 * Tn
    return crude and (a["raised"] or not a["success"])


def Q(x):
    f = Fraction(float(x))
    return "(%d # %d)" % (f.numerator, f.denominator)


def model_case(th, hy, res, events):
    """Coq boolean: the model, fed with the recorded oracle values, returns the outcome the
    code returned.  None if the trace does not have the shape the model assumes (reported)."""
    Tn = hy.Tnucl
    ev = list(events)
    if not ev or ev[0][0] != "match" or not ev[0][2]:
        return None, "first call is not matchDeflagOrHyb(vmax)"
    vmax0 = ev[0][1]
    vp, _vm, Tp, _Tm = ev[0][3]
    s0 = vp * vmax0 - float(th.csqHighT(Tp))
    ev = ev[1:]
    root_shock = "fun _ _ => None"
    if ev and ev[0][0] == "root" and ev[0][1] == "shock":
        a, b = ev[0][2]
        r = ev[0][3]
        root_shock = "fun a b => if near %s a && near %s b then %s else None" % (
            Q(a), Q(b), "Some %s" % Q(r) if r is not None else "None")
        ev = ev[1:]
    diffs = []
    while len(ev) >= 2 and ev[0][0] == "match" and ev[1][0] == "Tn":
        diffs.append((ev[0][1], ev[1][2] - Tn, ev[0][4]))
        ev = ev[2:]
    root_diff = "fun _ _ => (-7 # 1)"
    if ev and ev[0][0] == "root" and ev[0][1] == "shockTnuclDiff":
        a, b = ev[0][2]
        root_diff = "fun a b => if near %s a && near %s b then %s else (-7 # 1)" % (
            Q(a), Q(b), Q(ev[0][3]))
        ev = ev[1:]
    if ev:
        return None, "unexpected trailing calls %r" % (ev[:2],)
    dfun = "(99 # 1, false)"
    for (v, d, ok) in reversed(diffs):
        dfun = "if near %s v then (%s, %s) else %s" % (Q(v), Q(d), "true" if ok else "false",
                                                       dfun)
    o = "(mk_oracles (fun v => if near %s v then %s else (-99 # 1)) (fun v => %s) (%s) (%s))" % (
        Q(vmax0), Q(s0), dfun, root_shock, root_diff)
    want = "Static" if res == 0 else ("Runaway" if res == 1 else "Interior %s" % Q(res))
    term = "outcome_eqb (findvwLTE lte_epsJ lte_epsShock %s %s %s %s) (%s)" % (
        o, Q(hy.vMin), Q(hy.vJ), Q(float(th.csqHighT(Tn)) ** 0.5), want)
    return term, None


CASE_HDR = """From Coq Require Import QArith Qabs Bool List.
Import ListNotations.
From WG Require Import Model.FindVwLTE.
From GenC05 Require Import LteFacts.
Local Open Scope Q_scope.
"""


# ----------------------------------------------------------------------------------------
# certified evaluation of the generated real-valued definitions

EVAL_HDR = """From Coq Require Import Reals Lra.
From Interval Require Import Tactic.
From WG Require Import Lib.NumpySem Lib.HydroShock.
From GenC05 Require Import HydroLTE.
Local Open Scope R_scope.
%(defs)s
Ltac redx := cbv beta iota zeta delta [matchingLTE matchTail vpvmAndvpovm gammaSq boostVelocity
  fst snd csqHighT csqLowT wHighT wLowT pHighT pLowT eHighT eLowT alN Tnucl invMap
  t_getVp t_alpha_shooting t_alpha_initial t_solveAlpha_bounds t_cs2 t_cb2 t_cb t_cs t_alN
  t_psiN t_mu t_nu t_vJ %(envs)s].
Ltac killmin := repeat match goal with
  | |- context [Rmin ?a ?b] => first [ rewrite (Rmin_left a b) by interval with (i_prec 90)
                                     | rewrite (Rmin_right a b) by interval with (i_prec 90) ]
  | |- context [Rmax ?a ?b] => first [ rewrite (Rmax_left a b) by interval with (i_prec 90)
                                     | rewrite (Rmax_right a b) by interval with (i_prec 90) ]
  end.
Ltac ev := redx; killmin;
  repeat match goal with |- context [Req_EM_T ?a ?b] =>
    destruct (Req_EM_T a b) as [EQ|_];
    [exfalso; assert (NE : a - b <> 0) by interval with (i_prec 90); apply NE; lra|] end;
  cbv beta iota zeta delta [negb fst snd]; interval with (i_prec 90).
"""


def goal(term, y, rel=1e-9, absol=Fraction(1, 10 ** 12)):
    yq = Fraction(float(y))
    tol = abs(yq) * Fraction(rel).limit_denominator(10 ** 15) + absol
    return "Goal Rabs (%s - %s) <= %s.\nProof. ev. Qed." % (term, pyrx.rlit(yq), pyrx.rlit(tol))


def q(x):
    return pyrx.rlit(Fraction(float(x)))


def certified(ctx, proved):
    import WallGo.hydrodynamics as H
    import WallGo
    rng = ctx.rng
    sp = [dict(kind="bag", psi=0.8, Tn=0.8), dict(kind="twostep", ab=0.2, asy=0.1, musq=0.4,
                                                  Tn=0.9)]
    defs, goals, names = [], [], []
    k = 0
    for spec in sp:
        th, hy = S.make_hydro(spec)
        for vw in (0.3, 0.65):
            captured = []
            orig_root = H.root

            def root(f, x0, *a, **kw):
                # the closure must be evaluated while the solver runs: after the solve the
                # method rebinds `vp`, which the closure reads
                sol = orig_root(f, x0, *a, **kw)
                tpm = [float(t) for t in hy._inverseMappingT(sol.x)]
                pts = [sol.x, hy._mappingT([tpm[0] * rng.uniform(0.97, 1.03),
                                            tpm[1] * rng.uniform(0.96, 1.04)])]
                vals = [([float(x[0]), float(x[1])], [float(y) for y in f(
                    [float(x[0]), float(x[1])])]) for x in pts]
                captured.append((f, vals, [float(t) for t in S.cells(f)["Tpm0"]]))
                return sol
            H.root = root
            try:
                vp, vm, Tp, Tm = hy.matchDeflagOrHyb(vw)
            finally:
                H.root = orig_root
            if not captured or captured[-1][0].__name__ != "matching":
                ctx.broken.append("correspondence: `matching` not handed to scipy root")
                continue
            f, vals, Tpm0 = captured[-1]
            for x, got in vals:
                tp, tm = [float(t) for t in hy._inverseMappingT(x)]
                name = "e%d" % k
                k += 1
                names.append(name)
                env = S.coq_env(spec) % dict(alN=q(hy.template.alN))
                env = env.replace("(fun x => x))", "(fun _ => (%s, %s)))" % (q(tp), q(tm)))
                defs.append("Definition %s := %s." % (name, env))
                for i, proj in ((0, "fst"), (1, "snd")):
                    goals.append((goal("%s (matchingLTE %s %s (%s, %s) (0, 0))" % (
                        proj, name, q(vw), q(Tpm0[0]), q(Tpm0[1])), got[i],
                        absol=Fraction(1, 10 ** 10)),
                        dict(fn="matching", spec=spec, vw=vw, x=x)))
                    ctx.count("certified_matching")
            # the returned quadruple from the solved temperatures
            name = "e%d" % k
            k += 1
            names.append(name)
            defs.append("Definition %s := %s." % (name, S.coq_env(spec) % dict(
                alN=q(hy.template.alN))))
            for i, proj in ((0, "fst (fst (fst (%s)))"), (1, "snd (fst (fst (%s)))")):
                goals.append((goal(proj % ("matchTail %s %s %s %s" % (name, q(vw), q(Tp), q(Tm))),
                                   (vp, vm)[i]),
                              dict(fn="matchTail", spec=spec, vw=vw, Tp=float(Tp),
                                   Tm=float(Tm))))
                ctx.count("certified_matchTail")
    # template: getVp, the two alpha forms, the bounds of solveAlpha
    tdefs = []
    for j in range(ctx.n(2, 10)):
        psiN = 1 - 0.5 * rng.random()
        cs2 = 1 / 4 + (1 / 3 - 1 / 4) * rng.random()
        spec = dict(kind="template", psiN=round(psiN, 4), alN=round((1 - psiN) / 3 +
                                                                   0.3 * rng.random(), 5),
                    cs2=round(cs2, 4), cb2=round(cs2 - (1 / 3 - 1 / 4) * rng.random(), 4),
                    Tn=1.0)
        th = S.make_eos(spec)
        tm = WallGo.HydrodynamicsTemplateModel(th)
        name = "t%d" % j
        names.append(name)
        tdefs.append("Definition %s := mk_t_env %s %s %s %s %s %s %s %s %s %s 0 "
                     "(fun _ => 0) (fun _ _ => 0) (fun _ _ => 0)." % (
                         name, q(tm.cs2), q(tm.cb2), q(tm.cb), q(tm.cs), q(tm.alN), q(tm.psiN),
                         q(tm.mu), q(tm.nu), q(tm.vJ), q(tm.Tnucl)))
        for _ in range(ctx.n(2, 3)):
            vmv = rng.uniform(0.2, float(tm.cb))
            al = rng.uniform(0.01, 0.3)
            for br in (-1, 1):
                goals.append((goal("t_getVp %s %s %s (%d)" % (name, q(vmv), q(al), br),
                                   tm.getVp(vmv, al, br)),
                              dict(fn="getVp", spec=spec, vm=vmv, al=al, branch=br)))
                ctx.count("certified_getVp")
        # alMin/alMax as used by the code: capture the bracket of root_scalar in solveAlpha
        import WallGo.hydrodynamicsTemplateModel as HT
        for vw, cons in ((0.4, True), (0.7, True), (0.45, False), (0.75, False)):
            seen = []
            orig = HT.root_scalar

            def rs(f, *a, **kw):
                seen.append((getattr(f, "__name__", "?"), a, kw))
                return orig(f, *a, **kw)
            HT.root_scalar = rs
            try:
                tm.solveAlpha(vw, cons)
            except Exception:
                pass
            finally:
                HT.root_scalar = orig
            br = [s for s in seen if s[0] == "_eqWall"]
            if not br:
                ctx.broken.append("correspondence: solveAlpha did not call root_scalar on "
                                  "_eqWall")
                continue
            alMin, alMax = br[-1][2]["bracket"]
            vmv = br[-1][1][0][0]
            c = "true" if cons else "false"
            for proj, val in (("fst (fst (fst (%s)))", vmv), ("snd (fst (%s))", alMin),
                              ("snd (%s)", alMax))[ctx.n(1, 0):ctx.n(2, 3)]:
                goals.append((goal(proj % ("t_solveAlpha_bounds %s %s %s" % (name, q(vw), c)),
                                   val), dict(fn="solveAlpha_bounds", spec=spec, vw=vw,
                                              constraint=cons)))
                ctx.count("certified_alpha_bounds")
    if not proved:
        return
    hdr = EVAL_HDR % dict(defs="\n".join(defs + tdefs), envs=" ".join(names))
    nfiles = 8
    import subprocess
    procs = []
    for j in range(nfiles):
        chunk = goals[j::nfiles]
        p = ctx.write("Cases/Eval_%d.v" % j, hdr + "\n".join(g for g, _ in chunk) + "\n")
        procs.append((chunk, p, subprocess.Popen(
            ["timeout", "600", "coqc"] + ctx.coq_args() + [p], cwd=ctx.bdir,
            stdout=subprocess.PIPE, stderr=subprocess.PIPE, text=True)))
    import re
    for chunk, p, pr in procs:
        out, err = pr.communicate()
        if pr.returncode != 0:
            m = re.search(r"line (\d+)", err)
            which = None
            if m:
                text = open(p).read().splitlines()
                idx = "\n".join(text[:int(m.group(1))]).count("\nGoal ") - 1
                if 0 <= idx < len(chunk):
                    which = chunk[idx][1]
            ctx.broken.append("correspondence: certified evaluation %s" % (
                which["fn"] if which else "?"))
            ctx.log("certified evaluation failed:", json.dumps(which, default=str),
                    vlib.tail(err, 5))
    ctx.sample(dict(certified_goals=len(goals), example=goals[0][1]))


def template_decisions(ctx, proved, tspecs):
    """generated t_findvwLTE vs HydrodynamicsTemplateModel.findvwLTE on the same numbers"""
    import WallGo
    import WallGo.hydrodynamicsTemplateModel as HT
    hdr = """From Coq Require Import Reals Lra.
From WG Require Import Lib.NumpySem Lib.HydroShock.
From GenC05 Require Import HydroLTE Props_C05.
Local Open Scope R_scope.
%s
Ltac fields := cbv beta iota zeta delta [t_shootingInLTE t_alN t_psiN t_mu t_nu t_vJ t_cb
  maxAl100 shooting solveAlphaRoot rootLTE %s] in *.
"""
    defs, goals, names = [], [], []
    for j, spec in enumerate(tspecs):
        try:
            th = S.make_eos(spec)
            tm = WallGo.HydrodynamicsTemplateModel(th)
        except Exception:
            continue
        rec = dict(maxAl=None, shoot=None, root=None)
        lo1, lo2 = (1 - tm.psiN) / 3, (tm.mu - tm.nu) / (3 * tm.mu)
        orig = HT.root_scalar

        def rs(f, *a, **kw):
            r = orig(f, *a, **kw)
            if getattr(f, "__name__", "") == "shootingInLTE":
                rec["root"] = float(r.root)
                rec["f"] = f
            return r
        HT.root_scalar = rs
        try:
            res = float(tm.findvwLTE())
        except Exception as ex:
            ctx.count("template_findvwLTE_raises", spec)
            continue
        finally:
            HT.root_scalar = orig
        small = tm.alN < lo1 or tm.alN <= lo2
        maxal = tm.maxAl(100)
        sh = None
        if not small and not tm.alN > maxal:
            # value of the closure at vJ as the code computes it
            al = tm.solveAlpha(tm.vJ)
            sh = tm._shooting(tm.vJ, tm.getVp(min(tm.cb, tm.vJ), al))
        name = "t%d" % j
        names.append(name)
        defs.append("Definition %s := mk_t_env %s %s %s %s %s %s %s %s %s %s %s (fun _ => 0) "
                    "(fun _ _ => %s) (fun _ _ => %s)." % (
                        name, q(tm.cs2), q(tm.cb2), q(tm.cb), q(tm.cs), q(tm.alN), q(tm.psiN),
                        q(tm.mu), q(tm.nu), q(tm.vJ), q(tm.Tnucl), q(maxal),
                        q(sh if sh is not None else 0.0),
                        q(rec["root"] if rec["root"] is not None else -7.0)))
        if small:
            side = "left" if tm.alN < lo1 else "right"
            prf = "destruct (template_lte_decisions %s) as (A & _). fields. apply A. %s. lra." \
                % (name, side)
            want = 0.0
        elif tm.alN > maxal or (sh is not None and sh < 0):
            side = "left" if tm.alN > maxal else "right"
            prf = ("destruct (template_lte_decisions %s) as (_ & B & _). fields. apply B; "
                   "[intros [N|N]; lra|%s; lra]." % (name, side))
            want = 1.0
        else:
            prf = ("destruct (template_lte_decisions %s) as (_ & _ & C). fields. rewrite C by "
                   "lra. reflexivity." % name)
            want = rec["root"] if rec["root"] is not None else -7.0
        ctx.count("template_decision", spec, bucket="static" if small else (
            "runaway" if want == 1.0 else "interior"))
        if res != want:
            ctx.fail_input("HydrodynamicsTemplateModel.findvwLTE() = %r but its decision rule "
                           "on the same numbers gives %r; %s" % (res, want, spec),
                           dict(kind="template_decision", spec=spec), key="template-decision")
        goals.append("Goal t_findvwLTE %s = %s.\nProof. %s Qed." % (name, q(want), prf))
    if not proved or not goals:
        return
    text = hdr % ("\n".join(defs), " ".join(names)) + "\n".join(goals) + "\n"
    p = ctx.write("Cases/Template.v", text)
    ok, out, err = ctx.coqc(p, timeout=300)
    if not ok:
        ctx.broken.append("correspondence: generated t_findvwLTE disagrees with the running "
                          "template findvwLTE")
        ctx.log(vlib.tail(err, 8))


# ----------------------------------------------------------------------------------------
# direct validation

def mismatch(hy, vw):
    """entropy mismatch T+g+/(T-g-) - 1 of the matching that reaches Tn (findMatching)"""
    try:
        (vp, vm, Tp, Tm), fb = S.find_matching(hy, vw)
    except Exception:
        return None
    if vp is None or not hy.success or fb:
        return None
    if not (0 <= vp < 1 and 0 <= vm < 1 and Tm > 0):
        return None
    return Tp * gam(vp) / (Tm * gam(vm)) - 1


def scan(ctx, hy, n):
    lo, hi = S.window_lo(hy), hy.vJ - MARGIN_TOP
    if not lo < hi:
        return []
    out = []
    for i in range(n):
        v = lo + (hi - lo) * i / (n - 1)
        out.append((v, mismatch(hy, v)))
        ctx.count("scan_velocity")
    return out


def spec_id(spec):
    return ",".join("%s=%s" % (k, spec[k]) for k in sorted(spec) if k != "kind")


def build_with_history(spec, rtol, atol, later_Tn):
    """The solver for `spec`, followed by what a temperature scan re-using one model object
    does: the model's nucleation temperature is changed and a second solver is built.  The
    FIRST solver is returned; the property is about its own nucleation temperature."""
    import WallGo
    th, hy = S.make_hydro(spec, rtol, atol)
    th.Tnucl = later_Tn
    try:
        WallGo.Hydrodynamics(th, 10.0, 0.01, rtol, atol)
    except Exception:
        pass
    return th, hy


def check_lte(ctx, spec, rtol=1e-6, atol=1e-10, gated=True, later_Tn=None):
    """returns a list of failures (what, replay, key); reported by the caller.  Keys of
    sentinel / exception failures name the input: a registered finding for one equation of
    state must not hide the same symptom on another one.  With `later_Tn` the solver is
    evaluated after the model object went on to another nucleation temperature."""
    fails = []
    sid = "%s:%s" % (spec["kind"], spec_id(spec))
    if (rtol, atol) != (1e-6, 1e-10):
        sid += ":rtol=%g,atol=%g" % (rtol, atol)
    if later_Tn is not None:
        sid += ":history(model.Tnucl->%g)" % later_Tn
    try:
        if later_Tn is None:
            th, hy = S.make_hydro(spec, rtol, atol)
        else:
            th, hy = build_with_history(spec, rtol, atol, later_Tn)
    except Exception as ex:
        ctx.count("eos_skipped", spec)
        return fails, None
    if not S.window_lo(hy) < hy.vJ - 2e-2:
        ctx.count("eos_no_window", spec)
        return fails, None
    Tn = hy.Tnucl              # the solver's own nucleation temperature
    case = dict(spec=spec, rtol=rtol, atol=atol)
    if later_Tn is not None:
        case["later_Tn"] = later_Tn
        if Tn != spec["Tn"]:
            fails.append(("Hydrodynamics.Tnucl = %r after the model object moved on to Tn=%r "
                          "(built at %r); %s" % (Tn, later_Tn, spec["Tn"], spec),
                          dict(kind="history", **case), "history-Tnucl"))
    try:
        res, events, aux = record_findvwLTE(hy)
    except LteRaised as lr:
        E = mismatch(hy, S.window_lo(hy))
        key = "raises:" + sid
        if E is not None and E > 0 and crude_guess_class(th, hy, lr.aux):
            key = CLASS_KEY
        fails.append(("findvwLTE raised %s (mismatch %s at vw=%.6f); %s" % (
            repr(lr.exc)[:160], "n/a" if E is None else "%+.3e" % E, S.window_lo(hy), spec),
            dict(kind="raise", **case), key))
        return fails, None
    term, why = model_case(th, hy, res, events)
    nscan = ctx.n(64, 512)
    if 0 < res < 1:
        ctx.count("lte_interior", case, bucket=spec["kind"])
        vp, vm, Tp, Tm = hy.matchDeflagOrHyb(res)
        ok = bool(hy.success)
        ent = abs(Tp * gam(vp) / (Tm * gam(vm)) - 1)
        wp, wm = float(th.wHighT(Tp)), float(th.wLowT(Tm))
        pp, pm = float(th.pHighT(Tp)), float(th.pLowT(Tm))
        eflux = abs(wp * gam(vp) ** 2 * vp - wm * gam(vm) ** 2 * vm) / (
            wp * gam(vp) ** 2 * vp)
        mflux = abs(wp * gam(vp) ** 2 * vp ** 2 + pp - wm * gam(vm) ** 2 * vm ** 2 - pm) / (
            abs(wp) + abs(pp))
        worst("entropy", ent, case)
        worst("energy_flux", eflux, case)
        worst("momentum_flux", mflux, case)
        d = dict(kind="interior", vw=res, vp=vp, vm=vm, Tp=Tp, Tm=Tm, **case)
        if not ok:
            fails.append(("vwLTE=%.8f: the matching at the returned velocity did not converge "
                          "(Hydrodynamics.success False); %s" % (res, spec), d,
                          "lte-matching-unconverged"))
        if ent > TOL_ENT:
            fails.append(("vwLTE=%.8f: T+g+/(T-g-)-1 = %.3e at the returned matching; %s" % (
                res, ent, spec), d, "entropy:" + spec["kind"]))
        if eflux > TOL_FLUX or mflux > TOL_FLUX:
            fails.append(("vwLTE=%.8f: fluxes across the wall differ: energy %.2e momentum "
                          "%.2e (relative); %s" % (res, eflux, mflux, spec), d,
                          "fluxes:" + spec["kind"]))
        try:
            tn, _ = S.oracle_Tn(th, res, vp, Tp)
            worst("Tn_boundary", S.rel(tn, Tn), case)
            if S.rel(tn, Tn) > TOL_TN:
                fails.append(("vwLTE=%.8f: the flow from (v+,T+)=(%.8f,%.8f) reaches T=%.10g "
                              "ahead of the shock, not Tn=%.10g (rel %.2e); %s" % (
                                  res, vp, Tp, tn, Tn, S.rel(tn, Tn), spec), d,
                              "Tn-boundary:" + spec["kind"]))
        except RuntimeError as ex:
            fails.append(("vwLTE=%.8f: no shock front ahead of the returned matching (%s); %s"
                          % (res, ex, spec), d, "no-front"))
        # the matching that findMatching produces at this velocity conserves entropy
        E = mismatch(hy, res)
        if E is None:
            fails.append(("vwLTE=%.8f: findMatching has no converged solution at the returned "
                          "velocity; %s" % (res, spec), d, "lte-findMatching"))
        else:
            worst("entropy_of_findMatching", abs(E), case)
            if abs(E) > TOL_ENT_SHOOT:
                fails.append(("vwLTE=%.8f: findMatching there has T+g+/(T-g-)-1 = %.3e; %s" % (
                    res, E, spec), d, "entropy-findMatching:" + spec["kind"]))
        if not (hy.vMin <= res <= hy.vJ):
            fails.append(("vwLTE=%.8f outside [vMin, vJ] = [%.6f, %.6f]; %s" % (
                res, hy.vMin, hy.vJ, spec), d, "lte-outside-window"))
    elif res == 1:
        sc = scan(ctx, hy, nscan)
        vals = [(v, e) for v, e in sc if e is not None]
        top = vals[-1][1] if vals else None
        if len(vals) < nscan // 2 or top is None:
            ctx.count("lte_runaway_unscannable", case)
        elif abs(top) < MARGIN_E:
            ctx.count("lte_near_threshold", case, bucket="runaway")
        else:
            ctx.count("lte_runaway", case, bucket=spec["kind"])
            neg = [(v, e) for v, e in vals if e < 0]
            if neg:
                v, e = neg[0]
                fails.append((
                    "findvwLTE returned 1 (runaway) but the entropy mismatch changes sign in "
                    "the window: T+g+/(T-g-)-1 = %+.3e at vw=%.6f (%d of %d scanned velocities "
                    "negative; %+.3e at vw=%.4f); %s" % (e, v, len(neg), len(vals), vals[0][1],
                                                         vals[0][0], spec),
                    dict(kind="runaway", vw=v, **case), "runaway-sign:" + sid))
    elif res == 0:
        lo = S.window_lo(hy)
        E = mismatch(hy, lo)
        if E is None:
            ctx.count("lte_static_unscannable", case)
        elif abs(E) < MARGIN_E:
            ctx.count("lte_near_threshold", case, bucket="static")
        else:
            ctx.count("lte_static", case, bucket=spec["kind"])
            if E > 0:
                sc = scan(ctx, hy, 16)
                fails.append((
                    "findvwLTE returned 0 (static) but the entropy mismatch is %+.3e > 0 at "
                    "the smallest allowed velocity vw=%.6f (scan: %s); %s" % (
                        E, lo, " ".join("%+.0e" % e if e is not None else "n/a"
                                        for _v, e in sc), spec),
                    dict(kind="static", vw=lo, **case),
                    CLASS_KEY if crude_guess_class(th, hy, aux) else "static-sign:" + sid))
    else:
        fails.append(("findvwLTE returned %r; %s" % (res, spec), dict(kind="value", **case),
                      "lte-value"))
    return fails, (term, why, res, case)


# WallGoManager on a one-field quartic model: wallSpeedLTE after a re-setup

def _quartic_manager():
    import logging
    import WallGo
    from WallGo import EffectivePotential, Fields, GenericModel
    P = dict(D=0.2, E=0.05, lam=0.1, T0=80.0, g=100.0)

    class QPot(EffectivePotential):
        fieldCount = 1
        effectivePotentialError = 1e-15

        def evaluate(self, fields, temperature):
            phi = Fields(fields).getField(0)
            T = np.asarray(temperature)
            return (P["D"] * (T ** 2 - P["T0"] ** 2) * phi ** 2 - P["E"] * T * phi ** 3
                    + P["lam"] / 4 * phi ** 4 - P["g"] * math.pi ** 2 / 90 * T ** 4)

    class QModel(GenericModel):
        def __init__(self):
            self.modelParameters = dict(P)
            self.potential = QPot()

        @property
        def fieldCount(self):
            return 1

        def getEffectivePotential(self):
            return self.potential
    m = WallGo.WallGoManager()
    m.setVerbosity(logging.ERROR)
    m.registerModel(QModel())

    def setup(Tn):
        disc = 9 * P["E"] ** 2 * Tn ** 2 - 8 * P["lam"] * P["D"] * (Tn ** 2 - P["T0"] ** 2)
        phi = (3 * P["E"] * Tn + math.sqrt(disc)) / (2 * P["lam"])
        m.setupThermodynamicsHydrodynamics(
            WallGo.PhaseInfo(temperature=Tn, phaseLocation1=Fields([0.0]),
                             phaseLocation2=Fields([phi])),
            WallGo.VeffDerivativeSettings(temperatureVariationScale=2.0,
                                          fieldValueVariationScale=[50.0]))
    return m, setup


def manager_history(ctx):
    """setup(Tn1) -> wallSpeedLTE() -> setup(Tn2) -> wallSpeedLTE(): the second answer is the
    one of a fresh manager at Tn2 and conserves the entropy flux at Tn2"""
    for Tn1, Tn2 in ((83.0, 81.5), (82.0, 83.5))[:ctx.n(1, 2)]:
        m, setup = _quartic_manager()
        setup(Tn1)
        v1 = float(m.wallSpeedLTE())
        setup(Tn2)
        v2 = float(m.wallSpeedLTE())
        f, fsetup = _quartic_manager()
        fsetup(Tn2)
        want = float(f.wallSpeedLTE())
        case = dict(model="quartic1 D=0.2 E=0.05 lam=0.1 T0=80 g=100", Tn1=Tn1, Tn2=Tn2)
        ctx.count("history_manager_resetup", case)
        hy = m.hydrodynamics
        bad = None
        if hy.Tnucl != Tn2:
            bad = "manager.hydrodynamics.Tnucl = %r after setup at %r" % (hy.Tnucl, Tn2)
        elif abs(v2 - want) > 1e-9 * max(abs(want), 1e-30):
            bad = ("wallSpeedLTE() after re-setup at Tn=%g is %.10g (first setup Tn=%g gave "
                   "%.10g) but a fresh manager at Tn=%g gives %.10g" % (Tn2, v2, Tn1, v1, Tn2,
                                                                       want))
        elif 0 < v2 < 1:
            E = mismatch(hy, v2)
            if E is None or abs(E) > TOL_ENT_SHOOT:
                bad = ("after re-setup at Tn=%g: findMatching(wallSpeedLTE()=%.8f) has "
                       "T+g+/(T-g-)-1 = %r" % (Tn2, v2, E))
        if bad:
            ctx.fail_input(bad + "; " + json.dumps(case), dict(kind="manager_history", **case),
                           key="manager-history")


def direct(ctx, proved):
    WORST.clear()
    sp = specs(ctx)
    terms, meta = [], []
    for spec, rtol, atol in KNOWN_INPUTS:
        try:
            fails, _mc = check_lte(ctx, spec, rtol, atol)
        except Exception as ex:
            ctx.fail_input("harness/implementation raised %r for %s" % (ex, spec),
                           dict(kind="raise", spec=spec, rtol=rtol, atol=atol),
                           key="raises:%s:%s" % (spec["kind"], spec_id(spec)))
            continue
        ctx.count("known_input_replayed", dict(spec=spec, rtol=rtol, atol=atol),
                  bucket="still failing" if fails else "passes now")
        for what, rep, key in fails:
            ctx.fail_input(what, rep, key=key)
    for n, spec in enumerate(sp):
        try:
            fails, mc = check_lte(ctx, spec)
        except Exception as ex:
            ctx.fail_input("harness/implementation raised %r for %s" % (ex, spec),
                           dict(kind="raise", spec=spec, tb=traceback.format_exc()[-600:]),
                           key="raises:" + spec["kind"])
            continue
        for what, rep, key in fails:
            ctx.fail_input(what, rep, key=key)
        if mc is not None:
            term, why, res, case = mc
            if term is None:
                ctx.broken.append("correspondence: trace of findvwLTE does not fit the model "
                                  "(%s)" % why)
                ctx.log("trace mismatch", why, json.dumps(case))
            else:
                terms.append(term)
                meta.append((res, case))
            if n < 4:
                ctx.sample(dict(eos=spec, vwLTE=res))
    # histories: the solver is used after its model object moved on to another nucleation
    # temperature (a temperature scan re-using one model; tests/test_Hydrodynamics.py does it)
    pool = [x for x in sp if x["kind"] in ("bag", "twostep")]
    for spec in pool[2::ctx.n(9, 4)]:
        later = round(spec["Tn"] + (0.1 if spec["Tn"] < 0.8 else -0.15), 3)
        try:
            fails, mc = check_lte(ctx, spec, later_Tn=later)
        except Exception as ex:
            ctx.fail_input("harness/implementation raised %r for %s (history)" % (ex, spec),
                           dict(kind="raise", spec=spec, later_Tn=later,
                                tb=traceback.format_exc()[-600:]),
                           key="raises:%s:history" % spec["kind"])
            continue
        ctx.count("history_model_Tnucl_changed", dict(spec=spec, later=later),
                  bucket=spec["kind"])
        for what, rep, key in fails:
            if key != CLASS_KEY and "history" not in key:
                key += ":history"
            ctx.fail_input("[solver built at Tn=%g; model.Tnucl then set to %g and a second "
                           "solver built] %s" % (spec["Tn"], later, what), rep, key=key)
        if mc is not None and mc[0] is not None:
            terms.append(mc[0])
            meta.append((mc[2], mc[3]))
    try:
        manager_history(ctx)
    except Exception as ex:
        ctx.log("manager history raised", traceback.format_exc())
        ctx.broken.append("harness: manager history raised %r" % ex)
    # the repo's own tests run with atol = 1e-6: diagnostics, gated only when listed
    cand = []
    diag = [s for s in sp if s["kind"] == "bag"]
    for spec in diag[1:48:ctx.n(3, 1)] + diag[48:ctx.n(50, 175)]:
        try:
            fails, _mc = check_lte(ctx, spec, rtol=1e-6, atol=1e-6)
        except Exception:
            continue
        cand += fails
    if cand:
        listed = any(k.get("property") == ctx.pid and k.get("key") == "lte-atol-1e-6"
                     for k in ctx.known.get("findings", []))
        msg = ("with absoluteTol = 1e-6 (the value used by tests/test_Hydrodynamics.py; the "
               "package default is 1e-10) %d sampled models violate the property, first: %s" % (
                   len(cand), cand[0][0]))
        ctx.cov["atol_1e-6_candidates"] = [c[0] for c in cand[:10]]
        if listed:
            ctx.fail_input(msg, cand[0][1], key="lte-atol-1e-6")
        else:
            ctx.log("CANDIDATE FINDING (not gated): " + msg)
    # model <-> code: exact outcome on the recorded oracle values
    if proved and terms:
        bad = ctx.run_cases("Lte", CASE_HDR, terms, per_file=60, timeout=300)
        for _ in terms:
            ctx.count("model_vs_code_findvwLTE")
        for b in bad:
            ctx.broken.append("correspondence: FindVwLTE model disagrees with the running "
                              "findvwLTE (%s)" % b["file"])
            for i in b["cases"][:5]:
                ctx.log("model/code mismatch:", json.dumps(meta[i], default=str))
            if not b["cases"]:
                ctx.log(b["err"])
    for k in sorted(WORST):
        ctx.log("worst observed %-26s %.3e  %s" % (k, WORST[k][0], json.dumps(
            WORST[k][1], default=str)[:150]))
    ctx.cov["worst_observed"] = {k: v[0] for k, v in WORST.items()}
    return [s for s in sp if s["kind"] == "template"]


def _private_build(ctx):
    """Work in build/<pid>.<ospid>: another `./check C05` / try_mutant run started meanwhile
    wipes build/<pid> (Ctx does rmtree) and would break the late Coq steps of a long run.
    The directory is moved back to build/<pid> at the end."""
    import os
    shared = ctx.bdir
    ctx.bdir = "%s.%d" % (shared, os.getpid())
    os.makedirs(ctx.bdir, exist_ok=True)
    return shared


def _publish_build(ctx, shared):
    import shutil
    private = ctx.bdir
    try:
        shutil.rmtree(shared, ignore_errors=True)
        shutil.move(private, shared)
    except Exception:
        shutil.rmtree(private, ignore_errors=True)
    ctx.bdir = shared


def run(ctx):
    shared = _private_build(ctx)
    try:
        _run(ctx)
    finally:
        _publish_build(ctx, shared)


def _run(ctx):
    srcs = [vlib.read_src(n) for n in ("hydrodynamics.py", "hydrodynamicsTemplateModel.py",
                                       "helpers.py")]
    gen_ok = True
    try:
        text, info = gen_hydro_shock.generate_c05(*srcs)
        ctx.write("HydroLTE.v", text, sources=dict(
            files=["src/WallGo/hydrodynamics.py", "src/WallGo/hydrodynamicsTemplateModel.py",
                   "src/WallGo/helpers.py"], sha=[vlib.sha(s) for s in srcs],
            spans=info["spans"], preconditions=info["preconditions"], facts=info["facts"]))
        ftext, facts = gen_hydro_shock.generate_lte_facts(srcs[0], srcs[1])
        facts["manager"] = gen_hydro_shock.manager_lte_fact(vlib.read_src("manager.py"))
        ctx.write("LteFacts.v", ftext, sources=dict(file="src/WallGo/hydrodynamics.py",
                                                    facts=facts))
    except pyrx.TranslateError as e:
        ctx.log("translator failed:", e)
        ctx.broken.append("translator: %s" % e)
        gen_ok = False
    proved = gen_ok and ctx.prove(extra=["HydroLTE.v", "LteFacts.v"])
    ctx.trusted += ["tools/pyrx.py + tools/gen_hydro_shock.py (AST translator, structural "
                    "facts of findvwLTE)", "Interval tactic (certified evaluation)",
                    "coq/Model/FindVwLTE.v is hand-written (tied by AST facts + exact "
                    "vm_compute correspondence on recorded runs)",
                    "the independent xi-integrator of tools/props/C03.py (Tn boundary)"]
    try:
        certified(ctx, proved)
    except Exception as ex:
        ctx.log("certified evaluation raised", traceback.format_exc())
        ctx.broken.append("correspondence: harness raised %r" % ex)
    tspecs = direct(ctx, proved)
    try:
        template_decisions(ctx, proved, tspecs[:ctx.n(10, 80)])
    except Exception as ex:
        ctx.log("template decisions raised", traceback.format_exc())
        ctx.broken.append("correspondence: harness raised %r" % ex)
    ctx.cov["rule"] = (
        "EOS: bag on the grid psi in {.2,.4,.5,.6,.7,.8,.9,.95} x Tn/Tc in {.5,.6,.7,.8,.9,.95} "
        "plus Tn >= Tc and random points; two-step toy model (fixed + random couplings); "
        "template EOS (random alpha_n, psi_n, cs2, cb2; Tn in {0.01, 1, 100}); default solver "
        "tolerances 1e-6/1e-10. Interior results: entropy, energy/momentum flux, Tn boundary "
        "(independent integrator) at the returned velocity, entropy of findMatching there. "
        "Sentinels: mismatch scanned at %d velocities over [max(vMin+%g, 0.05), vJ-%g] (runaway)"
        " / evaluated at max(vMin+%g, 0.05) (static). Parameter points whose mismatch at the decisive end "
        "is below %g are counted as near-threshold and not judged. distinct = distinct (EOS, "
        "tolerances)." % (ctx.n(64, 512), MARGIN_V, MARGIN_TOP, MARGIN_V, MARGIN_E))
    ctx.assumptions += [
        "scipy root(hybr) returns a zero of the generated residual when Hydrodynamics.success "
        "is True (validated: fluxes at the returned matching)",
        "root_scalar returns a point of its bracket where the function vanishes to tolerance "
        "(validated: Tn boundary at the returned velocity)",
        "whole-window sign of the mismatch for the runaway sentinel: validated by scanning, "
        "not proved (monotonicity is physics)"]


def replay(rep):
    print(json.dumps({k: v for k, v in rep.items() if k != "tb"}, indent=1))
    spec = rep.get("spec")
    if not spec:
        return 0

    class Dummy:
        def __init__(self):
            self.tier = "quick"
            self.known = {}

        def count(self, *a, **k):
            pass

        def n(self, a, b):
            return a
    if rep.get("kind") == "manager_history":
        return 0
    fails, mc = check_lte(Dummy(), spec, rep.get("rtol", 1e-6), rep.get("atol", 1e-10),
                          later_Tn=rep.get("later_Tn"))
    if mc:
        print("findvwLTE() =", mc[2])
    for f in fails:
        print("FAIL:", f[0])
    return 1 if fails else 0
