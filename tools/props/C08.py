"""C08 -- results are covariant under relabelling of field space."""
import itertools
import json
import math
import subprocess
from fractions import Fraction

import numpy as np

import gen_fields
import pyrx
import vlib

EXPLANATION = (
    "All code of WallGo that touches the FIELD axis in the wall solver -- the tanh ansatz "
    "(wallProfile, both branches), the kinetic term and return value of action, the four "
    "numbers _updateGrid hands to the grid, _toWallParams, the start vector and the bounds "
    "given to scipy.optimize.minimize (method, use of the answer, relaxation), the clipping, "
    "dV/dz, the kinetic term of temperatureProfileEqLHS, WallParams arithmetic and the Fields "
    "index helpers -- is regenerated "
    "from equationOfMotion.py / fields.py by an axis-checking translator (tools/gen_fields.py)"
    " as functions of a LIST of per-field records. Coq proves for every number of fields and "
    "every relabelling new_j = s_j*old_p(j)+c_j (p a permutation, s_j=+-1): the profile and its"
    " derivative are equivariant, the action handed to the minimiser is the old action "
    "(kinetic term invariant, potential part external), the grid parameters are invariant, "
    "dV/dz is invariant, pinning another field's offset is a z-translation (offsets "
    "d_i-(L_p/L_i)d_p, grid centre moves along), every non-pinned offset gets the symmetric "
    "offset bounds, a relabelling that keeps the pinned field first maps the minimisation "
    "problem (box and objective) one to one onto the old one so that minimisers correspond "
    "exactly, and the Fields helpers commute with column permutations. Any comparison, "
    "reduction, in-place store or positional index on field-axis data outside the model (EOM, "
    "containers, manager, results, boltzmann, freeEnergy, effectivePotential, thermodynamics) "
    "breaks the tie. The model is "
    "compared with the running methods by certified interval evaluation / vm_compute, the "
    "action covariance is evaluated on the real EOM.action with the real quadrature (also with "
    "out-of-equilibrium particles whose masses are relabelled along, through the real "
    "_intermediatePressureResults and deltaToTmunu), and the "
    "whole pipeline (phase tracing, hydrodynamics, solveWall) is run on a two-field and a "
    "three-field polynomial model in relabelled coordinates (phases at the origin of no "
    "direction) and compared with the base run through the proved transformation laws.")

# ------------------------------------------------------------------------------------
# two-field model in arbitrary field coordinates:  new[j] = sign[j]*base[perm[j]] + shift[j]

lHH = 0.5 * 125.0 ** 2 / 246.0 ** 2
muHsq0 = -lHH * 246.0 ** 2
lHS, lSS = 0.9, 1.0
muSsq0 = 120.0 ** 2 - 0.5 * 246.0 ** 2 * lHS
g0 = 2 * 80.379 / 246.0
g1 = g0 * math.sqrt((91.1876 / 80.379) ** 2 - 1)
yt = math.sqrt(0.5) * g0 * 173.0 / 80.379
cH = (3 * g0 ** 2 + g1 ** 2 + 4 * yt ** 2 + 8 * lHH) / 16 + lHS / 24
cS = lHS / 6 + lSS / 4
TN = 100.0
KAPPA, MCHI = 0.3, 100.0


def baseV2(f, T):
    """xSM with Z2 symmetry, leading high-temperature expansion (f[0]: Higgs, f[1]: singlet)"""
    v, x = f
    muH = muHsq0 + cH * T ** 2
    muS = muSsq0 + cS * T ** 2
    return (0.5 * muH * v ** 2 + 0.25 * lHH * v ** 4 + 0.5 * muS * x ** 2
            + 0.25 * lSS * x ** 4 + 0.25 * lHS * v ** 2 * x ** 2
            - 107.75 * math.pi ** 2 / 90 * T ** 4)


def baseV3(f, T):
    """same plus a heavy third field that follows chi = KAPPA h^2/246: the phases stay
    closed-form ((0,s,0) and (v,0,KAPPA v^2/246)), the free energies are those of baseV2,
    but there is a third wall"""
    return baseV2(f[:2], T) + 0.5 * MCHI ** 2 * (f[2] - KAPPA * f[0] ** 2 / 246.0) ** 2


# name -> (potential, high-T phase guess, low-T phase guess, per-field FD scales)
MODELS = {
    "xsm2": (baseV2, [0.0, 110.0], [195.0, 0.0], [50.0, 30.0]),
    "xsm3": (baseV3, [0.0, 110.0, 0.0], [195.0, 0.0, KAPPA * 195.0 ** 2 / 246.0],
             [50.0, 30.0, 20.0]),
}


def to_new(basePoint, perm, sign, shift):
    return np.array([sign[j] * basePoint[perm[j]] + shift[j] for j in range(len(perm))])


def make_model(name, perm, sign, shift):
    """model object whose field coordinates can be relabelled IN PLACE (relabel_model), as a
    user does who re-parametrises one model object between two runs of one manager"""
    import WallGo
    from WallGo import EffectivePotential, Fields, GenericModel
    V = MODELS[name][0]
    n = len(perm)

    class Veff(EffectivePotential):
        fieldCount = n
        effectivePotentialError = 1e-15

        def evaluate(self, fields, temperature):
            fields = Fields(fields)
            base = [None] * n
            for j in range(n):
                base[self.perm[j]] = self.sg[j] * (fields.getField(j) - self.sh[j])
            return V(base, temperature)

    class Model(GenericModel):
        def __init__(self):
            self.veff = Veff()
            self.clearParticles()

        @property
        def fieldCount(self):
            return n

        def getEffectivePotential(self):
            return self.veff

    m = Model()
    relabel_model(m, perm, sign, shift)
    return m


def relabel_model(model, perm, sign, shift):
    model.veff.perm = tuple(perm)
    model.veff.sg = np.asarray(sign, float)
    model.veff.sh = np.asarray(shift, float)


class MinimizeSpy:
    """records what EOM hands to scipy.optimize.minimize (start vector and bounds)"""

    def __init__(self):
        import scipy.optimize
        self.mod = scipy.optimize
        self.orig = scipy.optimize.minimize
        self.calls = []

    def __enter__(self):
        def spy(fun, x0, *a, **kw):
            b = kw.get("bounds")
            if b is not None and len(self.calls) < 4000:
                self.calls.append((np.array(x0, float), np.array(b.lb, float),
                                   np.array(b.ub, float)))
            return self.orig(fun, x0, *a, **kw)
        self.mod.minimize = spy
        return self

    def __exit__(self, *a):
        self.mod.minimize = self.orig


def run_e2e(name="xsm2", perm=None, sign=None, shift=None, reuse=None, int_guess=False,
            guess_off=None):
    """setupThermodynamicsHydrodynamics + equilibrium solveWall in relabelled coordinates.
    reuse = (manager, model) of an earlier run: the model is relabelled in place and the
    same manager is set up and solved again.  int_guess: phase guesses of integer dtype.
    guess_off = (d1, d2): the user's two phase guesses are moved by these vectors (base
    coordinates) inside the basins of their minima."""
    import logging
    import WallGo
    from WallGo import Fields
    logging.disable(logging.CRITICAL)
    _, ph1, ph2, scales = MODELS[name]
    n = len(ph1)
    perm = tuple(perm) if perm is not None else tuple(range(n))
    sign = tuple(sign) if sign is not None else (1,) * n
    shift = tuple(shift) if shift is not None else (0.0,) * n
    if reuse is None:
        manager = WallGo.WallGoManager()
        model = make_model(name, perm, sign, shift)
        manager.registerModel(model)
    else:
        manager, model = reuse
        relabel_model(model, perm, sign, shift)
    if guess_off is not None:
        ph1 = [a + b for a, b in zip(ph1, guess_off[0])]
        ph2 = [a + b for a, b in zip(ph2, guess_off[1])]
    g1, g2 = to_new(ph1, perm, sign, shift), to_new(ph2, perm, sign, shift)
    if int_guess:
        g1, g2 = np.rint(g1).astype(int), np.rint(g2).astype(int)
    phaseInfo = WallGo.PhaseInfo(temperature=TN, phaseLocation1=Fields(g1),
                                 phaseLocation2=Fields(g2))
    manager.setupThermodynamicsHydrodynamics(
        phaseInfo, WallGo.VeffDerivativeSettings(
            temperatureVariationScale=1.0,
            fieldValueVariationScale=[scales[perm[j]] for j in range(n)]))
    settings = WallGo.WallSolverSettings(bIncludeOffEquilibrium=False, meanFreePathScale=50.0,
                                         wallThicknessGuess=5.0)
    with MinimizeSpy() as spy:
        res = manager.solveWall(settings)
    th = manager.thermodynamics
    cfg = manager.config.configEOM
    prof = np.array(res.fieldProfiles, float) if getattr(res, "fieldProfiles", None) \
        is not None else np.zeros((0, n))
    out = dict(
        model=name, n=n,
        success=bool(res.success), vw=_f(res.wallVelocity), vwLTE=_f(res.wallVelocityLTE),
        vJ=_f(manager.hydrodynamics.vJ), Tplus=_f(res.temperaturePlus),
        Tminus=_f(res.temperatureMinus),
        widths=[float(x) for x in res.wallWidths], offsets=[float(x) for x in res.wallOffsets],
        phaseLow=[float(x) for x in np.ravel(th.freeEnergyLow(TN).fieldsAtMinimum)],
        phaseHigh=[float(x) for x in np.ravel(th.freeEnergyHigh(TN).fieldsAtMinimum)],
        thickBounds=[float(x) for x in cfg.wallThicknessBounds],
        offBounds=[float(x) for x in cfg.wallOffsetBounds], Tnucl=float(th.Tnucl),
        minimize_calls=len(spy.calls), profiles=prof.tolist(),
        guesses=[[float(x) for x in g1], [float(x) for x in g2]])
    if res.temperatureMinus is not None and res.temperaturePlus is not None:
        out["vevLowTm"] = [float(x) for x in np.ravel(
            th.freeEnergyLow(res.temperatureMinus).fieldsAtMinimum)]
        out["vevHighTp"] = [float(x) for x in np.ravel(
            th.freeEnergyHigh(res.temperaturePlus).fieldsAtMinimum)]
    out["bounds_seen"] = sorted({(tuple(float(v) for v in lb), tuple(float(v) for v in ub),
                                  len(x0)) for x0, lb, ub in spy.calls})
    out["_handles"] = (manager, model)
    return out


def _f(x):
    return None if x is None else float(x)


_SEEN = set()


def fail_once(ctx, what, replay, key):
    """one replay file per failure class and run"""
    if key in _SEEN:
        return
    _SEEN.add(key)
    ctx.fail_input(what, replay, key=key)


def expected_from_base(base, perm, sign, shift):
    """what the relabelled run must return, computed from the base run (the proved laws)"""
    n = len(perm)
    L = base["widths"]
    d = base["offsets"]
    p0 = perm[0]
    exp = dict(widths=[L[perm[j]] for j in range(n)],
               offsets=[d[perm[j]] - L[p0] / L[perm[j]] * d[p0] for j in range(n)],
               phaseLow=list(to_new(base["phaseLow"], perm, sign, shift)),
               phaseHigh=list(to_new(base["phaseHigh"], perm, sign, shift)))
    for k in ("vw", "vwLTE", "vJ", "Tplus", "Tminus"):
        exp[k] = base[k]
    return exp


# Tolerances.  The wall solver's brentq stops at xtol = errTol = 1e-3 in vw.  When another
# field is pinned (perm[0] != 0) the grid is centred elsewhere and the discretisation differs:
# observed scatter 4.2e-4 in vw, 3e-4 rel in T+-, 1.2e-4 rel in the widths, 3e-4 of a width in
# the wall separation -> vw 2*errTol, T+- 1.5e-3, widths 1e-3, separation 2e-3 (margins are
# recorded in the evidence, coverage.margins, and stay below 0.3).
# With the same field order (translation / reflection) only rounding and the minimiser's
# termination differ: observed 3e-7 in vw, 4e-5 rel in the widths (also for shifts 1e4, 1e6).
TOL_REPIN = dict(vw=2e-3, vwLTE=1e-5, vJ=1e-6, T=1.5e-3, width=1e-3, sep=2e-3, phase=1e-4)
TOL_SAME = dict(vw=2e-5, vwLTE=1e-5, vJ=1e-6, T=1e-5, width=5e-4, sep=5e-4, phase=1e-4)


# The recorded finding (known_findings.json) keeps its historical key, but only for its own
# input AND its own symptom: vw / T+- / widths / wall separation off by the recorded amounts
# (vw 0.58678, widths 0.03987/0.04385/0.03618) with success=True.  Anything else observed on
# that input (phases, vwLTE, vJ, first offset, success flag, profile end points, other numbers)
# is reported under a key of its own.
KNOWN_KEYS = {"e2e:xsm3:perm=201:sign=+++:shift=zero": "e2e:xsm3:pinned=2"}
KNOWN_SIGNATURE = {"e2e:xsm3:pinned=2": dict(vw=0.586782, widths=[0.039869, 0.043849, 0.036182],
                                             vw_tol=5e-4, width_tol=5e-3)}


def e2e_key(model, perm, sign, shift, shift_class=None):
    k = "e2e:%s:perm=%s:sign=%s:shift=%s" % (
        model, "".join(str(p) for p in perm), "".join("+" if x > 0 else "-" for x in sign),
        shift_class or ("zero" if not any(shift) else "nonzero"))
    return k


def compare_runs(ctx, base, new, perm, sign, shift, label, shift_class=None, same_tol=None):
    """core = quantities the pinning finding is about (vw, T+-, widths, separation);
    other = everything else.  Returns (ok, deviations)."""
    exp = expected_from_base(base, perm, sign, shift)
    n = len(perm)
    # exact correspondence of the minimisers (objective_covariant_same_pin) whenever the
    # pinned field stays first, whatever happens to the other fields
    same = (perm[0] == 0) if same_tol is None else same_tol
    TOL = TOL_SAME if same else TOL_REPIN
    case = dict(model=base["model"], perm=list(perm), sign=list(sign), shift=list(shift),
                label=label)
    core, other = [], []
    if not new["success"]:
        other.append("solveWall did not report success")
    for k, tol, lst in (("vw", TOL["vw"], core), ("vwLTE", TOL["vwLTE"], other),
                        ("vJ", TOL["vJ"], other)):
        if new[k] is None or exp[k] is None:
            if new[k] != exp[k]:
                lst.append("%s: %r vs base %r" % (k, new[k], exp[k]))
        elif abs(new[k] - exp[k]) > tol:
            lst.append("%s changed: %.8g vs base %.8g" % (k, new[k], exp[k]))
    for k in ("Tplus", "Tminus"):
        if new[k] is None or exp[k] is None:
            if new[k] != exp[k]:
                core.append("%s: %r vs base %r" % (k, new[k], exp[k]))
        elif abs(new[k] - exp[k]) > TOL["T"] * abs(exp[k]):
            core.append("%s changed: %.8g vs base %.8g" % (k, new[k], exp[k]))
    if len(new["widths"]) != n or len(new["offsets"]) != n:
        other.append("result has %d widths / %d offsets for %d fields" % (
            len(new["widths"]), len(new["offsets"]), n))
    else:
        for j in range(n):
            if abs(new["widths"][j] - exp["widths"][j]) > TOL["width"] * exp["widths"][j]:
                core.append("width of new field %d: %.6g, base field %d has %.6g" % (
                    j, new["widths"][j], perm[j], exp["widths"][j]))
        # wall positions z_j = -offset_j * width_j relative to the pinned wall
        Lmax = max(exp["widths"])
        for j in range(1, n):
            zn = -new["offsets"][j] * new["widths"][j]
            ze = -exp["offsets"][j] * exp["widths"][j]
            if abs(zn - ze) > TOL["sep"] * Lmax:
                core.append("offset of new field %d: %.6g, expected %.6g (wall separation "
                            "%.6g vs %.6g)" % (j, new["offsets"][j], exp["offsets"][j], zn, ze))
        if new["offsets"][0] != 0.0:
            other.append("offset of the first field is %r, not 0" % new["offsets"][0])
    for k in ("phaseLow", "phaseHigh"):
        for j in range(n):
            if abs(new[k][j] - exp[k][j]) > TOL["phase"] * 246.0:
                other.append("%s[%d] = %.8g, expected %.8g" % (k, j, new[k][j], exp[k][j]))
    # results.fieldProfiles: first / last row are the phases at T- / T+ and must be the
    # relabelled ones of the base run; with the same grid (same order) every row is
    P0, P1 = np.array(base["profiles"], float), np.array(new["profiles"], float)
    if P1.shape != P0.shape or P1.shape[1:] != (n,) or len(P1) < 3:
        other.append("fieldProfiles has shape %r, base run %r" % (P1.shape, P0.shape))
    else:
        want = np.array([to_new(r, perm, sign, shift) for r in P0])
        scale = float(np.max(np.abs(P0[0] - P0[-1])))
        tv = max(abs(new["Tminus"] - base["Tminus"]), abs(new["Tplus"] - base["Tplus"]))
        # d(vev)/dT of these phases is < 3 field units per unit of T
        endtol = TOL["phase"] * 246.0 + 3.0 * tv
        for row, nm in ((0, "T-"), (-1, "T+")):
            d = float(np.max(np.abs(P1[row] - want[row])))
            if d > endtol:
                other.append("fieldProfiles end point at %s is %r, relabelled base %r" % (
                    nm, P1[row].tolist(), want[row].tolist()))
        if same:
            d = float(np.max(np.abs(P1 - want)))
            if d > (5 * TOL["width"]) * scale + endtol:
                core.append("fieldProfiles differ from the relabelled base profiles by %.3g "
                            "(field range %.3g)" % (d, scale))
    dev = dict(vw=abs((new["vw"] or 0) - (exp["vw"] or 0)),
               width=max(abs(new["widths"][j] / exp["widths"][j] - 1) for j in range(n))
               if len(new["widths"]) == n else float("nan"),
               T=abs((new["Tplus"] or 0) / exp["Tplus"] - 1),
               sep=max([abs(new["offsets"][j] * new["widths"][j] - exp["offsets"][j] *
                            exp["widths"][j]) / max(exp["widths"]) for j in range(1, n)]
                       or [0.0]) if len(new["widths"]) == n else float("nan"))
    ctx.count("e2e_relabelled_run", case, bucket="%s:%s" % (base["model"], label))
    key = e2e_key(base["model"], perm, sign, shift, shift_class)
    # margins: largest observed deviation / tolerance per tolerance class (runs that fail are
    # reported as failing inputs, not as margins)
    if not core and hasattr(ctx, "cov"):
        mg = ctx.cov.setdefault("margins", {})
        cls = "same-pin" if same else "re-pinned"
        for q, r in (("vw", dev["vw"] / TOL["vw"]), ("T", dev["T"] / TOL["T"]),
                     ("width", dev["width"] / TOL["width"]), ("sep", dev["sep"] / TOL["sep"])):
            if r == r:
                k = "%s:%s" % (cls, q)
                mg[k] = round(max(mg.get(k, 0.0), r), 4)
    if core:
        k = key
        sig = KNOWN_SIGNATURE.get(KNOWN_KEYS.get(key))
        if sig is not None and new["success"] and new["vw"] is not None and \
                abs(new["vw"] - sig["vw"]) <= sig["vw_tol"] and len(new["widths"]) == n and \
                all(abs(new["widths"][j] / sig["widths"][j] - 1) <= sig["width_tol"]
                    for j in range(n)):
            k = KNOWN_KEYS[key]
        fail_once(ctx, "relabelled run %s differs from the base run: %s" % (
            json.dumps(case), "; ".join(core[:4])),
            dict(kind="e2e", case=case, base=_slim(base), new=_slim(new), differences=core),
            key=k)
    if other:
        fail_once(ctx, "relabelled run %s: %s" % (json.dumps(case), "; ".join(other[:4])),
                  dict(kind="e2e", case=case, base=_slim(base), new=_slim(new),
                       differences=other), key=key + ":other")
    return not (core or other), dev


def compare_int_guess(ctx, base, new, case):
    """the same run with phase guesses of integer dtype must give the float run"""
    n = base["n"]
    ident = list(range(n))
    bad_phase = []
    for k in ("phaseLow", "phaseHigh"):
        for j in range(n):
            if abs(new[k][j] - base[k][j]) > TOL_SAME["phase"] * 246.0:
                bad_phase.append("%s[%d] = %.8g with integer-typed guesses, %.8g with float "
                                 "guesses" % (k, j, new[k][j], base[k][j]))
    ctx.count("e2e_int_typed_guess", case)
    if bad_phase:
        fail_once(ctx, "phase locations depend on the dtype of the phase guesses: " +
                  "; ".join(bad_phase[:4]),
                  dict(kind="e2e-int", case=case, base=_slim(base), new=_slim(new),
                       differences=bad_phase), key="int-dtype-phase-guess")
    # everything else judged as usual (phases masked so that they are not reported twice)
    new2 = dict(new, phaseLow=base["phaseLow"], phaseHigh=base["phaseHigh"])
    ok, dev = compare_runs(ctx, base, new2, ident, [1] * n, [0.0] * n, "int-typed-guesses",
                           shift_class="intguess")
    return ok and not bad_phase, dev


def _slim(r):
    return {k: v for k, v in r.items() if k not in ("bounds_seen", "_handles", "profiles")}


def check_bounds_seen(ctx, run, case):
    """direct validation of minimizer_bounds_aligned on what scipy really received"""
    n = run["n"]
    tl, th_ = [x / run["Tnucl"] for x in run["thickBounds"]]
    ol, oh = run["offBounds"]
    ok = True
    if abs(ol + oh) > 0:
        # the symmetric-box conjunct of minimizer_bounds_aligned would be vacuous
        msg = "tie: configured wallOffsetBounds are not symmetric: %r" % (run["offBounds"],)
        if msg not in ctx.broken:
            ctx.broken.append(msg)
    for lb, ub, nx in run["bounds_seen"]:
        ctx.count("minimize_bounds_seen")
        want_lb = [tl] * n + [ol] * (n - 1)
        want_ub = [th_] * n + [oh] * (n - 1)
        if nx != 2 * n - 1 or not np.allclose(lb, want_lb, rtol=1e-12, atol=0) or \
                not np.allclose(ub, want_ub, rtol=1e-12, atol=0):
            ok = False
            fail_once(ctx, 
                "scipy.optimize.minimize received bounds lb=%r ub=%r for (widths, free "
                "offsets); expected lb=%r ub=%r" % ([float(x) for x in lb],
                                                      [float(x) for x in ub], want_lb, want_ub),
                dict(kind="bounds", case=case, lb=list(lb), ub=list(ub), want_lb=want_lb,
                     want_ub=want_ub), key="minimize-bounds")
    if run["minimize_calls"] == 0:
        ctx.broken.append("harness: no scipy.optimize.minimize call observed")
    return ok


# ------------------------------------------------------------------------------------
# unit level: the real methods on random inputs

def dy(rng, lo, hi, den=16):
    return Fraction(rng.randint(int(lo * den), int(hi * den)), den)


def rand_fields(rng, n):
    """n per-field records (vevLow, vevHigh, width, offset) with dyadic entries"""
    out = []
    for j in range(n):
        lo = dy(rng, -8, 8)
        hi = lo + rng.choice([-1, 1]) * dy(rng, 1, 12)
        out.append((lo, hi, dy(rng, 1, 6, 8) + Fraction(1, 8), Fraction(0) if j == 0 else
                    dy(rng, -3, 3, 8)))
    return out


def rand_relabel(rng, n):
    perm = list(range(n))
    rng.shuffle(perm)
    return perm, [rng.choice([-1, 1]) for _ in range(n)], [dy(rng, -6, 6, 4) for _ in range(n)]


def eom_stub(n, grid=None, veff=None):
    from WallGo import EOM
    e = object.__new__(EOM)
    e.nbrFields = n
    e.particles = []
    e.grid = grid

    class _T:
        pass
    e.thermo = _T()
    e.thermo.effectivePotential = veff
    return e


def wallparams(fs):
    from WallGo import WallParams
    return WallParams(widths=np.array([float(f[2]) for f in fs]),
                      offsets=np.array([float(f[3]) for f in fs]))


def vevs(fs):
    from WallGo import Fields
    return Fields([float(f[0]) for f in fs]), Fields([float(f[1]) for f in fs])


def relabel_fs(fs, perm, sign, shift):
    return [(sign[j] * fs[perm[j]][0] + shift[j], sign[j] * fs[perm[j]][1] + shift[j],
             fs[perm[j]][2], fs[perm[j]][3]) for j in range(len(perm))]


class GridSpy:
    smoothing = 0.1
    ratioPointsWall = 0.5

    def changePositionFalloffScale(self, *a):
        self.args = [float(x) for x in a]


def unit_checks(ctx, rng):
    """profile equivariance, action covariance (real quadrature), grid invariance and
    re-pinning on the real methods; returns rows for the certified correspondence"""
    import WallGo
    from WallGo import EOM, Fields
    rows = []
    grid = WallGo.Grid3Scales(20, 11, 5.0, 5.0, 1.0, 100.0, 0.5, 0.1)

    class Quartic:
        """generic two.. n-field quartic, transformed consistently by (perm, sign, shift)"""

        def __init__(self, n, co, perm=None, sign=None, shift=None):
            self.n, self.co = n, co
            self.perm = perm or list(range(n))
            self.sign = sign or [1] * n
            self.shift = shift or [0] * n

        def evaluate(self, fields, T):
            f = Fields(fields)
            base = [None] * self.n
            for j in range(self.n):
                base[self.perm[j]] = self.sign[j] * (f.getField(j) - float(self.shift[j]))
            v = 0.0
            for (i, k, pw), c in self.co.items():
                v = v + c * base[i] ** pw * base[k] ** (4 - pw if pw < 4 else 0)
            for i in range(self.n):
                v = v + 0.3 * (i + 1) * base[i] ** 2 + 0.05 * base[i] ** 3
            return v + 0.0 * np.asarray(T)

        def derivT(self, fields, T):
            # any relabelling-covariant scalar of the field point will do
            return -0.01 * T * (1.0 + 0.001 * self.evaluate(fields, T))

    for it in range(ctx.n(25, 300)):
        n = rng.choice([1, 2, 2, 3, 3, 4])
        fs = rand_fields(rng, n)
        perm, sign, shift = rand_relabel(rng, n)
        fs2 = relabel_fs(fs, perm, sign, shift)
        case = dict(fields=[[str(x) for x in f] for f in fs], perm=perm, sign=sign,
                    shift=[str(s) for s in shift])
        bucket = "n=%d" % n
        # --- wallProfile equivariance (array z and scalar z)
        z = np.array([float(dy(rng, -6, 6)) for _ in range(5)])
        lo, hi = vevs(fs)
        lo2, hi2 = vevs(fs2)
        stub = eom_stub(n)
        P, dP = EOM.wallProfile(stub, z, lo, hi, wallparams(fs))
        P2, dP2 = EOM.wallProfile(stub, z, lo2, hi2, wallparams(fs2))
        ctx.count("unit_profile", case, bucket=bucket)
        sc = 1 + np.max(np.abs(P))
        for j in range(n):
            if np.max(np.abs(P2[:, j] - (sign[j] * P[:, perm[j]] + float(shift[j])))) > 1e-12 * sc \
                    or np.max(np.abs(dP2[:, j] - sign[j] * dP[:, perm[j]])) > 1e-12 * sc:
                fail_once(ctx, "wallProfile of the relabelled configuration is not the "
                               "relabelled profile (new field %d)" % j,
                               dict(kind="profile", case=case, z=list(z)), key="unit:profile")
                break
        Ps, dPs = EOM.wallProfile(stub, float(z[0]), lo, hi, wallparams(fs))
        if np.max(np.abs(np.ravel(Ps) - P[0])) > 1e-13 * sc or \
                np.max(np.abs(np.ravel(dPs) - dP[0])) > 1e-13 * sc or Ps.shape != (1, n):
            fail_once(ctx, "wallProfile(scalar z) differs from wallProfile(array z)[0]",
                           dict(kind="profile-scalar", case=case, z=float(z[0])),
                           key="unit:profile-scalar")
        if it < ctx.n(4, 16):
            j = rng.randrange(n)
            k = rng.randrange(len(z))
            rows.append(("profile", fs[j], Fraction(float(z[k])), float(P[k, j]),
                         float(dP[k, j])))
        # --- action covariance with the real quadrature
        co = {(i, k, pw): float(dy(rng, 0, 2, 8)) for i in range(n) for k in range(i, n)
              for pw in ((2,) if i != k else (4,))}
        T = np.ones(len(grid.xiValues))

        class D0:
            coefficients = np.zeros((0, len(grid.xiValues)))
        a1 = EOM.action(eom_stub(n, grid, Quartic(n, co)), wallparams(fs), lo, hi, T, D0)
        a2 = EOM.action(eom_stub(n, grid, Quartic(n, co, perm, sign, shift)), wallparams(fs2),
                        lo2, hi2, T, D0)
        ctx.count("unit_action", case, bucket=bucket)
        if abs(a1 - a2) > 1e-9 * (1 + abs(a1)):
            fail_once(ctx, "EOM.action of the relabelled model/configuration = %.12g, of the "
                           "original = %.12g" % (a2, a1),
                           dict(kind="action", case=case, quartic={str(k): v for k, v in
                                                                   co.items()},
                                action=[a1, a2]), key="unit:action")
        # kinetic term alone (zero potential): exact rational reference
        class Zero:
            def evaluate(self, fields, T):
                return 0.0 * Fields(fields).getField(0)

            def derivT(self, fields, T):
                return 0.0 * Fields(fields).getField(0)
        # --- temperatureProfileEqLHS at one grid point (energy-momentum conservation)
        from WallGo.fields import FieldPoint
        k = rng.randrange(len(z))
        s1v, s2v, Tv = float(dy(rng, 1, 9, 8)), float(dy(rng, -4, 4, 8)), float(dy(rng, 1, 4, 8))
        l1 = EOM.temperatureProfileEqLHS(eom_stub(n, None, Quartic(n, co)),
                                         P.getFieldPoint(k), dP.getFieldPoint(k), Tv, s1v, s2v)
        l2 = EOM.temperatureProfileEqLHS(eom_stub(n, None, Quartic(n, co, perm, sign, shift)),
                                         P2.getFieldPoint(k), dP2.getFieldPoint(k), Tv, s1v,
                                         s2v)
        ctx.count("unit_temperatureLHS", case, bucket=bucket)
        if abs(l1 - l2) > 1e-9 * (1 + abs(l1)):
            fail_once(ctx, "EOM.temperatureProfileEqLHS of the relabelled model/point = %.12g, "
                      "of the original = %.12g" % (l2, l1),
                      dict(kind="temperatureLHS", case=case, z=[float(z[k])], T=Tv, s1=s1v,
                           s2=s2v, quartic={str(q): v for q, v in co.items()},
                           lhs=[l1, l2]), key="unit:temperatureLHS")
        if it < ctx.n(4, 16):
            l0 = EOM.temperatureProfileEqLHS(eom_stub(n, None, Zero()), P.getFieldPoint(k),
                                             dP.getFieldPoint(k), Tv, s1v, s2v)
            rows.append(("lhs", [Fraction(float(x)) for x in dP.getFieldPoint(k)],
                         Fraction(Tv), Fraction(s1v), Fraction(s2v), l0))
        k1 = EOM.action(eom_stub(n, grid, Zero()), wallparams(fs), lo, hi, T, D0)
        kref = sum((f[1] - f[0]) ** 2 / (6 * f[2]) for f in fs)
        if abs(k1 - float(kref)) > 1e-10 * (1 + abs(k1)):
            fail_once(ctx, "kinetic term %.12g, expected sum (vevHigh-vevLow)^2/(6 L) = %.12g"
                           % (k1, float(kref)), dict(kind="kinetic", case=case),
                           key="unit:kinetic")
        if it < ctx.n(4, 16):
            rows.append(("kinetic", fs, k1))
        # --- grid parameters: invariant under relabelling, covariant under re-pinning
        vmid = float(Fraction(rng.randint(1, 15), 16))
        outs = []
        p = rng.randrange(n)
        cshift = fs[p][2] * fs[p][3]
        fs3 = [(f[0], f[1], f[2], f[3] - cshift / f[2]) for f in fs]
        for conf in (fs, fs2, fs3):
            st = eom_stub(n, GridSpy())
            st.meanFreePathScale = 0.5
            st.includeOffEq = bool(it % 2)
            EOM._updateGrid(st, wallparams(conf), vmid)
            outs.append(st.grid.args)
        ctx.count("unit_grid", case, bucket=bucket)
        if not np.allclose(outs[0], outs[1], rtol=1e-12, atol=1e-12):
            fail_once(ctx, "_updateGrid differs for the relabelled configuration: %r vs %r" % (
                outs[1], outs[0]), dict(kind="grid", case=case, vmid=vmid), key="unit:grid")
        want = list(outs[0])
        want[3] += float(cshift)
        if not np.allclose(outs[2], want, rtol=1e-11, atol=1e-11):
            fail_once(ctx, "_updateGrid after pinning field %d: %r, expected %r" % (
                p, outs[2], want), dict(kind="grid-repin", case=case, vmid=vmid, pinned=p),
                key="unit:grid-repin")
        if it < ctx.n(4, 16):
            rows.append(("grid", fs, Fraction(vmid), 0.5, float(bool(it % 2)), outs[0]))
        # --- packing
        st = eom_stub(n)
        wp = wallparams(fs)
        arr = np.concatenate((wp.widths, wp.offsets[1:]))
        back = EOM._toWallParams(st, arr)
        ctx.count("unit_packing", case, bucket=bucket)
        if list(back.widths) != list(wp.widths) or list(back.offsets) != [0.0] + list(
                wp.offsets[1:]):
            fail_once(ctx, "_toWallParams does not invert the packing", dict(
                kind="packing", case=case), key="unit:packing")
        if it < ctx.n(3, 10):
            rows.append(("pack", n, [Fraction(float(x)) for x in arr],
                         [float(x) for x in back.widths], [float(x) for x in back.offsets]))
    return rows


def particle_checks(ctx, rng):
    """the particle-mass clause and the assembly around the minimiser, on the real methods:
    EOM.action with out-of-equilibrium particles, EOM._intermediatePressureResults end to end
    (real potential derivatives, real quadrature, scipy.optimize.minimize replaced by a
    recording stub) and EOM.deltaToTmunu, for a model / particle masses / configuration
    relabelled together.  The field that is listed first after the relabelling has offset 0
    like the first one (no z-translation involved, so equality is exact)."""
    import types
    import scipy.optimize
    import WallGo
    from WallGo import EOM, EffectivePotential, Fields, WallParams
    from WallGo.fields import FieldPoint
    grid = WallGo.Grid3Scales(20, 11, 5.0, 5.0, 1.0, 100.0, 0.5, 0.1)
    npts = len(grid.xiValues)

    def base_of(fields, perm, sign, shift):
        f = Fields(fields)
        n = len(perm)
        b = [None] * n
        for j in range(n):
            b[perm[j]] = sign[j] * (f.getField(j) - float(shift[j]))
        return b

    def make_pot(n, co, perm, sign, shift, scales):
        class QPot(EffectivePotential):
            fieldCount = n
            effectivePotentialError = 1e-15

            def evaluate(self, fields, temperature):
                b = base_of(fields, perm, sign, shift)
                v = 0.0
                for (i, k), c in co.items():
                    v = v + c * b[i] ** 2 * b[k] ** 2
                for i in range(n):
                    v = v + 0.3 * (i + 1) * b[i] ** 2 + 0.05 * b[i] ** 3
                return v * (1.0 + 0.01 * np.asarray(temperature))
        pot = QPot()
        pot.configureDerivatives(WallGo.VeffDerivativeSettings(
            temperatureVariationScale=1.0,
            fieldValueVariationScale=[scales[perm[j]] for j in range(n)]))
        return pot

    class Particle:
        """msq = m0 + sum a_i b_i + sum q_ik b_i b_k in BASE coordinates b"""

        def __init__(self, dofs, m0, a, q, perm, sign, shift):
            self.totalDOFs, self.m0, self.a, self.q = dofs, m0, a, q
            self.perm, self.sign, self.shift = perm, sign, shift

        def msqVacuum(self, fields):
            b = base_of(fields, self.perm, self.sign, self.shift)
            n = len(b)
            return self.m0 + sum(self.a[i] * b[i] for i in range(n)) + sum(
                self.q[i][k] * b[i] * b[k] for i in range(n) for k in range(n))

        def msqDerivative(self, fields):
            b = base_of(fields, self.perm, self.sign, self.shift)
            n = len(b)
            db = [self.a[i] + sum((self.q[i][k] + self.q[k][i]) * b[k] for k in range(n))
                  for i in range(n)]
            return np.transpose([self.sign[j] * db[self.perm[j]] for j in range(n)])

    for it in range(ctx.n(6, 60)):
        n = rng.choice([2, 3, 3])
        fs = rand_fields(rng, n)
        perm = list(range(n))
        rng.shuffle(perm)
        # the field listed first after the relabelling also sits at offset 0, so that the
        # packing (which drops the first offset) loses nothing in either order
        fs[perm[0]] = fs[perm[0]][:3] + (Fraction(0),)
        sign = [rng.choice([-1, 1]) for _ in range(n)]
        shift = [dy(rng, -6, 6, 4) for _ in range(n)]
        ident = (list(range(n)), [1] * n, [0] * n)
        fs2 = relabel_fs(fs, perm, sign, shift)
        case = dict(fields=[[str(x) for x in f] for f in fs], perm=perm, sign=sign,
                    shift=[str(x) for x in shift])
        co = {(i, k): float(dy(rng, 0, 2, 8)) for i in range(n) for k in range(i, n)}
        scales = [float(dy(rng, 1, 4, 4)) for _ in range(n)]
        pdata = [(float(rng.randint(1, 12)), float(dy(rng, 0, 3, 4)),
                  [float(dy(rng, -2, 2, 4)) for _ in range(n)],
                  [[float(dy(rng, -1, 1, 4)) for _ in range(n)] for _ in range(n)])
                 for _ in range(2)]
        D = {k: np.array([[float(dy(rng, -2, 2, 8)) for _ in range(npts)] for _ in pdata])
             for k in ("Delta00", "Delta02", "Delta20", "Delta11")}
        deltas = types.SimpleNamespace(**{k: types.SimpleNamespace(coefficients=v)
                                          for k, v in D.items()})
        Tprof = np.array([1.0 + 0.02 * k for k in range(npts)])
        vprof = np.linspace(0.3, 0.5, npts)
        outs = []
        for (pm, sg, sh), conf in ((ident, fs), ((perm, sign, shift), fs2)):
            st = eom_stub(n, grid, make_pot(n, co, pm, sg, sh, scales))
            st.particles = [Particle(d, m0, a, q, pm, sg, sh) for d, m0, a, q in pdata]
            st.thermo.Tnucl = 2.0
            st.wallThicknessBounds, st.wallOffsetBounds = [0.1, 100.0], [-10.0, 10.0]
            st.includeOffEq, st.boltzmannSolver = False, None
            lo, hi = vevs(conf)
            act = EOM.action(st, wallparams(conf), lo, hi, Tprof, deltas.Delta00)
            rec = {}
            orig = scipy.optimize.minimize

            def stub(fun, x0, args=(), **kw):
                rec["f"] = float(fun(np.array(x0, float), *args))
                rec["x0"] = np.array(x0, float)
                rec["kw"] = sorted(kw)
                return types.SimpleNamespace(x=np.array(x0, float) * 1.01)
            scipy.optimize.minimize = stub
            try:
                pr, wp, _, bg = EOM._intermediatePressureResults(
                    st, wallparams(conf), lo, hi, 0.0, 0.0, 0.4,
                    types.SimpleNamespace(Deltas=deltas), 1.0 + 0.02 * npts, 1.0,
                    temperatureProfileInput=Tprof, velocityProfileInput=vprof)
            finally:
                scipy.optimize.minimize = orig
            k = rng.randrange(npts) if (pm, sg, sh) == ident else outs[0]["k"]
            P = EOM.wallProfile(st, grid.xiValues, lo, hi, wallparams(conf))[0]
            tmunu = EOM.deltaToTmunu(st, k, P.getFieldPoint(k), 0.4, deltas)
            outs.append(dict(k=k, action=float(act), obj=rec["f"], pressure=float(pr),
                             widths=[float(x) for x in wp.widths],
                             offsets=[float(x) for x in wp.offsets],
                             tmunu=[float(np.ravel(x)[0]) for x in tmunu],
                             bg=np.array(bg.fieldProfiles, float)))
        a, b = outs
        ctx.count("unit_particles", case, bucket="n=%d" % n)
        bad = []

        def rel(x, y, tol):
            return abs(x - y) > tol * (1 + abs(x))
        if rel(a["action"], b["action"], 1e-9):
            bad.append("EOM.action with particles: %.12g vs %.12g" % (b["action"], a["action"]))
        if rel(a["obj"], b["obj"], 1e-9):
            bad.append("objective handed to the minimiser at x0: %.12g vs %.12g" % (
                b["obj"], a["obj"]))
        if rel(a["pressure"], b["pressure"], 1e-7):
            bad.append("pressure of _intermediatePressureResults: %.12g vs %.12g" % (
                b["pressure"], a["pressure"]))
        for nm in ("widths", "offsets"):
            want = [a[nm][perm[j]] for j in range(n)]
            if not np.allclose(b[nm], want, rtol=1e-12, atol=1e-12):
                bad.append("%s returned %r, expected the permuted %r" % (nm, b[nm], want))
        if b["offsets"][0] != 0.0:
            bad.append("first offset returned is %r" % b["offsets"][0])
        if rel(a["tmunu"][0], b["tmunu"][0], 1e-9) or rel(a["tmunu"][1], b["tmunu"][1], 1e-9):
            bad.append("deltaToTmunu: %r vs %r" % (b["tmunu"], a["tmunu"]))
        want_bg = np.array([to_new(r, perm, sign, [float(x) for x in shift]) for r in a["bg"]])
        if b["bg"].shape != want_bg.shape or np.max(np.abs(b["bg"] - want_bg)) > 1e-10 * (
                1 + np.max(np.abs(want_bg))):
            bad.append("Boltzmann background fieldProfiles are not the relabelled ones")
        if bad:
            fail_once(ctx, "relabelled model + particle masses + configuration: " +
                      "; ".join(bad[:3]),
                      dict(kind="particles", case=case, differences=bad,
                           quartic={str(k): v for k, v in co.items()},
                           particles=[list(map(str, p)) for p in pdata]),
                      key="unit:particles:" + bad[0].split(":")[0].split(" ")[0])


def int_dtype_check(ctx):
    """findLocalMinimum with a phase guess of integer dtype (what a user types: Fields([0,
    110])) against the same guess as floats, on the xsm2 potential, plain and translated"""
    from WallGo import Fields
    for shift in ((0.0, 0.0), (3.0, -2.0)):
        pot = make_model("xsm2", (0, 1), (1, 1), shift).getEffectivePotential()
        gi = np.rint(np.array([0.0, 110.0]) + np.array(shift)).astype(int)
        loc_i, _ = pot.findLocalMinimum(Fields(gi), TN)
        loc_f, _ = pot.findLocalMinimum(Fields(gi.astype(float)), TN)
        ctx.count("unit_int_dtype_guess", dict(shift=shift))
        d = float(np.max(np.abs(np.ravel(loc_i) - np.ravel(loc_f))))
        if d > 1e-4 * 246.0:
            fail_once(ctx, "findLocalMinimum from the integer-typed guess %r returns %r, from the "
                      "same guess as floats %r (model translated by %r)" % (
                          gi.tolist(), np.ravel(loc_i).tolist(), np.ravel(loc_f).tolist(),
                          shift),
                      dict(kind="int-dtype", shift=list(shift), guess=gi.tolist(),
                           int_result=np.ravel(loc_i).tolist(),
                           float_result=np.ravel(loc_f).tolist()),
                      key="int-dtype-phase-guess")


def fields_cases(ctx, rng):
    """Fields helpers vs the generated index maps on integer matrices (vm_compute)"""
    from WallGo import Fields
    cases = []

    def zl(v):
        return "[" + "; ".join("%d" % int(x) for x in v) + "]%Z"

    def zm(M):
        return "[" + "; ".join("[" + "; ".join("%d" % int(x) for x in r) + "]" for r in M) + \
            "]%Z"
    for _ in range(ctx.n(12, 120)):
        m, n = rng.randint(1, 5), rng.randint(1, 4)
        M = np.array([[rng.randint(-9, 9) for _ in range(n)] for _ in range(m)], float)
        F = Fields.castFromNumpy(M.copy())
        i, j = rng.randrange(m), rng.randrange(n)
        ctx.count("fields_helpers", dict(M=M.tolist(), i=i, j=j), bucket="%dx%d" % (m, n))
        cases.append("leqb (Fields_getField 0%%Z %s %d) %s" % (zm(M), j, zl(F.getField(j))))
        cases.append("leqb (Fields_getFieldPoint 0%%Z %s %d) %s" % (zm(M), i,
                                                                    zl(F.getFieldPoint(i))))
        cases.append("Nat.eqb (Fields_numPoints %s) %d && Nat.eqb (Fields_numFields %s) %d"
                     % (zm(M), F.numPoints(), zm(M), F.numFields()))
        a = rng.randint(0, m - 1)
        b = rng.randint(a + 1, m)
        cases.append("meqb (Fields_takeSlice 0%%Z %s %d %d %d) %s" % (
            zm(M), a, b, Fields.overFieldPoints, zm(F.takeSlice(a, b, Fields.overFieldPoints))))
        a = rng.randint(0, n - 1)
        b = rng.randint(a + 1, n)
        cases.append("meqb (Fields_takeSlice 0%%Z %s %d %d %d) %s" % (
            zm(M), a, b, Fields.overFieldTypes, zm(F.takeSlice(a, b, Fields.overFieldTypes))))
        lo = np.array([[rng.randint(-9, 9) for _ in range(n)]], float)
        hi = np.array([[rng.randint(-9, 9) for _ in range(n)]], float)
        cat = np.concatenate((Fields.castFromNumpy(lo), F, Fields.castFromNumpy(hi)),
                             axis=F.overFieldPoints)
        cases.append("meqb (fieldsWithEndpoints %s %s %s) %s" % (zm(lo), zm(M), zm(hi),
                                                                   zm(cat)))
    hdr = """From Coq Require Import List ZArith Bool.
From WG Require Import Lib.FieldSpace.
From GenC08 Require Import FieldGen.
Import ListNotations.
Definition leqb (a b : list Z) : bool :=
  Nat.eqb (length a) (length b) && forallb (fun p => Z.eqb (fst p) (snd p)) (combine a b).
Definition meqb (a b : list (list Z)) : bool :=
  Nat.eqb (length a) (length b) && forallb (fun p => leqb (fst p) (snd p)) (combine a b).
"""
    return hdr, cases


R = pyrx.rlit


def eval_file(rows):
    """certified interval evaluation of the generated real-valued definitions"""
    hdr = """From Coq Require Import Reals List Lra.
From Interval Require Import Tactic.
From WG Require Import Lib.FieldSpace.
From GenC08 Require Import FieldGen.
Import ListNotations.
Local Open Scope R_scope.
Ltac flat a := lazymatch a with context [Rmax _ _] => fail | context [Rmin _ _] => fail
  | _ => idtac end.
Ltac dec := first [lra | interval with (i_prec 80)].
Ltac ev := cbv beta iota delta [wallProfile_ret0 wallProfile_ret1 action_ret temperatureLHS updateGrid_arg0
  updateGrid_arg1 updateGrid_arg2 updateGrid_arg3 sumR maxR minR map vevLow vevHigh width offset
  meanFreePathScale includeOffEq smoothing ratioPointsWall tanh sinh cosh];
  repeat match goal with
  | |- context [Rmax ?a ?b] => flat a; flat b;
      first [rewrite (Rmax_left a b) by dec | rewrite (Rmax_right a b) by dec]
  | |- context [Rmin ?a ?b] => flat a; flat b;
      first [rewrite (Rmin_left a b) by dec | rewrite (Rmin_right a b) by dec]
  end;
  interval with (i_prec 80).
"""
    goals = []

    def close(term, y):
        q = Fraction(y)
        tol = abs(q) * Fraction(1, 10 ** 9) + Fraction(1, 10 ** 11)
        goals.append("Goal Rabs (%s - %s) <= %s.\nProof. ev. Qed." % (term, R(q), R(tol)))

    def wf(f):
        return "(mk_wfield %s %s %s %s)" % tuple(R(x) for x in f)
    for r in rows:
        if r[0] == "profile":
            _, f, z, p, dp = r
            a = " ".join(R(x) for x in (z, f[0], f[1], f[2], f[3]))
            close("wallProfile_ret0 " + a, p)
            close("wallProfile_ret1 " + a, dp)
        elif r[0] == "kinetic":
            _, fs, k = r
            close("action_ret 0 [%s]" % "; ".join(wf(f) for f in fs), k)
        elif r[0] == "lhs":
            _, dP, T, s1, s2, y = r
            close("temperatureLHS [%s] %s 0 0 %s %s" % ("; ".join(R(x) for x in dP), R(T),
                                                         R(s1), R(s2)), y)
        elif r[0] == "grid":
            _, fs, vmid, mfp, off, out = r
            env = "(mk_genv %s %s %s %s)" % (R(Fraction(mfp)), R(Fraction(off)),
                                             R(Fraction("0.1")), R(Fraction("0.5")))
            for k in range(4):
                close("updateGrid_arg%d %s [%s] %s" % (k, env, "; ".join(wf(f) for f in fs),
                                                       R(vmid)), out[k])
        elif r[0] == "pack":
            _, n, arr, w, o = r
            la = "[" + "; ".join(R(x) for x in arr) + "]"
            goals.append("Goal toWallParams_widths %d %s = [%s] /\\ toWallParams_offsets %d %s "
                         "= [%s].\nProof. split; reflexivity. Qed." % (
                             n, la, "; ".join(R(Fraction(x)) for x in w), n, la,
                             "; ".join(R(Fraction(x)) for x in o)))
        elif r[0] == "bounds":
            _, n, cfg, lb, ub = r
            b = "(mk_bcfg %s)" % " ".join(R(Fraction(x)) for x in cfg)
            for nm, vals in (("lb", lb), ("ub", ub)):
                goals.append(
                    "Goal Forall2 (fun x y => Rabs (x - y) <= Rabs y / 1000000000) "
                    "(minimize_%s %s %d) [%s].\nProof. cbv beta iota delta [minimize_%s repeat "
                    "app Nat.sub thickLo thickHi offLo offHi Tnucl]. repeat constructor; "
                    "interval. Qed." % (nm, b, n, "; ".join(R(Fraction(x)) for x in vals), nm))
    return hdr + "\n".join(goals) + "\n", len(goals)


# ------------------------------------------------------------------------------------

def rand_vec(rng, n, lo, hi):
    """random vector with norm in [lo, hi] (base coordinates, inside the basin of a phase)"""
    v = [rng.uniform(-1, 1) for _ in range(n)]
    nv = math.sqrt(sum(x * x for x in v)) or 1.0
    r = rng.uniform(lo, hi)
    return [r * x / nv for x in v]


def transformations(ctx):
    """list of dict(model, perm, sign, shift | special, label, reuse, int_guess, guess_off).
    special shifts are computed from the base run:
      ("nearzero", [(phase, delta), ...]) : coordinate j of that phase AT THE SOLUTION (T-/T+)
                                            = delta_j
      ("equal", phase, value)            : all coordinates of that phase (at T-/T+) = value
      ("at_Tn", phase, [delta_j])        : that phase AT Tn sits at delta from the origin
      ("minus_guess", phase)             : the user's guess of that phase is the origin
    guess_off moves the two guesses inside their basins (the base run uses the fixed ones)."""
    rng = ctx.rng
    dl = [x * 1e-2 * TN for x in (0.3, -0.3, 0.9, -0.9, 0.03, -0.03)]

    def goff(n):
        return [rand_vec(rng, n, 5.0, 40.0), rand_vec(rng, n, 5.0, 40.0)]
    quick = [
        # the swap, on the SAME manager and model object as the base run (relabelled in
        # place); the low-T guess is the new origin (guess much closer to the origin than to
        # its minimum)
        dict(model="xsm2", perm=(1, 0), sign=(1, 1), special=("minus_guess", "low"),
             label="permutation", reuse=True),
        # partial reflections (an ODD number of fields reflected) expose cross terms
        # phi_i' phi_j'; one coordinate of each phase at the solution next to the origin
        dict(model="xsm2", perm=(0, 1), sign=(-1, 1),
             special=("nearzero", [("low", rng.choice(dl)), ("high", rng.choice(dl))]),
             guess_off=goff(2), label="reflection+nearzero+guesses"),
        # the high-T phase AT Tn exactly on the new origin (standard guesses: a different
        # guess moves the minimum found by ~1e-3, which would blur "exactly")
        dict(model="xsm2", perm=(0, 1), sign=(1, -1), special=("at_Tn", "high", [0.0, 0.0]),
             label="reflection+origin-at-Tn-phase"),
        # three fields, s pinned: decidable in the quick tier
        dict(model="xsm3", perm=(1, 0, 2), sign=(-1, 1, -1),
             shift=tuple(float(rng.randint(-120, 120)) for _ in range(3)), label="general"),
        # three fields with the light follower field listed first: the recorded finding
        # "e2e:xsm3:pinned=2" (result depends on which wall is pinned), replayed on every run
        dict(model="xsm3", perm=(2, 0, 1), sign=(1, 1, 1), shift=(0.0, 0.0, 0.0),
             label="pin-light-field")]
    if ctx.quick:
        return quick
    out = list(quick)
    # history: the base manager a third time, back in the original order, reflected+translated
    out.insert(1, dict(model="xsm2", perm=(0, 1), sign=(-1, 1), shift=(60.0, -45.0),
                       label="translation", reuse=True))
    out.append(dict(model="xsm2", perm=(0, 1), sign=(1, 1), shift=(0.0, 0.0),
                    label="int-typed-guesses", int_guess=True))
    out.append(dict(model="xsm2", perm=(0, 1), sign=(-1, 1), shift=(0.0, 0.0),
                    label="reflection"))
    out.append(dict(model="xsm2", perm=(0, 1), sign=(-1, -1), shift=(0.0, 0.0),
                    label="reflection"))
    out.append(dict(model="xsm2", perm=(0, 1), sign=(1, -1), special=("equal", "high", 40.0),
                    label="reflection+equal"))
    # the exact 0 rotates over the fields
    for ph in ("low", "high"):
        z = rng.randrange(2)
        d = [0.0, 0.0]
        d[1 - z] = rng.choice(dl)
        out.append(dict(model="xsm2", perm=(0, 1), sign=(1, 1),
                        special=("nearzero", [(ph, d[0]), (ph, d[1])]), label="nearzero"))
        # the phase at Tn on / next to the origin, plain and with varied guesses
        out.append(dict(model="xsm2", perm=(0, 1), sign=(1, 1), special=("at_Tn", ph, [0.0, 0.0]),
                        label="origin-at-Tn-phase"))
        d2 = [0.0, 0.0]
        d2[rng.randrange(2)] = rng.choice(dl)
        out.append(dict(model="xsm2", perm=(0, 1), sign=(rng.choice((1, -1)), 1),
                        special=("at_Tn", ph, d2), guess_off=goff(2),
                        label="near-origin-at-Tn-phase"))
        out.append(dict(model="xsm2", perm=(0, 1), sign=(1, 1), special=("minus_guess", ph),
                        guess_off=goff(2), label="origin-at-guess"))
    # guesses only (no relabelling): far from and close to the minimum
    out.append(dict(model="xsm2", perm=(0, 1), sign=(1, 1), shift=(0.0, 0.0),
                    guess_off=[rand_vec(rng, 2, 35.0, 45.0), rand_vec(rng, 2, 0.5, 2.0)],
                    label="guesses"))
    out.append(dict(model="xsm2", perm=(1, 0), sign=(1, -1), special=("equal", "low", -25.0),
                    label="equal"))
    for perm in ((0, 1), (1, 0)):
        for sign in itertools.product((1, -1), repeat=2):
            shift = (float(rng.randint(-120, 120)), float(rng.randint(-120, 120)))
            out.append(dict(model="xsm2", perm=perm, sign=sign, shift=shift, label="general"))
    # three fields: every ordering that pins h or s, with random signs and shifts
    for perm in ((0, 1, 2), (0, 2, 1), (1, 2, 0)):
        sign = (-1, 1, -1) if perm == (0, 1, 2) else tuple(rng.choice((1, -1))
                                                             for _ in range(3))
        shift = tuple(float(rng.randint(-120, 120)) for _ in range(3))
        out.append(dict(model="xsm3", perm=perm, sign=sign, shift=shift, label="general"))
    out.append(dict(model="xsm3", perm=(0, 2, 1), sign=(1, -1, 1),
                    special=("nearzero", [("low", rng.choice(dl)), ("low", rng.choice(dl)),
                                          ("high", rng.choice(dl))]), label="nearzero"))
    out.append(dict(model="xsm3", perm=(0, 2, 1), sign=(-1, 1, 1),
                    special=("at_Tn", "low", [0.0, 0.0, 0.0]), guess_off=goff(3),
                    label="origin-at-Tn-phase"))
    return out


def resolve_shift(tr, base):
    """(shift, shift_class) of a transformation, special ones from the base run's phases"""
    perm, sign = tr["perm"], tr["sign"]
    n = len(perm)
    if "special" not in tr:
        return tuple(tr["shift"]), None
    sp = tr["special"]
    coord = dict(low=base["vevLowTm"], high=base["vevHighTp"])
    if sp[0] == "nearzero":
        return tuple(-sign[j] * coord[sp[1][j][0]][perm[j]] + sp[1][j][1]
                     for j in range(n)), "nearzero"
    if sp[0] == "equal":
        return tuple(sp[2] - sign[j] * coord[sp[1]][perm[j]] for j in range(n)), "equal"
    if sp[0] == "at_Tn":
        # the phase AT THE NUCLEATION TEMPERATURE (what validatePhaseInput / tracePhase / the
        # thermodynamics start from) sits at delta from the new origin
        c = dict(low=base["phaseLow"], high=base["phaseHigh"])[sp[1]]
        return tuple(-sign[j] * c[perm[j]] + sp[2][j] for j in range(n)), "atTn"
    if sp[0] == "minus_guess":
        # the user's GUESS of that phase becomes the origin
        _, ph1, ph2, _ = MODELS[tr["model"]]
        g = list(ph1 if sp[1] == "high" else ph2)
        if tr.get("guess_off"):
            g = [a + b for a, b in zip(g, tr["guess_off"][0 if sp[1] == "high" else 1])]
        return tuple(-sign[j] * g[perm[j]] for j in range(n)), "minusguess"
    raise ValueError(sp)


def run(ctx):
    rng = ctx.rng
    _SEEN.clear()
    # (1) gen ---------------------------------------------------------------------------
    gen_ok = True
    try:
        esrc, fsrc = vlib.read_src("equationOfMotion.py"), vlib.read_src("fields.py")
        others = {f: vlib.read_src(f) for f in gen_fields.SCAN_FILES}
        text, spans = gen_fields.generate(esrc, fsrc, others)
        ctx.write("FieldGen.v", text, sources=dict(
            files=["src/WallGo/equationOfMotion.py", "src/WallGo/fields.py"] +
            ["src/WallGo/" + f for f in gen_fields.SCAN_FILES if f != "equationOfMotion.py"],
            sha=[vlib.sha(esrc), vlib.sha(fsrc)] + [vlib.sha(others[f]) for f in
                                                    gen_fields.SCAN_FILES
                                                    if f != "equationOfMotion.py"],
            spans=spans))
    except pyrx.TranslateError as e:
        ctx.log("translator failed:", e)
        ctx.broken.append("translator: %s" % e)
        gen_ok = False
    # (2) prove -------------------------------------------------------------------------
    proved = gen_ok and ctx.prove(extra=["FieldGen.v"])
    ctx.trusted += ["tools/gen_fields.py (axis-checking AST translator)",
                    "Interval tactic (certified evaluation)"]
    # (4a) unit-level direct validation on the real methods (also yields the rows of (3)) ---
    rows = []
    try:
        rows = unit_checks(ctx, rng)
    except Exception as ex:
        import traceback
        ctx.log("unit checks raised", traceback.format_exc())
        ctx.broken.append("harness: unit checks raised %r" % ex)
    for fn_, nm in ((particle_checks, "particle"), (int_dtype_check, "int dtype")):
        try:
            fn_(ctx, rng) if fn_ is particle_checks else fn_(ctx)
        except Exception as ex:
            import traceback
            ctx.log("%s checks raised" % nm, traceback.format_exc())
            ctx.broken.append("harness: %s checks raised %r" % (nm, ex))
    # (4b) end-to-end metamorphic runs -----------------------------------------------------
    bases = {}
    import traceback
    for tr in transformations(ctx):
        name = tr["model"]
        if name not in bases:
            try:
                base = run_e2e(name)
            except Exception as ex:
                ctx.log("base run raised", traceback.format_exc())
                ctx.broken.append("harness: base run %s raised %r" % (name, ex))
                bases[name] = None
                continue
            bases[name] = base
            ctx.log("base run %s: vw=%.8f vwLTE=%.8f vJ=%.8f T-=%.5f T+=%.5f widths=%r "
                    "offsets=%r" % (name, base["vw"], base["vwLTE"], base["vJ"],
                                    base["Tminus"], base["Tplus"], base["widths"],
                                    base["offsets"]))
            ctx.sample(dict(base_run=_slim(base)))
            n = base["n"]
            check_bounds_seen(ctx, base, dict(model=name, perm=list(range(n)),
                                              sign=[1] * n, shift=[0] * n))
            if not base["success"] or base["vw"] is None:
                ctx.broken.append("harness: base run %s did not succeed" % name)
            # the profile end points are the phases at T-, T+
            P = np.array(base["profiles"], float)
            if len(P) < 3 or np.max(np.abs(P[0] - base["vevLowTm"])) > 1e-6 or \
                    np.max(np.abs(P[-1] - base["vevHighTp"])) > 1e-6:
                fail_once(ctx, "results.fieldProfiles of the base run does not start/end at "
                          "the phases at T-/T+", dict(kind="e2e-base", model=name,
                                                      first=P[:1].tolist(), last=P[-1:].tolist(),
                                                      vevLowTm=base["vevLowTm"],
                                                      vevHighTp=base["vevHighTp"]),
                          key="e2e:%s:profile-endpoints" % name)
            if base["bounds_seen"]:
                rows.append(("bounds", n, base["thickBounds"] + base["offBounds"] +
                             [base["Tnucl"]], list(base["bounds_seen"][0][0]),
                             list(base["bounds_seen"][0][1])))
        base = bases[name]
        if base is None:
            continue
        perm, sign, label = tr["perm"], tr["sign"], tr["label"]
        shift, sclass = resolve_shift(tr, base)
        case = dict(model=name, perm=list(perm), sign=list(sign), shift=list(shift),
                    label=label, reuse=bool(tr.get("reuse")), int_guess=bool(tr.get("int_guess")),
                    guess_off=tr.get("guess_off"))
        key = e2e_key(name, perm, sign, shift, sclass)
        try:
            new = run_e2e(name, perm, sign, shift,
                          reuse=base["_handles"] if tr.get("reuse") else None,
                          int_guess=bool(tr.get("int_guess")), guess_off=tr.get("guess_off"))
        except Exception as ex:
            ctx.log("relabelled run raised", traceback.format_exc())
            ctx.count("e2e_relabelled_run", case, bucket="%s:%s" % (name, label))
            fail_once(ctx, "relabelled run %s raised %r (the base run succeeded)" % (
                json.dumps(case), ex), dict(kind="e2e", case=case, raised=repr(ex)),
                key=key + (":reused-manager" if tr.get("reuse") else "") + ":raised")
            continue
        if tr.get("int_guess"):
            ok, dev = compare_int_guess(ctx, base, new, case)
        else:
            ok, dev = compare_runs(ctx, base, new, perm, sign, shift,
                                   label + ("+reused-manager" if tr.get("reuse") else ""),
                                   shift_class=sclass)
        check_bounds_seen(ctx, new, case)
        ctx.log("%s %s perm=%r sign=%r shift=%r: vw=%.8f widths=%r offsets=%r dev=%s %s" % (
            name, label, perm, sign, tuple(round(x, 4) for x in shift),
            new["vw"] or float("nan"), new["widths"],
            new["offsets"], " ".join("%s:%.1e" % kv for kv in dev.items()),
            "ok" if ok else "DIFFERS"))
        ctx.sample(dict(relabelled_run=dict(case=case, result=_slim(new))))
    # (3) correspondence model <-> implementation -------------------------------------------
    import os
    if gen_ok and os.path.exists(os.path.join(ctx.bdir, "FieldGen.vo")):
        hdr, cases = fields_cases(ctx, rng)
        for b in ctx.run_cases("FieldsHelpers", hdr, cases):
            ctx.broken.append("correspondence: Fields helpers %s cases %s" % (b["file"],
                                                                               b["cases"]))
            ctx.log("Fields helper correspondence failed", b["cases"], b["err"][-300:])
            for c in b["cases"][:3]:
                ctx.log("  case:", cases[c])
        text, ng = eval_file(rows)
        p = ctx.write("Cases/Eval.v", text)
        pr = subprocess.run(["timeout", "600", "coqc"] + ctx.coq_args() + [p], cwd=ctx.bdir,
                            capture_output=True, text=True)
        for _ in range(ng):
            ctx.count("certified_eval")
        if pr.returncode != 0:
            ctx.broken.append("correspondence: certified evaluation Cases/Eval.v")
            ctx.log("certified evaluation failed", vlib.tail(pr.stderr, 8))
    ctx.cov["rule"] = (
        "unit level: random dyadic configurations of 1-4 fields (vevs in [-8,8]+-12, widths "
        "in [1/4,7/8], offsets in [-3,3], first offset 0) with a random permutation, sign "
        "pattern and shift; distinct = distinct (configuration, relabelling). End to end: "
        "xsm2 = xSM-like two-field high-T potential (phases (0,s) and (v,0), per-field FD "
        "scales 50/30 permuted along), xsm3 = the same plus a heavy field following "
        "0.3 h^2/246 (third wall, same free energies); Tn=100, equilibrium solveWall, default "
        "config (energy-momentum conservation on). quick = xsm2 base; the swap ON THE SAME "
        "manager and model object (relabelled in place) with the low-T GUESS as the new origin; "
        "reflection (-,+) with a shift that puts the h coordinate of the low-T phase at T- and "
        "the s coordinate of the high-T phase at T+ at delta in {+-0.03,+-0.3,+-0.9} (seeded) "
        "next to the origin and with both guesses moved by random vectors of norm 5-40 inside "
        "their basins; reflection (+,-) with the high-T phase AT Tn exactly on the origin; xsm3 "
        "(s,h,chi) with signs (-,+,-) and seeded integer shifts; the recorded xsm3 finding (chi "
        "listed first, matched to its key only if vw and widths are the recorded ones). thorough "
        "adds a third use of the same manager, integer-typed phase guesses, either phase at Tn "
        "on / next to the origin (exact zero rotating over the fields) with and without moved "
        "guesses, either guess as the origin, guesses far from (35-45) and close to (0.5-2) "
        "their minima, equal coordinates, both xsm2 orderings x all four sign patterns with "
        "random integer shifts in [-120,120]^2, pure reflections, and the xsm3 orderings that "
        "pin h or s with random signs/shifts, "
        "near-zero shifts. Compared: vw, vwLTE, vJ, T+-, widths, wall separations through the "
        "re-pinning law, phases at Tn, results.fieldProfiles (end points always, every row "
        "when the pinned field stays first). Tolerances when another field is pinned: vw 2e-3 "
        "= 2*errTol (observed 4.2e-4), T+- 1.5e-3 rel (observed 3e-4), widths 1e-3 (observed "
        "1.2e-4), separation 2e-3 (observed 3e-4); pinned field unchanged: vw 2e-5 (observed 3e-7), T+- 1e-5, widths and "
        "separation 5e-4 (observed 4e-5); always vwLTE 1e-5, vJ 1e-6, phases 1e-4*246. "
        "Particle clause: 2-3 fields, two stub particles with quadratic mass forms and random "
        "Delta00/02/20/11 relabelled along, through EOM.action, EOM._intermediatePressureResults "
        "(real derivField and quadrature, minimiser replaced by a recording stub) and "
        "EOM.deltaToTmunu.")
    ctx.assumptions += [
        "the potential part U of the action (user potential evaluated on the profile + "
        "spectral quadrature) is a functional of the profile that is invariant when profile "
        "and potential are relabelled together (hypothesis Vcov; evaluated on the real "
        "EOM.action with the real quadrature in the unit checks)",
        "scipy's Nelder-Mead minimiser, the phase tracer and the root finders return "
        "relabelling-covariant answers within tolerance (validated by the end-to-end runs)",
        "U is invariant under a common z-translation of all walls only up to the accuracy of "
        "the grid (re-pinning is exact for profile, offsets and grid parameters)"]


def replay(rep):
    print(json.dumps({k: v for k, v in rep.items() if k not in ("base", "new")}, indent=1))
    kind = rep.get("kind")
    c = rep.get("case", {})
    if kind == "int-dtype":
        from WallGo import Fields
        pot = make_model("xsm2", (0, 1), (1, 1), tuple(rep.get("shift", (0.0, 0.0)))
                         ).getEffectivePotential()
        g = np.array(rep.get("guess", [0, 110]), int)
        print("int guess  ->", np.ravel(pot.findLocalMinimum(Fields(g), TN)[0]).tolist())
        print("float guess->", np.ravel(pot.findLocalMinimum(Fields(g.astype(float)),
                                                             TN)[0]).tolist())
        return 0
    if kind in ("e2e", "bounds", "e2e-int"):
        name = c.get("model", "xsm2")
        base = run_e2e(name)
        new = run_e2e(name, tuple(c["perm"]), tuple(c["sign"]), tuple(c["shift"]),
                      reuse=base["_handles"] if c.get("reuse") else None,
                      int_guess=bool(c.get("int_guess")), guess_off=c.get("guess_off"))
        print("base:", json.dumps(_slim(base)))
        print("new :", json.dumps(_slim(new)))
        print("bounds seen:", new["bounds_seen"])
        print("expected from base:", expected_from_base(base, c["perm"], c["sign"], c["shift"]))
        return 0
    if "fields" in c:
        import WallGo
        from WallGo import EOM, Fields
        fs = [tuple(Fraction(x) for x in f) for f in c["fields"]]
        perm, sign = c["perm"], c["sign"]
        shift = [Fraction(x) for x in c["shift"]]
        fs2 = relabel_fs(fs, perm, sign, shift)
        n = len(fs)
        grid = WallGo.Grid3Scales(20, 11, 5.0, 5.0, 1.0, 100.0, 0.5, 0.1)

        class Zero:
            def evaluate(self, fields, T):
                return 0.0 * Fields(fields).getField(0)

        class D0:
            coefficients = np.zeros((0, len(grid.xiValues)))
        T = np.ones(len(grid.xiValues))
        for lab, conf in (("original", fs), ("relabelled", fs2)):
            lo, hi = vevs(conf)
            print(lab, "fields (vevLow, vevHigh, width, offset):", [[float(x) for x in f]
                                                                    for f in conf])
            print("  kinetic term (EOM.action with V=0):",
                  EOM.action(eom_stub(n, grid, Zero()), wallparams(conf), lo, hi, T, D0),
                  " reference sum (dphi)^2/(6L):",
                  float(sum((f[1] - f[0]) ** 2 / (6 * f[2]) for f in conf)))
            z = np.array(rep.get("z", [0.0, 0.5]), float).ravel()
            print("  wallProfile at z=%r:" % list(z),
                  EOM.wallProfile(eom_stub(n), z, lo, hi, wallparams(conf))[0].tolist())
            st = eom_stub(n, GridSpy())
            st.meanFreePathScale, st.includeOffEq = 0.5, True
            EOM._updateGrid(st, wallparams(conf), rep.get("vmid", 0.5))
            print("  _updateGrid ->", st.grid.args)
    return 0
