"""C16 -- spectral polynomial calculus is exact on the polynomial space of the grid."""
import itertools
import json
import math
import os
from fractions import Fraction

import numpy as np
from numpy.polynomial import chebyshev as C
from numpy.polynomial import polynomial as P

import gen_poly
import vlib

EXPLANATION = (
    "tools/gen_poly.py re-extracts from polynomial.py, on every run, which Chebyshev orders, "
    "restriction, rows, weights, identity size and matrix expression each method uses for "
    "every direction / end-point flag (changeBasis on a rank-2 object for every ordered pair "
    "of axis kinds), how matrix/derivMatrix dispatch, and scans every method for in-place "
    "updates of objects it did not allocate; Coq proves these facts equal the model's, are "
    "mutually consistent and axis-independent. On the model (Lib/Spectral.v, one definition "
    "instantiated over R and over rationals) and for arbitrary distinct nodes / all sizes "
    "Coq proves: cardinal functions are a delta on the grid; interpolation reproduces every "
    "admissible polynomial at every x (also with dropped boundary points); every entry of "
    "_cardinalDeriv is the derivative of a cardinal function, hence the derivative matrix is "
    "exact at all grid points incl. the boundaries; the identity of _cardinalMatrix is the "
    "matrix C_j(x_i); T_n(cos t)=cos nt, T_n'=nU_{n-1}, exact degree n; restricted bases "
    "vanish at the dropped points and _chebyshevDeriv holds their derivatives; Chebyshev "
    "and cardinal evaluation agree; the basis matrix is square with trivial kernel, "
    "coefficients are unique and a computed inverse with zero residual gives both round "
    "trips; Gauss-Chebyshev-Lobatto exactness and that integrate's weights realise it. The "
    "rational instance of the model is compared by vm_compute with the running "
    "implementation on its own float nodes; the property is also evaluated directly on the "
    "implementation against numpy.polynomial.chebyshev over sizes, grids, ranks <= 6, call "
    "forms, element types, operation chains, labels of results and purity.")

DIRS = ("z", "pz", "pp")
COQDIR = {"z": "Dz", "pz": "Dpz", "pp": "Dpp"}
TOL = 2e-11       # ~50-100x the rounding of the worst configuration (M=30 derivative matrices)
_DS = [1.0]        # scale of the input data of the current configuration (max |coefficient|)
MARGIN = {}        # worst |error| / tolerance per check family (goes into the evidence)


# ----------------------------------------------------------------------------------
# independent oracle (numpy.polynomial.chebyshev)

def axis_size(M, N, d, ep):
    if d == "z":
        return M - 1 + 2 * ep
    if d == "pz":
        return N - 1 + 2 * ep
    return N - 1 + ep


def quad_n(M, N, d):
    return {"z": M, "pz": N, "pp": N - 1}[d]


def moment_sqrt(k):
    """int_{-1}^{1} x^k sqrt(1-x^2) dx / pi  (exact rational)"""
    if k % 2:
        return Fraction(0)
    m = k // 2
    return Fraction(math.factorial(2 * m), 2 * 4 ** m * math.factorial(m) *
                    math.factorial(m + 1))


class AxisOracle:
    """Everything the property says about one polynomial axis, computed without WallGo.
    The admissible space is spanned by psi_k = T_k * v(x), v = 1 (end points kept),
    1 - x^2 (z, pz without end points), 1 - x (pp without the end point)."""

    def __init__(self, grid, M, N, d, ep):
        self.M, self.N, self.d, self.ep = M, N, d, ep
        # copies: the oracle must not share memory with the grid it judges
        self.full = np.array(grid.getCompactCoordinates(True, d), dtype=float, copy=True)
        self.nodes = np.array(grid.getCompactCoordinates(ep, d), dtype=float, copy=True)
        self.size = axis_size(M, N, d, ep)
        assert self.size == len(self.nodes)
        if ep:
            v = [1.0]
        elif d == "pp":
            v = [1.0, -1.0]
        else:
            v = [0.5, 0.0, -0.5]
        self.ndrop = len(v) - 1
        self.psi = [C.chebmul(v, np.eye(self.size)[k]) for k in range(self.size)]
        self.deg = [k + self.ndrop for k in range(self.size)]
        nfull = len(self.full)
        # grid values, Chebyshev coefficients in the code's (restricted) basis
        self.V = np.array([C.chebval(self.nodes, p) for p in self.psi]).T
        B = np.zeros((self.size, self.size))
        for k, p in enumerate(self.psi):
            b = np.zeros(nfull)
            b[:len(p)] = p
            B[:, k] = b[self.ndrop:]
        self.B = B
        # derivative at every point of the complete grid
        self.D = np.array([C.chebval(self.full, C.chebder(p)) for p in self.psi]).T
        self.D2 = np.array([C.chebval(self.full, C.chebder(p, 2)) for p in self.psi]).T

    def dE(self, y):
        """values of the derivative at arbitrary points"""
        return np.array([C.chebval(np.asarray(y, dtype=float), C.chebder(p))
                         for p in self.psi]).T

    def E(self, y):
        return np.array([C.chebval(np.asarray(y, dtype=float), p) for p in self.psi]).T

    def coeffs(self, basis):
        return self.V if basis == "Cardinal" else self.B

    def integral_row(self, rpoly):
        """int psi_k(x) sqrt(1-x^2) r(x) dx for every k (None where the integrand is
        outside the exactness class of the rule: degree of psi_k r above 2n-3)."""
        n = quad_n(self.M, self.N, self.d)
        out = []
        for k, p in enumerate(self.psi):
            s = P.polymul(C.cheb2poly(p), rpoly)
            if len(s) - 1 > 2 * n - 3:
                out.append(None)
                continue
            tot = sum(Fraction(float(c)) * moment_sqrt(i) for i, c in enumerate(s))
            out.append(float(tot) * math.pi)
        return out


def contract(A, mats):
    """apply mats[i] (out x in, or a vector -> contraction, or None) along axis i"""
    removed = 0
    for i, m in enumerate(mats):
        if m is None:
            continue
        ax = i - removed
        m = np.asarray(m)
        if m.ndim == 1:
            A = np.tensordot(m, A, axes=(0, ax))
            removed += 1
        else:
            A = np.moveaxis(np.tensordot(m, A, axes=(1, ax)), 0, ax)
    return A


def close(a, b, scale=None):
    a = np.asarray(a, dtype=float)
    b = np.asarray(b, dtype=float)
    if a.shape != b.shape:
        return False
    if scale is None:
        scale = _DS[0] + (np.max(np.abs(b)) if b.size else 0.0)
    err = float(np.max(np.abs(a - b))) if a.size else 0.0
    if not np.isfinite(err):
        return False
    import sys
    fam = sys._getframe(1).f_code.co_name
    if scale > 0:
        MARGIN[fam] = max(MARGIN.get(fam, 0.0), err / (TOL * scale))
    return bool(err <= TOL * scale)


# ----------------------------------------------------------------------------------
# one configuration: sizes + axes

GRID_KINDS = ("plain", "3scales", "rescaled", "3scales-rescaled")


def make_grid(M, N, kind="plain"):
    """the plain Grid, the Grid3Scales that WallGoManager builds, and both after the
    re-scaling calls of the solver (the compact coordinates must not depend on any of it)"""
    from WallGo.grid import Grid
    from WallGo.grid3Scales import Grid3Scales
    if kind == "plain":
        return Grid(M, N, 1.0, 1.0)
    if kind == "uniform":          # equidistant nodes: everything but the quadrature applies
        return Grid(M, N, 1.0, 1.0, spacing="Uniform")
    if kind == "rescaled":
        g = Grid(M, N, 1.0, 1.0)
        g.changeMomentumFalloffScale(2.5)
        g.changePositionFalloffScale(0.7)
        return g
    g = Grid3Scales(M, N, 2.0, 3.0, 1.5, 1.2)
    if kind == "3scales-rescaled":
        g.changePositionFalloffScale(1.0, 2.0, 0.5, 0.1)
        g.changeMomentumFalloffScale(0.8)
    return g


def grid_arrays(grid):
    """every array the grid owns (purity checks)"""
    return {k: np.array(v, copy=True) for k, v in vars(grid).items()
            if isinstance(v, np.ndarray)}


def spec_name(spec):
    return "M%d N%d %s" % (spec["M"], spec["N"], "" if spec.get("grid", "plain") == "plain"
                           else spec["grid"] + " ") + ",".join(
        "A%d" % a["size"] if a["kind"] == "array" else
        "%s%s%s" % (a["d"], "+" if a["ep"] else "-", a["basis"][:4]) for a in spec["axes"])


def build(spec, rng):
    """oracle objects, random integer polynomial, the Polynomial object"""
    from WallGo.polynomial import Polynomial
    M, N = spec["M"], spec["N"]
    grid = make_grid(M, N, spec.get("grid", "plain"))
    orc = []
    shape = []
    for a in spec["axes"]:
        if a["kind"] == "array":
            orc.append(None)
            shape.append(a["size"])
        else:
            o = AxisOracle(grid, M, N, a["d"], a["ep"])
            orc.append(o)
            shape.append(o.size)
    if spec.get("A") is not None and len(spec["A"]) == int(np.prod(shape)):
        A = np.array(spec["A"], dtype=float).reshape(shape)
    else:
        A = np.array([rng.randint(-9, 9) for _ in range(int(np.prod(shape)))],
                     dtype=float).reshape(shape)
    # "random polynomials of every admissible degree": optionally cut the degree
    for i, o in enumerate(orc):
        if o is not None and spec.get("degcut", {}).get(str(i)) is not None:
            k = spec["degcut"][str(i)]
            idx = [slice(None)] * len(shape)
            idx[i] = slice(k + 1, None)
            A[tuple(idx)] = 0
    return grid, orc, A


def tuples(spec):
    basis = tuple("Array" if a["kind"] == "array" else a["basis"] for a in spec["axes"])
    dirs = tuple("z" if a["kind"] == "array" else a["d"] for a in spec["axes"])
    eps = tuple(False if a["kind"] == "array" else bool(a["ep"]) for a in spec["axes"])
    return basis, dirs, eps


def make_poly(spec, grid, orc, A, basis=None):
    from WallGo.polynomial import Polynomial
    b0, dirs, eps = tuples(spec)
    basis = basis or b0
    coeff = contract(A, [None if o is None else o.coeffs(basis[i])
                         for i, o in enumerate(orc)])
    return Polynomial(coeff.copy(), grid, basis, dirs, eps)


def other_basis(b):
    return {"Cardinal": "Chebyshev", "Chebyshev": "Cardinal", "Array": "Array"}[b]


def direct_config(ctx, spec, rng):
    """The property's statement on the implementation for one configuration.
    Returns number of checks; failures go to ctx.fail_input."""
    from WallGo.polynomial import Polynomial
    name = spec_name(spec)
    grid, orc, A = build(spec, rng)
    b0, dirs, eps = tuples(spec)
    rank = len(orc)
    polyaxes = [i for i, o in enumerate(orc) if o is not None]
    jspec = json.loads(json.dumps(spec))
    jspec["A"] = A.astype(int).ravel().tolist()
    spec = {k: v for k, v in spec.items() if k != "A"}   # A3 below must be fresh

    def fail(what, key, **extra):
        d = dict(kind="direct", spec=jspec, check=key)
        d.update(extra)
        ctx.fail_input("%s [%s]" % (what, name), d, key=key)

    def expected_coeffs(basis):
        return contract(A, [None if o is None else o.coeffs(basis[i])
                            for i, o in enumerate(orc)])

    n = 0
    _DS[0] = float(max(np.max(np.abs(A)), 1.0))   # integer data: unit scale (other magnitudes: direct_scales, purely relative)
    gsnap = grid_arrays(grid)
    # --- change of basis: target = every axis swapped; then back (round trip) --------
    swapped = tuple(other_basis(b) for b in b0)
    try:
        p = make_poly(spec, grid, orc, A)
        p.changeBasis(swapped)
        n += 1
        if not close(p.coefficients, expected_coeffs(swapped)) or p.basis != swapped:
            fail("changeBasis%s gives wrong coefficients" % (swapped,), "changeBasis")
        if polyaxes:                      # an operation on the result
            y = np.array([[rng.uniform(-1, 1)] for _ in polyaxes])
            n += 1
            if not close(p.evaluate(y, axes=tuple(polyaxes))[0], contract(A, [
                    None if o is None else o.E([y[polyaxes.index(i), 0]])[0]
                    for i, o in enumerate(orc)])):
                fail("evaluate after changeBasis%s is wrong" % (swapped,),
                     "chain-changeBasis-evaluate")
        p.changeBasis(b0)
        n += 1
        if not close(p.coefficients, expected_coeffs(b0)):
            fail("changeBasis round trip does not return the coefficients", "roundtrip")
        # one axis per call, in a random order == all at once (axis independence)
        q = make_poly(spec, grid, orc, A)
        order = list(polyaxes)
        rng.shuffle(order)
        cur = list(b0)
        for i in order:
            cur[i] = swapped[i]
            q.changeBasis(tuple(cur))
        n += 1
        if not close(q.coefficients, expected_coeffs(swapped)):
            fail("changeBasis one axis at a time gives wrong coefficients",
                 "changeBasis-sequential", order=order)
        # a random subset of the axes
        sub = tuple(swapped[i] if rng.random() < 0.5 else b0[i] for i in range(rank))
        q = make_poly(spec, grid, orc, A)
        q.changeBasis(sub)
        n += 1
        if not close(q.coefficients, expected_coeffs(sub)):
            fail("changeBasis%s gives wrong coefficients" % (sub,), "changeBasis-subset",
                 target=list(sub))
        # inverseTranspose (used for the collision array): the pairing sum(a*b) of a
        # dual object with a polynomial is invariant under the joint change of basis
        _, _, Adual = build(spec, rng)
        pa = Polynomial(Adual.copy(), grid, b0, dirs, eps)
        pb = make_poly(spec, grid, orc, A)
        before = float(np.sum(pa.coefficients * pb.coefficients))
        pa.changeBasis(swapped, inverseTranspose=True)
        pb.changeBasis(swapped)
        after = float(np.sum(pa.coefficients * pb.coefficients))
        n += 1
        if not abs(before - after) <= TOL * (_DS[0] + np.sum(np.abs(Adual)) *
                                             np.max(np.abs(pb.coefficients))):
            fail("changeBasis(inverseTranspose=True) is not the dual of changeBasis",
                 "inverseTranspose-duality", before=before, after=after)
    except Exception as ex:  # noqa: BLE001
        fail("changeBasis raised %r" % ex, "changeBasis-raises")
    # --- evaluation: off-grid and on-grid points, all polynomial axes ------------------
    npts = 4
    try:
        if polyaxes:
            pts = np.array([[rng.uniform(-1, 1) for _ in range(npts)] for _ in polyaxes])
            for j, i in enumerate(polyaxes):        # grid points (incl. boundaries)
                pts[j, 0] = orc[i].full[rng.randrange(len(orc[i].full))]
                pts[j, 1] = orc[i].nodes[rng.randrange(orc[i].size)]
            for basis in (b0, swapped):
                p = make_poly(spec, grid, orc, A, basis)
                got = p.evaluate(pts, axes=tuple(polyaxes))
                want = np.stack([contract(A, [None if o is None else
                                              o.E([pts[polyaxes.index(i), t]])[0]
                                              for i, o in enumerate(orc)])
                                 for t in range(npts)])
                n += 1
                if not close(got, want):
                    fail("evaluate gives wrong values in basis %s" % (basis,), "evaluate",
                         points=pts.tolist(), basis=list(basis))
            # grid values at grid points: cardinal coefficients themselves
            i = polyaxes[rng.randrange(len(polyaxes))]
            p = make_poly(spec, grid, orc, A, swapped)
            got = p.evaluate(orc[i].nodes[None, :], axes=(i,))
            pc = make_poly(spec, grid, orc, A, tuple(
                "Cardinal" if k == i else swapped[k] for k in range(rank)))
            want = np.moveaxis(pc.coefficients, i, 0)
            n += 1
            if not close(got, want):
                fail("evaluate along axis %d at the grid points differs from the grid "
                     "values" % i, "evaluate-grid", axis=i)
            if len(polyaxes) == rank:
                got = p.evaluate(pts[:, 2])
                n += 1
                want = contract(A, [o.E([pts[k, 2]])[0] for k, o in enumerate(orc)])
                if not close(got, want):
                    fail("evaluate at a single point is wrong", "evaluate-point",
                         point=pts[:, 2].tolist())
    except Exception as ex:  # noqa: BLE001
        fail("evaluate raised %r" % ex, "evaluate-raises")
    # --- derivative -----------------------------------------------------------------
    try:
        for basis in (b0, swapped):
            for axes in ([(i,) for i in polyaxes] + ([tuple(polyaxes)]
                                                     if len(polyaxes) > 1 else [])):
                p = make_poly(spec, grid, orc, A, basis)
                dp = p.derivative(axes if len(axes) > 1 else axes[0])
                want = contract(A, [None if o is None else
                                    (o.D if i in axes else o.coeffs(basis[i]))
                                    for i, o in enumerate(orc)])
                n += 1
                ok = close(dp.coefficients, want)
                okmeta = (
                    dp.basis == tuple("Cardinal" if i in axes else basis[i]
                                      for i in range(rank)) and
                    dp.endpoints == tuple(True if i in axes else eps[i]
                                          for i in range(rank)) and
                    all(e is True or e is False for e in dp.endpoints) and
                    dp.direction == dirs and dp.grid is grid and dp.rank == rank)
                if not ok or not okmeta:
                    fail("derivative along %s wrong (basis %s)%s" % (
                        axes, basis, "" if okmeta else ": labels of the result"),
                         "derivative", axes=list(axes), basis=list(basis))
                    continue
                # one more operation on the result
                kind = rng.choice(["evaluate", "second", "roundtrip"])
                n += 1
                if kind == "evaluate":
                    y = [rng.uniform(-1, 1) for _ in polyaxes]
                    got = dp.evaluate(np.array(y)[:, None], axes=tuple(polyaxes))[0]
                    wantc = contract(A, [None if o is None else
                                         (o.dE([y[polyaxes.index(i)]])[0] if i in axes else
                                          o.E([y[polyaxes.index(i)]])[0])
                                         for i, o in enumerate(orc)])
                    okc = close(got, wantc, scale=_DS[0] + np.max(np.abs(want)))
                elif kind == "second":
                    j = axes[rng.randrange(len(axes))]
                    d2 = dp.derivative(j)
                    wantc = contract(A, [None if o is None else
                                         (o.D2 if i == j else o.D if i in axes
                                          else o.coeffs(basis[i]))
                                         for i, o in enumerate(orc)])
                    okc = close(d2.coefficients, wantc, scale=_DS[0] + 20 * np.max(np.abs(
                        want))) and d2.endpoints[j] is True and d2.basis[j] == "Cardinal"
                else:
                    tgt = tuple("Chebyshev" if b != "Array" else b for b in dp.basis)
                    back = dp.basis
                    dp.changeBasis(tgt)
                    dp.changeBasis(back)
                    okc = close(dp.coefficients, want)
                if not okc:
                    fail("%s of the result of derivative along %s is wrong" % (kind, axes),
                         "chain-derivative-" + kind, axes=list(axes), basis=list(basis))
    except Exception as ex:  # noqa: BLE001
        fail("derivative raised %r" % ex, "derivative-raises")
    # --- integration on the exactness class (Gauss-Lobatto nodes only) -----------------
    try:
        for axes in ([] if spec.get("grid") == "uniform" else[(i,) for i in polyaxes] + ([tuple(polyaxes)]
                                                 if len(polyaxes) > 1 else [])):
            rows = {}
            weight = np.ones([1] * rank)
            A2 = A.copy()
            for i in axes:
                o = orc[i]
                nq = quad_n(o.M, o.N, o.d)
                rdeg = rng.randint(0, max(0, nq - 3))
                r = [rng.randint(-3, 3) for _ in range(rdeg)] + [rng.randint(1, 3)]
                row = o.integral_row(np.array(r, dtype=float))
                idx = [slice(None)] * rank
                for k, v in enumerate(row):
                    if v is None:          # outside the exactness class: remove
                        idx[i] = k
                        A2[tuple(idx)] = 0
                        row[k] = 0.0
                rows[i] = np.array(row)
                sh = [1] * rank
                sh[i] = o.size
                weight = weight * (np.sqrt(1 - o.nodes ** 2) *
                                   P.polyval(o.nodes, r)).reshape(sh)
            for basis in (b0, swapped):
                p = make_poly(spec, grid, orc, A2, basis)
                w0 = weight.copy()
                res = p.integrate(axes if len(axes) > 1 else axes[0], weight)
                rest = [i for i in range(rank) if i not in axes]
                n += 1
                if not np.array_equal(w0, weight):
                    fail("integrate changed the weight array it was given",
                         "argument-mutated", op="integrate")
                if isinstance(res, Polynomial):
                    got = res.coefficients
                    # the remaining axes are read in the representation the result declares
                    okmeta = (res.rank == len(rest) and len(res.basis) == len(rest) and
                              res.direction == tuple(dirs[i] for i in rest) and
                              res.endpoints == tuple(eps[i] for i in rest) and
                              all((res.basis[k] == "Array") == (basis[i] == "Array")
                                  for k, i in enumerate(rest)) and res.grid is grid)
                    lab = {i: (res.basis[k] if okmeta else basis[i])
                           for k, i in enumerate(rest)}
                else:
                    got, okmeta, lab = res, (not rest and isinstance(res, float)), {}
                want = contract(A2, [None if o is None else
                                     (rows[i] if i in axes else o.coeffs(lab[i]))
                                     for i, o in enumerate(orc)])
                sci = _DS[0] + np.max(np.abs(want)) + np.max(np.abs(A2)) * 10
                if not okmeta or not close(got, want, scale=sci):
                    fail("integrate along %s is not exact on the exactness class%s" % (
                        axes, "" if okmeta else " (labels / type of the result)"),
                         "integrate", axes=list(axes), basis=list(basis))
                    continue
                restpoly = [i for i in rest if orc[i] is not None]
                if isinstance(res, Polynomial) and restpoly:    # an operation on the result
                    y = [rng.uniform(-1, 1) for _ in restpoly]
                    gote = res.evaluate(np.array(y)[:, None], axes=tuple(
                        rest.index(i) for i in restpoly))[0]
                    wante = contract(A2, [None if o is None else
                                          (rows[i] if i in axes else
                                           o.E([y[restpoly.index(i)]])[0])
                                          for i, o in enumerate(orc)])
                    n += 1
                    if not close(gote, wante, scale=sci):
                        fail("evaluate of the result of integrate along %s is wrong" %
                             (axes,), "chain-integrate-evaluate", axes=list(axes),
                             basis=list(basis))
    except Exception as ex:  # noqa: BLE001
        fail("integrate raised %r" % ex, "integrate-raises")
    # --- operations do not mutate their operand; repeating a call repeats the result ------
    try:
        for basis in (b0, swapped):
            arr = np.array(expected_coeffs(basis), dtype=float)   # the caller's array
            arr0 = arr.copy()
            p = Polynomial(arr, grid, basis, dirs, eps)

            def same_poly(what, exact):
                """caller's array untouched; object still holds the same polynomial"""
                nonlocal n
                n += 1
                ok = np.array_equal(arr, arr0)
                if exact:
                    ok = ok and p.basis == basis and np.array_equal(p.coefficients, arr0)
                else:
                    q = Polynomial(np.array(p.coefficients), grid, p.basis, dirs, eps)
                    q.changeBasis(basis)
                    ok = ok and close(q.coefficients, arr0)
                if not ok:
                    fail("%s changed the polynomial it was applied to (or the caller's "
                         "array)" % what, "operand-mutated", op=what, basis=list(basis))
                return ok

            if polyaxes:
                pts = np.array([[rng.uniform(-1, 1) for _ in range(2)] for _ in polyaxes])
                pts0 = pts.copy()
                e1 = p.evaluate(pts, axes=tuple(polyaxes))
                same_poly("evaluate", True)
                if not np.array_equal(pts, pts0):
                    fail("evaluate changed the array of points it was given",
                         "argument-mutated", op="evaluate")
                e2 = p.evaluate(pts, axes=tuple(polyaxes))
                d1 = p.derivative(tuple(polyaxes))
                same_poly("derivative", True)
                d2 = p.derivative(tuple(polyaxes))
                n += 2
                if not (np.array_equal(e1, e2) and
                        np.array_equal(d1.coefficients, d2.coefficients)):
                    fail("evaluate / derivative called twice give different results",
                         "not-repeatable", op="evaluate/derivative")
                # integrate without a weight, with weight=None, with weight=1 array
                want = contract(A, [None if o is None else
                                    np.pi / quad_n(o.M, o.N, o.d) *
                                    np.sqrt(1 - o.nodes ** 2) @ o.V
                                    for o in orc])
                vals = []
                for kw in ({}, {}, dict(weight=None), dict(weight=np.ones(arr.shape))):
                    r = p.integrate(tuple(polyaxes), **kw)
                    vals.append(r.coefficients if isinstance(r, Polynomial) else r)
                    if not same_poly("integrate(%s)" % ",".join(kw), False):
                        break
                n += 1
                sc = _DS[0] + np.max(np.abs(A)) * 10 + np.max(np.abs(want))
                if not all(close(v, want, scale=sc) for v in vals):
                    fail("integrate without weight / weight=None / weight=1 / repeated "
                         "give different or wrong values", "integrate-default-weight",
                         basis=list(basis))
            arr2 = arr0.copy()
            q = Polynomial(arr2, grid, basis, dirs, eps)
            q.changeBasis(tuple(other_basis(b) for b in basis))
            n += 1
            if not np.array_equal(arr2, arr0):
                fail("changeBasis overwrote the caller's array", "operand-mutated",
                     op="changeBasis", basis=list(basis))
    except Exception as ex:  # noqa: BLE001
        fail("purity checks raised %r" % ex, "purity-raises")
    # --- linearity (through the class's own + and *) -----------------------------------
    try:
        _, _, A3 = build(spec, rng)
        p1 = make_poly(spec, grid, orc, A)
        p2 = make_poly(spec, grid, orc, A3)
        comb = 2.0 * p1 + (-3.0) * p2
        comb.changeBasis(swapped)
        n += 1
        if not close(comb.coefficients, contract(2 * A - 3 * A3, [
                None if o is None else o.coeffs(swapped[i]) for i, o in enumerate(orc)])):
            fail("changeBasis is not linear", "linearity")
        if polyaxes:
            i = polyaxes[0]
            d1 = make_poly(spec, grid, orc, A).derivative(i)
            d2 = make_poly(spec, grid, orc, A3).derivative(i)
            dc = (2.0 * make_poly(spec, grid, orc, A) +
                  (-3.0) * make_poly(spec, grid, orc, A3)).derivative(i)
            n += 1
            if not close(dc.coefficients, 2 * d1.coefficients - 3 * d2.coefficients):
                fail("derivative is not linear", "linearity-derivative")
    except Exception as ex:  # noqa: BLE001
        fail("linear combination raised %r" % ex, "linearity-raises")
    n += direct_matrices(ctx, spec, grid, orc, rng, fail)
    n += direct_dtypes(ctx, spec, grid, orc, rng, fail)
    n += direct_forms(ctx, spec, grid, orc, A, rng, fail)
    n += direct_points(ctx, spec, grid, orc, A, rng, fail)
    n += direct_scales(ctx, spec, grid, orc, rng, fail)
    n += direct_weights(ctx, spec, grid, orc, A, rng, fail)
    # the grid's own arrays (nodes, physical coordinates, Jacobians) are untouched by all of it
    n += 1
    gnow = grid_arrays(grid)
    n += direct_rescale(ctx, spec, rng, fail)
    if set(gnow) != set(gsnap) or any(not np.array_equal(gnow[k], gsnap[k], equal_nan=True)
                                      for k in gsnap):
        fail("an operation of Polynomial changed an array of the grid: %s" % sorted(
            k for k in gsnap if k not in gnow or not np.array_equal(
                gnow[k], gsnap[k], equal_nan=True)), "grid-mutated")
    return n


# ----------------------------------------------------------------------------------
# matrix / derivMatrix (the intertwiners of the Boltzmann solver), through an unrelated
# object and through the default argument

def direct_matrices(ctx, spec, grid, orc, rng, fail):
    from WallGo.polynomial import Polynomial
    M, N = spec["M"], spec["N"]
    n = 0
    seen = set()
    for o in orc:
        if o is None or (o.d, o.ep) in seen:
            continue
        seen.add((o.d, o.ep))
        od = "pp" if o.d == "z" else "z"         # an object of another direction / size
        other = Polynomial(np.zeros(axis_size(M, N, od, True)), grid, "Chebyshev", od, True)
        a = np.array([rng.randint(-9, 9) for _ in range(o.size)], dtype=float)
        for basis in ("Cardinal", "Chebyshev"):
            try:
                form = rng.randrange(3)
                if o.ep is False and form == 0:
                    m = other.matrix(basis, o.d)                    # default: no end points
                    dm = other.derivMatrix(basis, o.d)
                elif form == 1:
                    m = other.matrix(basis, o.d, endpoints=o.ep)
                    dm = other.derivMatrix(basis, o.d, endpoints=o.ep)
                else:
                    m = other.matrix(basis, o.d, o.ep)
                    dm = other.derivMatrix(basis, o.d, o.ep)
                m, dm = np.asarray(m), np.asarray(dm)
                n += 2
                c = o.coeffs(basis) @ a
                if m.shape != (o.size, o.size) or not close(m @ c, o.V @ a):
                    fail("matrix(%r, %r, %s) applied to the coefficients does not give the "
                         "grid values" % (basis, o.d, o.ep), "matrix", basis=basis, d=o.d,
                         ep=o.ep, a=a.tolist())
                if dm.shape != (len(o.full), o.size) or not close(dm @ c, o.D @ a):
                    fail("derivMatrix(%r, %r, %s) applied to the coefficients does not give "
                         "the derivative on the complete grid" % (basis, o.d, o.ep),
                         "derivMatrix", basis=basis, d=o.d, ep=o.ep, a=a.tolist())
            except Exception as ex:  # noqa: BLE001
                fail("matrix/derivMatrix(%r, %r, %s) raised %r" % (basis, o.d, o.ep, ex),
                     "matrix-raises")
    return n


# ----------------------------------------------------------------------------------
# container / element type of the coefficients

CONTAINERS = ("list-int", "int64", "int32", "float32", "longdouble", "list-float",
              "strided", "fortran")


def as_container(C, kind):
    if kind == "list-int":
        return C.astype(int).tolist()
    if kind == "int64":
        return C.astype(np.int64)
    if kind == "int32":
        return C.astype(np.int32)
    if kind == "float32":
        return C.astype(np.float32)
    if kind == "longdouble":
        return C.astype(np.longdouble)
    if kind == "list-float":
        return C.tolist()
    if kind == "strided":
        big = np.zeros(tuple(2 * k for k in C.shape))
        view = big[tuple(slice(None, None, 2) for _ in C.shape)]
        view[...] = C
        return view
    return np.asfortranarray(C)


def direct_dtypes(ctx, spec, grid, orc, rng, fail):
    """Integer-valued coefficients handed over in other containers / element types give
    the results of the float64 array (every coefficient vector is admissible in either
    representation, so no oracle is needed beyond the float64 run checked elsewhere)."""
    from WallGo.polynomial import Polynomial
    b0, dirs, eps = tuples(spec)
    rank = len(orc)
    polyaxes = [i for i, o in enumerate(orc) if o is not None]
    if not polyaxes:
        return 0
    shape = [o.size if o is not None else spec["axes"][i]["size"] for i, o in enumerate(orc)]
    Cf = np.array([rng.randint(-9, 9) for _ in range(int(np.prod(shape)))],
                  dtype=float).reshape(shape)
    swapped = tuple(other_basis(b) for b in b0)
    pts = np.array([[rng.uniform(-1, 1) for _ in range(2)] for _ in polyaxes])
    wsh = [1] * rank
    wsh[polyaxes[0]] = shape[polyaxes[0]]
    weight = np.array([rng.uniform(0.5, 2.0) for _ in range(shape[polyaxes[0]])]).reshape(wsh)

    def ops(coeff):
        out = {}
        p = Polynomial(coeff, grid, b0, dirs, eps)
        p.changeBasis(swapped)
        out["changeBasis"] = np.array(p.coefficients, dtype=float)
        p = Polynomial(coeff, grid, b0, dirs, eps)
        out["evaluate"] = np.array(p.evaluate(pts, axes=tuple(polyaxes)), dtype=float)
        out["derivative"] = np.array(p.derivative(tuple(polyaxes)).coefficients, dtype=float)
        r = p.integrate(polyaxes[0], weight)
        out["integrate-weight"] = np.array(r.coefficients if isinstance(r, Polynomial)
                                           else r, dtype=float)
        p = Polynomial(coeff, grid, b0, dirs, eps)
        try:
            r = p.integrate(tuple(polyaxes))
            out["integrate"] = np.array(r.coefficients if isinstance(r, Polynomial) else r,
                                        dtype=float)
        except Exception as ex:  # noqa: BLE001
            out["integrate"] = ex
        return out

    n = 0
    try:
        ref = ops(Cf.copy())
    except Exception as ex:  # noqa: BLE001
        fail("operations on float64 coefficients raised %r" % ex, "dtype-raises")
        return 1
    kinds = CONTAINERS if rank == 1 else rng.sample(CONTAINERS, 3)
    for kind in kinds:
        try:
            got = ops(as_container(Cf, kind))
        except Exception as ex:  # noqa: BLE001
            fail("operations on coefficients given as %s raised %r" % (kind, ex),
                 "dtype-raises", container=kind, C=Cf.astype(int).ravel().tolist())
            n += 1
            continue
        for op, want in ref.items():
            n += 1
            g = got[op]
            if isinstance(want, Exception):
                if kind == kinds[0]:
                    fail("%s on float64 coefficients raised %r" % (op, want), "dtype-raises",
                         op=op)
                continue
            if isinstance(g, Exception):
                integer = kind in ("list-int", "int64", "int32")
                if op == "integrate" and integer and type(g).__name__ == "UFuncTypeError":
                    # defect fixed in /repo (a violation if it returns): integrate() without a weight on integer-typed data
                    ctx.fail_input(
                        "integrate() without a weight raises %s on integer-typed "
                        "coefficients (%s) [%s]" % (type(g).__name__, kind, spec_name(spec)),
                        dict(kind="known", which="integrate-int"),
                        key="integrate-integer-coefficients-raises")
                else:
                    fail("%s on coefficients given as %s raised %r" % (op, kind, g),
                         "dtype-raises", container=kind, op=op,
                         C=Cf.astype(int).ravel().tolist())
                continue
            tol_scale = (_DS[0] + np.max(np.abs(want))) * (2e6 if kind == "float32" else 1.0)
            if not close(g, want, scale=tol_scale):
                fail("%s on coefficients given as %s differs from the result for the same "
                     "numbers as float64" % (op, kind), "dtype-" + op, container=kind,
                     C=Cf.astype(int).ravel().tolist())
    return n


# ----------------------------------------------------------------------------------
# call forms: every documented way of passing the same request gives the same answer

def direct_forms(ctx, spec, grid, orc, A, rng, fail):
    from WallGo.polynomial import Polynomial
    b0, dirs, eps = tuples(spec)
    rank = len(orc)
    polyaxes = [i for i, o in enumerate(orc) if o is not None]
    arrays = [i for i, o in enumerate(orc) if o is None]
    if not polyaxes:
        return 0
    n = 0
    coeff = contract(A, [None if o is None else o.coeffs(b0[i]) for i, o in enumerate(orc)])

    def mk(c=None):
        return Polynomial(np.array(coeff if c is None else c, dtype=float), grid, b0, dirs,
                          eps)

    def meta(q):
        return (q.basis, q.direction, q.endpoints, q.rank)

    try:
        # constructor: one string / bool for all axes; defaults
        if len(set(b0)) == 1 and len(set(dirs)) == 1 and len(set(eps)) == 1:
            q = Polynomial(coeff.copy(), grid, b0[0], dirs[0], eps[0])
            n += 1
            if meta(q) != meta(mk()):
                fail("constructor with string/bool arguments labels the axes differently",
                     "forms-constructor")
            if (b0[0], dirs[0], eps[0]) == ("Cardinal", "z", False):
                q = Polynomial(coeff.copy(), grid)
                n += 1
                if meta(q) != meta(mk()):
                    fail("constructor defaults are not (Cardinal, z, no end points)",
                         "forms-constructor")
        # changeBasis: a single string for all axes
        for tgt in ("Chebyshev", "Cardinal"):
            tup = tuple(tgt if b != "Array" else "Array" for b in b0)
            ref = mk()
            ref.changeBasis(tup)
            q = mk()
            q.changeBasis(tgt)
            n += 1
            if q.coefficients.shape != ref.coefficients.shape or \
                    not close(q.coefficients, ref.coefficients):
                fail("changeBasis(%r) differs from the tuple form" % tgt, "forms-changeBasis")
            elif q.basis != tup:
                if arrays and all(q.basis[i] == tup[i] for i in polyaxes):
                    # defect fixed in /repo (a violation if it returns): the string form relabels 'Array' axes
                    ctx.fail_input(
                        "changeBasis(%r) labels the Array axes %s as %s [%s]" % (
                            tgt, arrays, [q.basis[i] for i in arrays], spec_name(spec)),
                        dict(kind="known", which="string-relabel"),
                        key="changeBasis-string-relabels-array-axis")
                else:
                    fail("changeBasis(%r) leaves the labels %s" % (tgt, q.basis),
                         "forms-changeBasis")
        # derivative / integrate: int, tuple, permuted tuple, keyword, None
        p = mk()
        allax = tuple(polyaxes)
        perm = tuple(reversed(allax))
        d_ref = p.derivative(allax)
        for form, call in (("permuted", lambda: p.derivative(perm)),
                           ("keyword", lambda: p.derivative(axis=allax)),
                           ("list->tuple int", lambda: p.derivative(allax[0])
                            if len(allax) == 1 else p.derivative(axis=allax))):
            q = call()
            n += 1
            if meta(q) != meta(d_ref) or not close(q.coefficients, d_ref.coefficients):
                fail("derivative with %s axis argument differs" % form, "forms-derivative")
        i_ref = mk().integrate(allax)
        val = lambda r: r.coefficients if isinstance(r, Polynomial) else r   # noqa: E731
        forms = [("permuted", lambda: mk().integrate(perm)),
                 ("keyword", lambda: mk().integrate(axis=allax, weight=1)),
                 ("weight=None", lambda: mk().integrate(allax, None))]
        if not arrays:
            forms.append(("axis=None", lambda: mk().integrate()))
            forms.append(("axis=None keyword", lambda: mk().integrate(axis=None)))
        if len(allax) == 1:
            forms.append(("int", lambda: mk().integrate(allax[0])))
        for form, call in forms:
            r = call()
            n += 1
            if type(r) is not type(i_ref) or not close(val(r), val(i_ref), scale=_DS[0] + np.max(
                    np.abs(coeff)) * 10):
                fail("integrate with %s differs from the tuple form" % form,
                     "forms-integrate")
        # evaluate: list / array of points, axes=None, permuted axes, single point
        pts = np.array([[rng.uniform(-1, 1) for _ in range(3)] for _ in polyaxes])
        e_ref = p.evaluate(pts, axes=allax)
        forms = [("list of points", lambda: p.evaluate(pts.tolist(), axes=allax)),
                 ("positional axes", lambda: p.evaluate(pts, allax)),
                 ("permuted axes", lambda: p.evaluate(pts[::-1], axes=perm))]
        if not arrays:
            forms.append(("axes=None", lambda: p.evaluate(pts)))
        for form, call in forms:
            r = call()
            n += 1
            if not close(r, e_ref):
                fail("evaluate with %s differs" % form, "forms-evaluate")
        n += 1
        try:
            r = p.evaluate(pts[:, 0], axes=allax)
            if not close(r, e_ref[0]):
                fail("evaluate at a single point differs from the first of several points",
                     "forms-evaluate")
            if not arrays and not isinstance(r, float):
                fail("evaluate at a single point does not return a float",
                     "forms-evaluate")
        except TypeError as ex:
            if arrays and "scalar" in str(ex):
                # defect fixed in /repo (a violation if it returns): float(result[0]) with spectator axes
                ctx.fail_input(
                    "evaluate at a single point raises TypeError when spectator axes remain "
                    "[%s]" % spec_name(spec), dict(kind="known", which="single-point"),
                    key="evaluate-single-point-spectator-raises")
            else:
                raise
        # arithmetic of the class and indexing
        _, _, A2 = build({k: v for k, v in spec.items() if k != "A"}, rng)
        c2 = contract(A2, [None if o is None else o.coeffs(b0[i]) for i, o in enumerate(orc)])
        p2 = mk(c2)
        for form, q, want in (("p - q", p - p2, coeff - c2), ("3 - p", 3.0 - p, 3.0 - coeff),
                              ("2 + p", 2.0 + p, 2.0 + coeff), ("p * q", p * p2, coeff * c2),
                              ("p * 2", p * 2.0, coeff * 2.0)):
            n += 1
            if meta(q) != meta(p) or not close(q.coefficients, want):
                fail("%s has wrong coefficients or labels" % form, "forms-arithmetic")
        k = rng.randrange(coeff.shape[0])
        q = p[k]
        n += 1
        if q.basis != b0[1:] or q.direction != dirs[1:] or q.endpoints != eps[1:] or \
                not np.array_equal(q.coefficients, coeff[k]):
            fail("p[%d] is not the slice with the labels of the remaining axes" % k,
                 "forms-getitem")
        q = p[None]
        n += 1
        if q.basis != ("Array",) + b0 or q.coefficients.shape != (1,) + coeff.shape or \
                q.direction[1:] != dirs or q.endpoints[1:] != eps:
            fail("p[None] does not add a leading Array axis", "forms-getitem")
    except Exception as ex:  # noqa: BLE001
        fail("a documented call form raised %r" % ex, "forms-raises")
    return n




# ----------------------------------------------------------------------------------
# many evaluation points (interpolateCollisionArray evaluates (N-1)^2 = 100..400 points on a
# rank-6 array), magnitude of the coefficients, general weights, re-scaled grids

POINT_COUNTS = (1, 2, 31, 63, 64, 65, 100, 127, 128, 129, 255, 257, 400)


def oracle_many(A, orc, polyaxes, pts):
    """values at many points, vectorised: result[t, spectators...]"""
    R = np.broadcast_to(A, (pts.shape[1],) + A.shape)
    for j, i in reversed(list(enumerate(polyaxes))):
        R = np.einsum("t...k,tk->t...", np.moveaxis(R, i + 1, -1), orc[i].E(pts[j]))
    return R


def direct_points(ctx, spec, grid, orc, A, rng, fail):
    b0, dirs, eps = tuples(spec)
    polyaxes = [i for i, o in enumerate(orc) if o is not None]
    if not polyaxes or A.size > 3000:
        return 0
    n = 0
    swapped = tuple(other_basis(b) for b in b0)
    try:
        for basis in (b0, swapped):
            k = rng.choice(POINT_COUNTS)
            pts = np.array([[rng.uniform(-1, 1) for _ in range(k)] for _ in polyaxes])
            p = make_poly(spec, grid, orc, A, basis)
            got = p.evaluate(pts, axes=tuple(polyaxes))
            want = oracle_many(A, orc, polyaxes, pts)
            n += 1
            if not close(got, want):
                bad = int(np.sum(np.any(np.abs(np.asarray(got, dtype=float).reshape(k, -1) -
                                               want.reshape(k, -1)) >
                                        TOL * (_DS[0] + np.max(np.abs(want))), axis=1))) \
                    if np.shape(got) == want.shape else k
                fail("evaluate at %d points is wrong at %d of them (basis %s)" % (
                    k, bad, basis), "evaluate-many-points", npoints=k, basis=list(basis),
                     points=pts.tolist())
                continue
            # the same points one by one and in two halves
            for j in sorted({0, k - 1, k // 2, min(k - 1, 64)}):
                one = p.evaluate(pts[:, [j]], axes=tuple(polyaxes))
                n += 1
                if not close(one[0], got[j]):
                    fail("evaluate at %d points differs from the same point evaluated alone"
                         % k, "evaluate-many-points", npoints=k, index=j)
    except Exception as ex:  # noqa: BLE001
        fail("evaluate at many points raised %r" % ex, "evaluate-many-raises")
    return n


SCALES = (1e-200, 1e-16, 1e-13, 1e-8, 1e-3, 1e5, 1e12, 1e150)


def direct_scales(ctx, spec, grid, orc, rng, fail):
    """homogeneity: every operation on s*c equals s times the operation on c, to rounding
    relative to s (non-integer coefficients, 17 orders of magnitude and the extremes)"""
    from WallGo.polynomial import Polynomial
    b0, dirs, eps = tuples(spec)
    rank = len(orc)
    polyaxes = [i for i, o in enumerate(orc) if o is not None]
    if not polyaxes:
        return 0
    shape = [o.size if o is not None else spec["axes"][i]["size"] for i, o in enumerate(orc)]
    c = np.array([rng.uniform(-1, 1) for _ in range(int(np.prod(shape)))]).reshape(shape)
    swapped = tuple(other_basis(b) for b in b0)
    pts = np.array([[rng.uniform(-1, 1) for _ in range(2)] for _ in polyaxes])

    def ops(coeff):
        out = {}
        p = Polynomial(coeff.copy(), grid, b0, dirs, eps)
        p.changeBasis(swapped)
        out["changeBasis"] = np.array(p.coefficients)
        p.changeBasis(b0)
        out["roundtrip"] = np.array(p.coefficients)
        out["evaluate"] = np.array(p.evaluate(pts, axes=tuple(polyaxes)))
        out["derivative"] = np.array(p.derivative(tuple(polyaxes)).coefficients)
        q = Polynomial(coeff.copy(), grid, swapped, dirs, eps)
        r = q.integrate(tuple(polyaxes))
        out["integrate"] = np.array(r.coefficients if isinstance(r, Polynomial) else r)
        return out

    n = 0
    old = _DS[0]
    try:
        ref = ops(c)
        n += 1
        _DS[0] = 1.0
        if not close(ref["roundtrip"], c):
            fail("changeBasis round trip of non-integer coefficients", "roundtrip")
        for s in (SCALES if rank == 1 else rng.sample(SCALES, 3)):
            got = ops(s * c)
            for op, want in ref.items():
                n += 1
                _DS[0] = 0.0
                amp = max(np.max(np.abs(want)), np.max(np.abs(c)))
                if not close(got[op], s * want, scale=s * amp * 50):
                    fail("%s is not homogeneous: on %.0e * c it differs from %.0e * (result "
                         "for c) by %.1e relative to the scale" % (
                             op, s, s, np.max(np.abs(got[op] - s * want)) / (s * amp)),
                         "scale-" + op, scale=s, c=c.ravel().tolist())
    except Exception as ex:  # noqa: BLE001
        fail("operations on scaled coefficients raised %r" % ex, "scale-raises")
    finally:
        _DS[0] = old
    return n


def direct_weights(ctx, spec, grid, orc, A, rng, fail):
    """integrate with a weight that depends on every axis (not a product of per-axis
    factors), a scalar weight and a nested-list weight, against numpy alone"""
    from WallGo.polynomial import Polynomial
    b0, dirs, eps = tuples(spec)
    rank = len(orc)
    polyaxes = [i for i, o in enumerate(orc) if o is not None]
    if not polyaxes:
        return 0
    n = 0
    try:
        sub = tuple(sorted(rng.sample(polyaxes, rng.randint(1, len(polyaxes)))))
        p = make_poly(spec, grid, orc, A)
        W = np.array([rng.uniform(0.5, 2.0) for _ in range(A.size)]).reshape(
            p.coefficients.shape)
        card = contract(A, [None if o is None else (o.V if i in sub else o.coeffs(b0[i]))
                            for i, o in enumerate(orc)])
        fac = [None if i not in sub else np.pi / quad_n(o.M, o.N, o.d) *
               np.sqrt(np.clip(1 - o.nodes ** 2, 0, None)) for i, o in enumerate(orc)]
        val = lambda r: r.coefficients if isinstance(r, Polynomial) else r   # noqa: E731
        sc = _DS[0] * 30 + np.max(np.abs(card)) * 30
        for form, w, want in (("full-shape array", W, contract(W * card, fac)),
                              ("nested list", W.tolist(), contract(W * card, fac)),
                              ("scalar 2.5", 2.5, contract(2.5 * card, fac))):
            r = make_poly(spec, grid, orc, A).integrate(sub if len(sub) > 1 else sub[0], w)
            n += 1
            if not close(val(r), want, scale=sc):
                fail("integrate along %s with a %s weight is not sum_k w_k c_k sqrt(1-x_k^2) "
                     "pi/n" % (sub, form), "integrate-general-weight", axes=list(sub))
    except Exception as ex:  # noqa: BLE001
        fail("integrate with a general weight raised %r" % ex, "integrate-weight-raises")
    return n


def direct_rescale(ctx, spec, rng, fail):
    """re-scaling the grid between two operations on one object changes nothing (the
    compact coordinates do not depend on the scales)"""
    from WallGo.polynomial import Polynomial
    sp = {k: v for k, v in spec.items() if k != "A"}
    grid, orc, A = build(sp, rng)
    b0, dirs, eps = tuples(sp)
    polyaxes = [i for i, o in enumerate(orc) if o is not None]
    if not polyaxes:
        return 0
    n = 0
    try:
        p = make_poly(sp, grid, orc, A)
        pts = np.array([[rng.uniform(-1, 1) for _ in range(3)] for _ in polyaxes])
        before = (p.evaluate(pts, axes=tuple(polyaxes)),
                  p.derivative(tuple(polyaxes)).coefficients)
        grid.changeMomentumFalloffScale(rng.uniform(0.2, 5.0))
        if type(grid).__name__ == "Grid3Scales":
            th = rng.uniform(0.2, 1.0)      # tails >= 2.4 * thickness (asserted by the grid)
            grid.changePositionFalloffScale(th * rng.uniform(2.5, 5), th * rng.uniform(2.5, 5),
                                            th, rng.uniform(-0.5, 0.5))
        else:
            grid.changePositionFalloffScale(rng.uniform(0.2, 5.0))
        after = (p.evaluate(pts, axes=tuple(polyaxes)),
                 p.derivative(tuple(polyaxes)).coefficients)
        swapped = tuple(other_basis(b) for b in b0)
        p.changeBasis(swapped)
        n += 3
        if not (np.array_equal(before[0], after[0]) and np.array_equal(before[1], after[1])):
            fail("re-scaling the grid between two calls changes evaluate / derivative",
                 "rescale-between-operations")
        if not close(p.coefficients, contract(A, [None if o is None else o.coeffs(swapped[i])
                                                  for i, o in enumerate(orc)])):
            fail("changeBasis after re-scaling the grid is wrong",
                 "rescale-between-operations")
    except Exception as ex:  # noqa: BLE001
        fail("operations around a re-scaling of the grid raised %r" % ex, "rescale-raises")
    return n




def gen_specs(ctx, rng):
    """exhaustive rank 1; sampled mixed ranks 2..4"""
    sizes_all = [(M, N) for M in range(2, 9) for N in (3, 5, 7, 9)]
    specs = []
    for (M, N) in sizes_all:
        for d in DIRS:
            for ep in (False, True):
                for basis in ("Cardinal", "Chebyshev"):
                    size = axis_size(M, N, d, ep)
                    cuts = [None] + (list(range(size - 1)) if ctx.tier != "quick" or
                                     (M, N) in ((4, 5), (8, 9)) else [])
                    for cut in cuts:
                        specs.append(dict(M=M, N=N, degcut={"0": cut}, axes=[
                            dict(kind="poly", d=d, ep=ep, basis=basis)]))
    if ctx.quick:
        keep = [s for s in specs if s["degcut"]["0"] is None]
        extra = [s for s in specs if s["degcut"]["0"] is not None]
        specs = keep + rng.sample(extra, min(len(extra), 60))
    # every ordered pair of (direction, endpoints) at rank 2 with mixed bases
    combos = [(d, ep) for d in DIRS for ep in (False, True)]
    for (a, b) in itertools.product(combos, repeat=2):
        M, N = rng.choice([(3, 3), (4, 5), (5, 3), (6, 5)] if ctx.quick else sizes_all)
        specs.append(dict(M=M, N=N, axes=[
            dict(kind="poly", d=a[0], ep=a[1], basis=rng.choice(["Cardinal", "Chebyshev"])),
            dict(kind="poly", d=b[0], ep=b[1], basis=rng.choice(["Cardinal", "Chebyshev"]))]))
    # production-like sizes (rank 1) and the grids WallGoManager really builds
    for (M, N) in ([(12, 11), (20, 15)] if ctx.quick else
                   [(12, 11), (20, 15), (16, 13), (25, 19), (30, 11), (9, 21)]):
        for d in DIRS:
            for ep in (False, True):
                specs.append(dict(M=M, N=N, grid=rng.choice(GRID_KINDS), axes=[
                    dict(kind="poly", d=d, ep=ep,
                         basis=rng.choice(["Cardinal", "Chebyshev"]))]))
    # even N, M = 1, equidistant nodes
    for (M, N) in [(1, 3), (1, 4), (3, 4), (5, 6), (4, 8)]:
        for d in DIRS:
            for ep in (False, True):
                if axis_size(M, N, d, ep) < 1:
                    continue
                specs.append(dict(M=M, N=N, axes=[dict(
                    kind="poly", d=d, ep=ep, basis=rng.choice(["Cardinal", "Chebyshev"]))]))
    for (M, N) in [(3, 3), (4, 5), (6, 7), (5, 4)]:
        for d in DIRS:
            for ep in (False, True):
                specs.append(dict(M=M, N=N, grid="uniform", axes=[dict(
                    kind="poly", d=d, ep=ep, basis=rng.choice(["Cardinal", "Chebyshev"]))]))
        specs.append(dict(M=M, N=N, grid="uniform", axes=[
            dict(kind="poly", d="z", ep=False, basis="Chebyshev"),
            dict(kind="array", size=4),
            dict(kind="poly", d="pp", ep=rng.random() < 0.5, basis="Cardinal")]))
    # ranks 5 and 6 (the collision array is rank 6: (Array, pz, pp, Array, pz, pp))
    specs.append(dict(M=3, N=3, grid="3scales", axes=[
        dict(kind="array", size=2), dict(kind="poly", d="pz", ep=False, basis="Cardinal"),
        dict(kind="poly", d="pp", ep=False, basis="Cardinal"), dict(kind="array", size=2),
        dict(kind="poly", d="pz", ep=False, basis="Cardinal"),
        dict(kind="poly", d="pp", ep=False, basis="Cardinal")]))
    for _ in range(ctx.n(3, 30)):
        rank = rng.choice([5, 6])
        axes = [dict(kind="array", size=rng.randint(1, 2)) if rng.random() < 0.35 else
                dict(kind="poly", d=rng.choice(DIRS), ep=rng.random() < 0.4,
                     basis=rng.choice(["Cardinal", "Chebyshev"])) for _i in range(rank)]
        if all(a["kind"] == "array" for a in axes):
            axes[0] = dict(kind="poly", d="z", ep=False, basis="Cardinal")
        specs.append(dict(M=rng.choice([2, 3]), N=3, grid=rng.choice(GRID_KINDS),
                          axes=axes))
    for _ in range(ctx.n(40, 600)):
        rank = rng.choice([2, 3, 3, 4, 4])
        M, N = rng.choice(sizes_all if rank < 4 else
                          [(M, N) for (M, N) in sizes_all if M <= 6 and N <= 7])
        axes = []
        for _i in range(rank):
            if rng.random() < 0.3:
                axes.append(dict(kind="array", size=rng.randint(1, 3)))
            else:
                axes.append(dict(kind="poly", d=rng.choice(DIRS), ep=rng.random() < 0.5,
                                 basis=rng.choice(["Cardinal", "Chebyshev"])))
        if all(a["kind"] == "array" for a in axes):
            axes[rng.randrange(rank)] = dict(kind="poly", d=rng.choice(DIRS), ep=False,
                                             basis="Cardinal")
        specs.append(dict(M=M, N=N, grid=rng.choice(GRID_KINDS), axes=axes))
    return specs


# ----------------------------------------------------------------------------------
# exact correspondence with the Coq model (Q instance, vm_compute)

def qlist(v):
    return "[" + "; ".join(cq(x) for x in v) + "]"


def qmat(m):
    return "[" + ";\n      ".join(qlist(r) for r in m) + "]"


def qtens(a):
    a = np.asarray(a)
    if a.ndim == 0:
        return "(Sc %s)" % cq(float(a))
    return "(Vec [" + "; ".join(qtens(x) for x in a) + "])"


CORR_HEADER = """From Coq Require Import List ZArith QArith Qabs Bool.
From Bignums Require Import BigQ.
From WG Require Import Lib.Lagrange Lib.Cheb Lib.Spectral.
Import ListNotations.
Local Open Scope nat_scope.
(* the generic model of Lib.Spectral instantiated over machine-integer based rationals *)
Definition bq (n : Z) (d : positive) : bigQ := BigQ.of_Q (Qmake n d).
Definition QO : Ops bigQ :=
  mkOps bigQ BigQ.zero BigQ.one BigQ.add_norm BigQ.sub_norm BigQ.mul_norm BigQ.div_norm
        (fun a => BigQ.eq_bool a BigQ.zero) (fun n => BigQ.of_Q (Qnat n)).
Definition bclose (tol a b : bigQ) : bool :=
  match BigQ.compare (BigQ.sub a b) tol with
  | Gt => false
  | _ => match BigQ.compare (BigQ.sub b a) tol with Gt => false | _ => true end
  end.
Definition Mclose tol := mclose (bclose tol).
Definition Lclose tol := lclose (bclose tol).
Definition Tsame tol := tsame (bclose tol).
Definition Lnonneg (l : list bigQ) : bool :=
  forallb (fun v => match BigQ.compare v BigQ.zero with Lt => false | _ => true end) l.
"""


def cq(x):
    q = vlib.frac(x)
    return "(bq (%d) %d)" % (q.numerator, q.denominator)


JOBS = 4


def run_cases(ctx, name, header, cases, per_file, timeout):
    """Like vlib.Ctx.run_cases, but: a pool of at most JOBS coqc processes, the case list is
    evaluated once, and a time-out is retried alone and then reported AS a time-out (a
    statement about the machine, not about the property)."""
    import subprocess
    from concurrent.futures import ThreadPoolExecutor
    import re
    files = []
    for k in range(0, len(cases), per_file):
        chunk = cases[k:k + per_file]
        body = header + "\nDefinition cases : list bool :=\n  [" + ";\n   ".join(chunk) + \
            "].\nDefinition failing := Eval vm_compute in map fst (filter (fun p => negb " \
            "(snd p)) (combine (seq 0 (length cases)) cases)).\nPrint failing.\n" \
            "Goal failing = []. Proof. reflexivity. Qed.\n"
        files.append((k, ctx.write("Cases/%s_%d.v" % (name, k // per_file), body)))

    def one(job, tmo=timeout):
        k, path = job
        rc, out, err = vlib.sh(["timeout", str(tmo), "coqc"] + ctx.coq_args() + [path],
                               timeout=tmo + 30, cwd=ctx.bdir)
        return k, path, rc, out, err

    with ThreadPoolExecutor(JOBS) as ex:
        res = list(ex.map(one, files))
    bad = []
    for k, path, rc, out, err in res:
        if rc == 0:
            continue
        if rc in (124, 137) or "TIMEOUT" in err:
            k, path, rc, out, err = one((k, path), 3 * timeout)      # alone, three times longer
            if rc == 0:
                continue
            if rc in (124, 137) or "TIMEOUT" in err:
                bad.append(dict(file=os.path.relpath(path, vlib.VERIF), first=k, cases=[],
                                err="coqc timed out", timeout=True))
                continue
        idx = re.search(r"=\s*\[([^\]]*)\]", out)
        which = [k + int(x.strip().rstrip("%nat")) for x in idx.group(1).split(";")
                 if x.strip()] if idx else []
        bad.append(dict(file=os.path.relpath(path, vlib.VERIF), first=k, cases=which,
                        err=vlib.tail(err), timeout=False))
    return bad


def report_bad(ctx, bad, describe):
    for b in bad:
        if b.get("timeout"):
            ctx.broken.append("harness-timeout (coqc did not finish %s even alone with a "
                              "tripled limit; NOT a verdict on the property)" % b["file"])
            ctx.log("TIME-OUT, not a property verdict:", b["file"])
            continue
        names = describe(b["cases"])
        ctx.broken.append("correspondence:%s %s" % (",".join(sorted(set(
            n[0] if isinstance(n, tuple) else str(n) for n in names))) or "cases", b["file"]))
        ctx.log("correspondence failure", b["file"], names[:6], b["err"][-300:])


def corr_matrices(ctx, sizes):
    """every matrix / row the class builds, for every direction and end-point flag"""
    from WallGo.polynomial import Polynomial
    terms, info = [], []
    pi2 = Fraction(math.pi) ** 2
    for (M, N) in sizes:
        grid = make_grid(M, N)
        hdr = []
        for d in DIRS:
            full = grid.getCompactCoordinates(True, d)
            g = "g%s_%d_%d" % (d, M, N)
            hdr.append("Definition %s : list bigQ := %s." % (g, qlist(full)))
            for ep in (False, True):
                size = axis_size(M, N, d, ep)
                p = Polynomial(np.zeros(size), grid, "Cardinal", d, ep)
                tol = cq(Fraction(1, 10 ** 12))       # O(1) entries, errors ~1e-15
                cd, D = COQDIR[d], "true" if ep else "false"
                # tnMatrix of changeBasis
                q = Polynomial(np.identity(size), grid, ("Chebyshev", "Array"), (d, "z"),
                               (ep, False))
                q.changeBasis(("Cardinal", "Array"))
                terms.append("Mclose %s (tnMatrix QO %s %s %s %d %d) %s" % (
                    tol, cd, D, g, M, N, qmat(q.coefficients)))
                info.append(("tnMatrix", M, N, d, ep))
                terms.append("Mclose %s (chebyshevMatrix QO %s %s %s) %s" % (
                    tol, cd, D, g, qmat(p.matrix("Chebyshev", d, ep))))
                info.append(("chebyshevMatrix", M, N, d, ep))
                # _cardinalMatrix through matrix("Cardinal", ..): the model's identity and
                # the definition C_j(x_i) it stands for; default argument when ep is False
                cm = p.matrix("Cardinal", d, ep) if ep else p.matrix("Cardinal", d)
                terms.append("Mclose %s (matrix QO Cardinal %s %s %s) %s && Mclose %s "
                             "(cardinalMatrixDef QO %s %s %s %d %d) %s" % (
                                 tol, cd, D, g, qmat(cm), tol, cd, D, g, M, N, qmat(cm)))
                info.append(("cardinalMatrix", M, N, d, ep))
                for b in ("Cardinal", "Chebyshev"):
                    terms.append("Mclose %s (derivMatrix QO %s %s %s %s) %s" % (
                        cq(Fraction(M * M * N * N, 10 ** 13)), b, cd, D, g,
                        qmat(p.derivMatrix(b, d, ep))))
                    info.append(("derivMatrix" + b, M, N, d, ep))
                    # rows of evaluate at an off-grid, a grid and a boundary point
                    q = Polynomial(np.identity(size), grid, (b, "Array"), (d, "z"),
                                   (ep, False))
                    for x in (ctx.rng.uniform(-1, 1), full[len(full) // 2], full[-1],
                              full[0]):
                        row = q.evaluate(np.array([[x]]), axes=(0,))[0]
                        terms.append("Lclose %s (evalRow QO %s %s %s %s %d %d %s) %s" % (
                            tol, b, cd, D, g, M, N, cq(x), qlist(row)))
                        info.append(("evalRow" + b, M, N, d, ep, x))
                # integration factors sqrt(1-x^2) w_k:  (f/pi)^2 = (1-x^2) (w/pi)^2
                q = Polynomial(np.identity(size), grid, ("Cardinal", "Array"), (d, "z"),
                               (ep, False))
                f = q.integrate(0).coefficients
                sq = [Fraction(float(v)) ** 2 / pi2 for v in f]
                terms.append("Lclose %s (intFactorSq QO %s %s %s %d %d) %s && Lnonneg %s" % (
                    tol, cd, D, g, M, N, qlist(sq), qlist(f)))
                info.append(("intFactorSq", M, N, d, ep))
        yield (M, N), "\n".join(hdr), terms, info
        terms, info = [], []


def corr_tensor_terms(ctx, spec, rng):
    """rank-r operations through the model's nested-list operators"""
    from WallGo.polynomial import Polynomial
    M, N = spec["M"], spec["N"]
    grid, orc, A = build(spec, rng)
    b0, dirs, eps = tuples(spec)
    rank = len(orc)
    polyaxes = [i for i, o in enumerate(orc) if o is not None]
    tol = cq(Fraction(int(1 + np.max(np.abs(A))) * 50 * M * M * N * N, 10 ** 12))
    terms = []

    def g(i):
        return "g%s_%d_%d" % (dirs[i], M, N)

    def ax(i):
        return "%s %s %s" % (COQDIR[dirs[i]], "true" if eps[i] else "false", g(i))

    coeff = np.array([rng.randint(-9, 9) for _ in range(A.size)], dtype=float).reshape(
        A.shape)
    # changeBasis: Chebyshev axes -> Cardinal is the forward matrix; Cardinal ->
    # Chebyshev is checked by applying the forward matrix to the implementation's output
    swapped = tuple(other_basis(b) for b in b0)
    p = Polynomial(coeff.copy(), grid, b0, dirs, eps)
    p.changeBasis(swapped)
    lhs, rhs = qtens(coeff), qtens(p.coefficients)
    for i in polyaxes:
        if b0[i] == "Chebyshev":
            lhs = "(apply_axis QO %d (tnMatrix QO %s %d %d) %s)" % (i, ax(i), M, N, lhs)
        else:
            rhs = "(apply_axis QO %d (tnMatrix QO %s %d %d) %s)" % (i, ax(i), M, N, rhs)
    terms.append(("changeBasis", "Tsame %s %s %s" % (tol, lhs, rhs)))
    # derivative along all polynomial axes
    p = Polynomial(coeff.copy(), grid, b0, dirs, eps)
    dp = p.derivative(tuple(polyaxes))
    lhs = qtens(coeff)
    for i in polyaxes:
        lhs = "(apply_axis QO %d (derivMatrix QO %s %s) %s)" % (i, b0[i], ax(i), lhs)
    terms.append(("derivative", "Tsame %s %s %s" % (tol, lhs, qtens(dp.coefficients))))
    # evaluate at one point along all polynomial axes (highest axis first)
    pts = [rng.uniform(-1, 1) for _ in polyaxes]
    got = p.evaluate(np.array(pts)[:, None], axes=tuple(polyaxes))[0]
    lhs = qtens(coeff)
    for j, i in reversed(list(enumerate(polyaxes))):
        lhs = "(contract_axis QO %d (evalRow QO %s %s %d %d %s) %s)" % (
            i, b0[i], ax(i), M, N, cq(pts[j]), lhs)
    terms.append(("evaluate", "Tsame %s %s %s" % (tol, lhs, qtens(got))))
    return terms


def tensor_specs(ctx, rng):
    sizes = [(3, 3), (4, 5)] if ctx.quick else [(3, 3), (4, 5), (5, 5), (6, 7)]
    combos = [(d, ep) for d in DIRS for ep in (False, True)]
    specs = []
    # all ordered pairs of axis kinds at rank 2 (mixed end-point tuples in both orders)
    pairs = list(itertools.product(combos, repeat=2))
    if ctx.quick:     # half of the ordered pairs per run (all 36 in the direct validation)
        pairs = rng.sample(pairs, 18)
    for (a, b) in pairs:
        M, N = rng.choice(sizes[:2])
        specs.append(dict(M=M, N=N, axes=[
            dict(kind="poly", d=a[0], ep=a[1], basis=rng.choice(["Cardinal", "Chebyshev"])),
            dict(kind="poly", d=b[0], ep=b[1], basis=rng.choice(["Cardinal", "Chebyshev"]))]))
    for _ in range(ctx.n(12, 80)):
        rank = rng.choice([1, 2, 3, 3]) if ctx.quick else rng.choice([1, 2, 3, 3, 4])
        M, N = rng.choice(sizes if rank < 3 else sizes[:2])
        axes = []
        for _i in range(rank):
            if rng.random() < 0.3 and rank > 1:
                axes.append(dict(kind="array", size=rng.randint(1, 2)))
            else:
                axes.append(dict(kind="poly", d=rng.choice(DIRS), ep=rng.random() < 0.5,
                                 basis=rng.choice(["Cardinal", "Chebyshev"])))
        if all(a["kind"] == "array" for a in axes):
            axes[0] = dict(kind="poly", d="z", ep=False, basis="Chebyshev")
        specs.append(dict(M=M, N=N, axes=axes))
    return specs, sizes


def known_replays(ctx):
    """the recorded inputs of three defects found by the white-box audit and fixed in /repo
    (21e384b, ffe84c7, bc69bdc; listed under "fixed" in known_findings.json), replayed
    first on every run: their return is a violation"""
    from WallGo.polynomial import Polynomial
    g = make_grid(4, 5)
    # 1. string form of changeBasis relabels an Array axis
    try:
        A = np.array([[1.0, 6.0, 1.0]])
        p = Polynomial(A.copy(), g, ("Array", "Cardinal"), ("z", "z"), (False, False))
        p.changeBasis("Chebyshev")
        lab = p.basis
        try:
            p.changeBasis("Cardinal")
            back = p.coefficients.shape == A.shape and np.allclose(p.coefficients, A)
        except Exception:  # noqa: BLE001
            back = False
        if lab[0] != "Array" or not back:
            ctx.fail_input("changeBasis('Chebyshev') on (Array, z) coefficients [[1,6,1]] "
                           "labels the Array axis %r; the way back gives shape %s" % (
                               lab[0], p.coefficients.shape),
                           dict(kind="known", which="string-relabel"),
                           key="changeBasis-string-relabels-array-axis")
    except Exception as ex:  # noqa: BLE001
        ctx.fail_input("replay of the string-form changeBasis finding raised %r" % ex,
                       dict(kind="known", which="string-relabel"), key="known-replay-raises")
    # 2. integrate() of integer-typed grid values
    try:
        r = Polynomial([1, 6, 1], g, "Cardinal", "z", False).integrate()
        ref = Polynomial([1.0, 6.0, 1.0], g, "Cardinal", "z", False).integrate()
        if not close(r, ref):
            ctx.fail_input("integrate() of [1, 6, 1] gives %r, of the same floats %r" % (r, ref),
                           dict(kind="known", which="integrate-int"), key="dtype-integrate")
    except Exception as ex:  # noqa: BLE001
        ctx.fail_input("Polynomial([1, 6, 1], grid).integrate() raises %s" % type(ex).__name__,
                       dict(kind="known", which="integrate-int"),
                       key="integrate-integer-coefficients-raises"
                       if type(ex).__name__ == "UFuncTypeError" else "dtype-raises")
    # 3. single-point evaluate with a spectator axis
    try:
        p = Polynomial(np.ones((2, 3)), g, ("Array", "Cardinal"), ("z", "z"), (False, False))
        r = p.evaluate(np.array([0.3]), axes=(1,))
        if not close(r, p.evaluate(np.array([[0.3]]), axes=(1,))[0]):
            ctx.fail_input("single-point evaluate with a spectator axis gives %r" % (r,),
                           dict(kind="known", which="single-point"), key="forms-evaluate")
    except TypeError as ex:
        ctx.fail_input("evaluate(np.array([0.3]), axes=(1,)) on (Array, z) raises TypeError",
                       dict(kind="known", which="single-point"),
                       key="evaluate-single-point-spectator-raises"
                       if "scalar" in str(ex) else "forms-raises")


def run(ctx):
    rng = ctx.rng
    known_replays(ctx)
    for name in ("polynomial.py", "grid.py"):
        src = vlib.read_src(name)
        ctx.gen_sources[name] = dict(file="src/WallGo/" + name, sha=vlib.sha(src))
    gen_ok = True
    try:
        text, facts = gen_poly.generate(vlib.read_src("polynomial.py"))
        ctx.write("PolyCfg.v", text, sources=dict(
            file="src/WallGo/polynomial.py", sha=vlib.sha(vlib.read_src("polynomial.py")),
            facts=facts))
        gen_poly.methods(vlib.read_src("grid.py"), "Grid")      # plain class, not patched
    except gen_poly.TranslateError as e:
        ctx.log("TRANSLATOR-OUT-OF-SUBSET (the source left the subset the fact extractor "
                "understands; the correspondence and the direct validation below still "
                "run and decide whether an input fails):", e)
        ctx.broken.append("translator-out-of-subset: %s" % e)
        gen_ok = False
    except Exception as e:  # noqa: BLE001   (the direct validation below must run anyway)
        import traceback
        ctx.log("fact extractor crashed:", traceback.format_exc())
        ctx.broken.append("translator-crashed: %r" % e)
        gen_ok = False
    if gen_ok:
        ctx.prove(extra=["PolyCfg.v"])
    ctx.trusted += ["tools/gen_poly.py (AST fact extractor, fail-closed)",
                    "Bignums BigQ (machine-integer rationals) in the correspondence files"]
    # --- correspondence: model (Q) vs implementation, exact on the float nodes ---------
    msizes = [(2, 3), (3, 3), (4, 5)] if ctx.quick else [(2, 3), (3, 3), (4, 5), (5, 7),
                                                         (6, 5), (8, 9)]
    grids_hdr = {}
    for (M, N), hdr, terms, info in corr_matrices(ctx, msizes):
        grids_hdr[(M, N)] = hdr
        bad = run_cases(ctx, "mat_%d_%d" % (M, N), CORR_HEADER + hdr + "\n", terms,
                        per_file=30, timeout=600)
        for t in info:
            ctx.count("model_matrix", list(t), bucket=t[0])
        report_bad(ctx, bad, lambda cs, info=info: [info[i] for i in cs if i < len(info)])
    specs, tsizes = tensor_specs(ctx, rng)
    for (M, N) in tsizes:
        if (M, N) not in grids_hdr:
            for mn, hdr, _t, _i in corr_matrices(ctx, [(M, N)]):
                grids_hdr[mn] = hdr
    terms, tinfo = [], []
    for spec in specs:
        try:
            for kind, t in corr_tensor_terms(ctx, spec, rng):
                terms.append(t)
                tinfo.append((kind, spec))
                ctx.count("model_tensor", [kind, spec], bucket="%s rank%d" % (
                    kind, len(spec["axes"])))
        except Exception as ex:  # noqa: BLE001
            ctx.fail_input("Polynomial raised %r [%s]" % (ex, spec_name(spec)),
                           dict(kind="direct", spec=spec, check="raises"),
                           key="tensor-op-raises")
    hdr_all = CORR_HEADER + "\n".join(grids_hdr[s] for s in tsizes) + "\n"
    bad = run_cases(ctx, "tens", hdr_all, terms, per_file=8, timeout=600)
    report_bad(ctx, bad, lambda cs: [(tinfo[i][0], spec_name(tinfo[i][1])) for i in cs
                                     if i < len(tinfo)])
    ctx.sample(dict(model_vs_impl="mclose tol (tnMatrix QOps Dz false g 4 5) <impl matrix>",
                    sizes=msizes, tensor_cases=len(terms)))
    # --- direct validation against numpy.polynomial.chebyshev ----------------------------
    for M in range(2, 9 if ctx.quick else 33):
        for N in (3, 5, 7, 9) if ctx.quick else range(3, 41, 2):
            check_nodes(ctx, M, N)
    nchecks = 0
    for spec in gen_specs(ctx, rng):
        k = direct_config(ctx, spec, rng)
        nchecks += k
        for _ in range(k):
            ctx.count("direct", None)
        ctx.count("direct_config", spec, bucket="rank%d" % len(spec["axes"]))
    ctx.sample(dict(direct_checks=nchecks))
    ctx.cov["margins"] = dict(
        note="worst |error| / tolerance per family of direct checks (tolerance = 2e-11 x "
             "(data scale + |expected|); homogeneity checks purely relative)",
        worst={k: float("%.3g" % v) for k, v in sorted(MARGIN.items())})
    ctx.cov["rule"] = (
        "configuration = (M in 2..8, N in {3,5,7,9} plus production-like sizes up to M=30, "
        "N=21 at rank 1; grid = Grid / Grid3Scales / either after the re-scaling calls; per "
        "axis: direction z/pz/pp, end points kept or dropped, Cardinal/Chebyshev/Array); rank "
        "1 exhaustive with every degree cut, rank 2 every ordered pair of (direction, "
        "endpoints), ranks 2-6 sampled with mixed Array axes; random integer coefficients in "
        "the admissible space; per configuration: every operation, one further operation on "
        "every result, labels of every returned object, matrix/derivMatrix through an "
        "unrelated object and default arguments, 8 containers / element types of the "
        "coefficients, every documented call form (string/tuple, int/tuple/permuted/None "
        "axis, keyword/positional, list/array points, single point), arithmetic and "
        "indexing of the class, operand / arguments / grid unchanged; distinct = distinct "
        "configuration")
    ctx.assumptions += [
        "np.linalg.inv returns the inverse of the basis matrix (validated: the forward "
        "model matrix applied to the implementation's output reproduces the input)",
        "binary64 rounding is not modelled (tolerance 2e-9 relative)",
        "aliasing: the AST scan treats numpy arithmetic / np.array / scipy ufunc calls as "
        "allocating and np.asarray / reshapes / attributes / arguments as views (validated "
        "by the operand-unchanged and call-twice runs)",
        "numpy expand_dims/sum plumbing is validated by the rank<=4 runs against the "
        "model's nested-list operator and by ranks <= 6 against the numpy oracle, not proved",
        "element types are not modelled: other containers / dtypes are compared with the "
        "float64 run of the same numbers",
        "tolerances (2e-9 relative in the direct checks, 1e-9 absolute on O(1) matrix "
        "entries, M^2 N^2 1e-9 on derivative matrices) are generous multiples of the "
        "binary64 rounding of these well-conditioned small systems, not derived bounds"]
    ctx.trusted += ["numpy.polynomial.chebyshev (independent oracle of the direct checks)"]


def check_nodes(ctx, M, N):
    """hypotheses of the theorems about the grid (grid_ok): sizes, distinct increasing
    nodes, end points -1 / +1, Gauss-Lobatto positions -cos(k pi / n)"""
    grid = make_grid(M, N)
    for d in DIRS:
        n = quad_n(M, N, d)
        full = np.asarray(grid.getCompactCoordinates(True, d), dtype=float)
        want = -np.cos(np.arange(n + 1) * np.pi / n)
        ctx.count("grid_nodes", [M, N, d])
        ok = (full.shape == want.shape and np.all(np.diff(full) > 0) and
              full[0] == -1.0 and full[-1] == 1.0 and
              np.max(np.abs(full - want)) < 1e-14)   # any formula good to a few ulp
        part = np.asarray(grid.getCompactCoordinates(False, d), dtype=float)
        okp = np.array_equal(part, full[1:-1] if d != "pp" else full[:-1])
        if not (ok and okp):
            ctx.fail_input("grid nodes of direction %s are not the Gauss-Lobatto points "
                           "-cos(k pi/n) with end points -1, +1 (M=%d, N=%d)" % (d, M, N),
                           dict(kind="nodes", M=M, N=N, d=d, nodes=full.tolist()),
                           key="grid-nodes")


def replay(rep):
    import random
    print(json.dumps({k: v for k, v in rep.items() if k != "spec"}, indent=1)[:2000])
    spec = rep.get("spec")
    if rep.get("kind") == "nodes":
        g = make_grid(rep["M"], rep["N"])
        print("nodes", rep["d"], g.getCompactCoordinates(True, rep["d"]))
        return 0
    if rep.get("kind") == "known":
        class K:
            known = {"findings": []}

            def fail_input(self, what, r, key=None):
                print("REPRODUCED [%s]: %s" % (key, what))
        known_replays(K())
        return 0
    if spec is None:
        return 0

    class Dummy:
        tier = "quick"
        hits = 0

        def fail_input(self, what, r, key=None):
            self.hits += 1
            print("REPRODUCED:", what)

    print("configuration:", spec_name(spec))
    d = Dummy()
    direct_config(d, spec, random.Random(0))
    if not d.hits:
        print("not reproduced on this checkout")
    return 0
