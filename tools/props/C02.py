"""C02 -- energy and momentum flux are conserved across the wall."""
import json
import math
import os
import subprocess
import sys
import time
import traceback
from fractions import Fraction

import numpy as np

import gen_hydro_match
import pyrx
import vlib

EXPLANATION = (
    "The closed-form code around the scipy solvers of Hydrodynamics (vpvmAndvpovm, the "
    "residual closures `matching` (both modes of vp) and `tmFromvpsq`, the assembly of the "
    "returned (vp,vm,Tp,Tm), findHydroBoundaries, helpers.gammaSq) is regenerated from the "
    "source by the pyrx translator with a generic solver-slicing rule. Coq proves for EVERY "
    "equation of state with w=e+p: the junction relations the code solves are equivalent to "
    "conservation of energy and momentum flux; every zero of the generated residuals gives "
    "a returned matching with equal fluxes and vm^2=min(vw^2,cs^2(Tm)) (deflagration/hybrid) "
    "resp. vp=vw,Tp=Tn (detonation); every exact matching in the temperature window is a "
    "zero of the residual; c1=-energy flux and c2=momentum flux on both sides; an explicit "
    "bound turns a small residual into a small flux mismatch. The generated formulas are "
    "compared with the running closures by certified interval evaluation, and the property "
    "itself is evaluated on the real solver over bag, two-step, template and traced "
    "equations of state, nucleation temperatures over five decades and wall velocities from "
    "vMin to 0.99 (flux mismatch, boundary constants, success flag, template fallback).")

RTOL = ATOL = 1e-6
VB_FLOOR = 1e-3        # documented floor of the v+ bracket / of vMin (vBracketLow)
TOL_PAIRS = [(1e-6, 1e-6), (1e-6, 1e-10), (1e-6, 1e-10)]
TMAX, TMIN = 10.0, 0.01
# flux mismatch allowed, relative to the larger flux:  K_FLUX * delta * gamma_+^2 gamma_-^2,
# delta = rtol + atol/T the relative accuracy requested from the root finders.  Calibrated on
# the unchanged tree (see report): worst ratio mismatch/(delta g+^2 g-^2) observed = 4.5 (thorough tier, 2536 matchings; detonation at vw=0.737): margin factor 3.3
K_FLUX = 15.0


# ------------------------------------------------------------------------------------
# equations of state (classes from the repo's tests, rescaled to any temperature unit)

def _test_classes():
    root = vlib.REPO
    for p in (root, os.path.join(root, "tests")):
        if p not in sys.path:
            sys.path.insert(0, p)
    from tests.test_Hydrodynamics import TestModel2Step, TestModelBag, FreeEnergyHack
    from tests.test_HydroTemplateModel import TestModelTemplate
    return TestModel2Step, TestModelBag, TestModelTemplate, FreeEnergyHack


def scaled(base, u):
    """the same equation of state with temperatures measured in a unit u times larger:
    p_u(T) = u^4 p(T/u). A real WallGo.Thermodynamics subclass (e, w, csq are the code's)."""
    import WallGo
    _, _, _, Hack = _test_classes()

    class Scaled(WallGo.Thermodynamics):
        def __init__(self):
            self.base = base
            self.u = u
            self.Tnucl = base.Tnucl * u
            self.TMinHighT, self.TMaxHighT = base.TMinHighT * u, base.TMaxHighT * u
            self.TMinLowT, self.TMaxLowT = base.TMinLowT * u, base.TMaxLowT * u
            fh, fl = base.freeEnergyHigh, base.freeEnergyLow
            self.freeEnergyHigh = Hack(
                minPossibleTemperature=[fh.minPossibleTemperature[0] * u, False],
                maxPossibleTemperature=[fh.maxPossibleTemperature[0] * u, False])
            self.freeEnergyLow = Hack(
                minPossibleTemperature=[fl.minPossibleTemperature[0] * u, False],
                maxPossibleTemperature=[fl.maxPossibleTemperature[0] * u, False])

        def pHighT(self, T):
            return u ** 4 * base.pHighT(T / u)

        def dpHighT(self, T):
            return u ** 3 * base.dpHighT(T / u)

        def ddpHighT(self, T):
            return u ** 2 * base.ddpHighT(T / u)

        def pLowT(self, T):
            return u ** 4 * base.pLowT(T / u)

        def dpLowT(self, T):
            return u ** 3 * base.dpLowT(T / u)

        def ddpLowT(self, T):
            return u ** 2 * base.ddpLowT(T / u)

    return Scaled()


def build_model(case):
    """case dict -> Thermodynamics object"""
    M2, MB, MT, _ = _test_classes()
    k = case["kind"]
    if k == "2step":
        base = M2(case["abrok"], case["asym"], case["musq"], case["Tn0"])
    elif k == "bag":
        base = MB(case["psi"], case["Tn0"])
    elif k == "template":
        return MT(case["alN"], case["psiN"], case["cb2"], case["cs2"], case["Tn"],
                  case["Tn"], case.get("wn", 1))
    elif k == "traced":
        return traced_thermo(case)
    else:
        raise ValueError(k)
    u = case.get("unit", 1.0)
    return base if u == 1.0 else scaled(base, u)


def traced_thermo(case):
    """real FreeEnergy tables traced on the closed-form quartic potential"""
    import WallGo
    import wgmodels
    from WallGo import Fields, Thermodynamics
    pot = wgmodels.quartic1(D=case["D"], E=case["E"], lam=case["lam"], T0=case["T0"])
    ex = wgmodels.quartic1_exact(**pot.params)
    pot.configureDerivatives(WallGo.VeffDerivativeSettings(
        temperatureVariationScale=1.0, fieldValueVariationScale=10.0))
    Tn = case["Tn"]
    th = Thermodynamics(pot, Tn, Fields([ex["phi_broken"](Tn)]), Fields([0.0]))
    dT = 0.004 * Tn
    th.freeEnergyHigh.tracePhase(case["T0"] + 0.2, ex["Tspin_broken"] * 1.3, dT,
                                 rTol=1e-8)
    th.freeEnergyLow.tracePhase(0.7 * case["T0"], ex["Tspin_broken"] * 0.9995, dT,
                                rTol=1e-8)
    th.setExtrapolate()
    return th


def gen_case(rng, kind=None):
    kind = kind or rng.choice(["2step", "2step", "bag", "bag", "template", "template"])
    unit = 10.0 ** rng.choice([-3, -3, -2, -1, 0, 0, 1, 2, 3]) * rng.choice([1.0, 1.0, 2.5])
    if kind == "2step":
        ab = round(rng.uniform(0.15, 0.3), 3)
        return dict(kind=kind, abrok=ab, asym=round(ab * rng.uniform(0.3, 0.7), 3),
                    musq=round(rng.uniform(0.3, 0.5), 3),
                    Tn0=round(rng.uniform(0.5, 0.97), 3), unit=unit)
    if kind == "bag":
        return dict(kind=kind, psi=round(rng.uniform(0.5, 0.98), 3),
                    Tn0=round(rng.uniform(0.5, 0.97), 3), unit=unit)
    psiN = round(rng.uniform(0.5, 0.99), 3)
    cs2 = round(rng.uniform(0.2, 1 / 3), 4)
    cb2 = round(rng.uniform(0.2, cs2), 4)
    if rng.random() < 0.5:                       # both orderings of the sound speeds
        cb2 = round(rng.uniform(cs2, 1 / 3), 4)
    alN = round((1 - psiN) / 3 + 10.0 ** rng.uniform(-3, -0.5), 5)
    return dict(kind="template", alN=alN, psiN=psiN, cb2=cb2, cs2=cs2,
                Tn=unit * round(rng.uniform(0.5, 2.0), 3))


def make_hydro(th, rtol=RTOL, atol=ATOL, tmax=TMAX, tmin=TMIN):
    import WallGo
    return WallGo.Hydrodynamics(th, tmax, tmin, rtol, atol)


# ------------------------------------------------------------------------------------
# instrumentation (harness side only): record what the solvers were given / returned

class Spy:
    """patches the solver names inside WallGo.hydrodynamics while active"""

    def __init__(self, hydro):
        self.h = hydro
        self.calls = []            # (solver name, fun, result)
        self.fallback = 0
        self.matchings = []
        self.fm_args = []          # the velocities findMatching was asked for
        self.probe_at = {}         # closure name -> points at which to evaluate it while
        self.probed = {}           # the enclosing call is still live (its variables as at
        #                            solve time): closure name -> [(x, f(x))]

    def __enter__(self):
        import WallGo.hydrodynamics as H
        self.H = H
        self.saved = {n: getattr(H, n) for n in ("root", "root_scalar", "minimize_scalar")}
        spy = self

        def wrap(name):
            orig = self.saved[name]

            def f(fun, *a, **k):
                r = orig(fun, *a, **k)
                spy.calls.append((name, fun, r))
                nm = getattr(fun, "__name__", "")
                if nm in spy.probe_at:
                    pts = list(spy.probe_at[nm]) + [getattr(r, "x", None)
                                                    if name != "root_scalar" else r.root]
                    spy.probed[nm] = [(x, fun(x)) for x in pts if x is not None]
                return r
            return f
        for n in self.saved:
            setattr(H, n, wrap(n))
        self.t_orig = self.h.template.findMatching

        def tfm(vw):
            spy.fallback += 1
            return spy.t_orig(vw)
        self.h.template.findMatching = tfm
        self.fm_orig = self.h.findMatching

        def fm(vw):
            spy.fm_args.append(vw)
            r = spy.fm_orig(vw)
            spy.matchings.append(r)
            return r
        self.h.findMatching = fm
        return self

    def __exit__(self, *a):
        for n, f in self.saved.items():
            setattr(self.H, n, f)
        self.h.template.findMatching = self.t_orig
        self.h.findMatching = self.fm_orig

    def last(self, solver, closure):
        for name, fun, r in reversed(self.calls):
            if name == solver and getattr(fun, "__name__", "") == closure:
                return fun, r
        return None, None


def cell(fun, name):
    return fun.__closure__[fun.__code__.co_freevars.index(name)].cell_contents


# ------------------------------------------------------------------------------------
# the property on the implementation

def fluxes(th, vp, vm, Tp, Tm):
    from WallGo.helpers import gammaSq
    wp, wm = float(th.wHighT(Tp)), float(th.wLowT(Tm))
    return (wp * gammaSq(vp) * vp, wm * gammaSq(vm) * vm,
            wp * gammaSq(vp) * vp ** 2 + float(th.pHighT(Tp)),
            wm * gammaSq(vm) * vm ** 2 + float(th.pLowT(Tm)))


def flux_tolerance(h, vp, vm, Tp, Tm):
    delta = h.rtol + h.atol / min(Tp, Tm)
    return K_FLUX * delta / ((1 - vp * vp) * (1 - vm * vm))


def admissible(th, Tp, Tm):
    eH, eL = float(th.eHighT(Tp)), float(th.eLowT(Tm))
    pH, pL = float(th.pHighT(Tp)), float(th.pLowT(Tm))
    return eH != eL and eH + pL > 0 and eL + pH > 0


def exact_matching_exists(h, vw, n=64):
    """scan the shooting residual Tn(vp) - Tn of findMatching over vp: a sign change means
    an exact deflagration/hybrid matching exists for this wall velocity.  The scan does not
    reuse the code's own bracket: vp runs from 5% of the bracket floor up to vw, keeping the
    points where the shock is ahead of the wall (vp vw <= cs^2(T+))."""
    vpmin = 0.05 * min(VB_FLOOR, vw)
    vals = []
    for k in range(n + 1):
        vp = vpmin + (vw - vpmin) * k / n
        try:
            _, _, Tp, _ = h.matchDeflagOrHyb(vw, vp)
            if not h.success or not vp * vw <= float(h.thermodynamics.csqHighT(Tp)) * (
                    1 + 1e-9):
                continue
            d = h.solveHydroShock(vw, vp, Tp) - h.Tnucl
        except Exception:
            continue
        if math.isfinite(d):
            vals.append((vp, d))
    for (a, da), (b, db) in zip(vals, vals[1:]):
        if da * db < 0:
            return True, (a, b)
    return False, None


def refine_exact(h, vw, bracket):
    """exact deflagration/hybrid matching from a bracket of the shooting residual"""
    from scipy.optimize import brentq

    def f(vp):
        _, _, Tp, _ = h.matchDeflagOrHyb(vw, vp)
        return h.solveHydroShock(vw, vp, Tp) - h.Tnucl
    try:
        vps = brentq(f, bracket[0], bracket[1], xtol=1e-13, rtol=1e-12)
        r = [float(x) for x in h.matchDeflagOrHyb(vw, vps)]
        return r if h.success else None
    except Exception:
        return None


def check_template_class(ctx, case, th, h, vw):
    """the closed-form template solver on a template equation of state: its own matching
    and boundary constants conserve both fluxes exactly (up to rounding and the 1e-100
    regularisation), whatever the accuracy of its shooting root"""
    ht = h.template
    if vw < ht.vMin:
        return
    try:
        m = ht.findMatching(vw)
        hb = ht.findHydroBoundaries(vw)
    except Exception as ex:
        ctx.count("raised", bucket="template:" + type(ex).__name__)
        return
    if m[0] is None:
        ctx.count("template_no_solution")
        return
    vp, vm, Tp, Tm = (float(x) for x in m)
    ctx.count("template_class_matching", dict(case=case, vw=vw),
              bucket="detonation" if vw > ht.vJ else "deflagration/hybrid")
    if not (all(math.isfinite(x) for x in (vp, vm, Tp, Tm)) and 0 < vp < 1 and 0 < vm < 1
            and Tp > 0 and Tm > 0):
        # judged by C15 (template-alpha-below-threshold: NaN temperatures) / edge v+ -> 0
        ctx.count("template_class_not_a_matching")
        return
    e1, e2, m1, m2 = fluxes(th, vp, vm, Tp, Tm)
    tol = 1e-7 / ((1 - vp * vp) * (1 - vm * vm))
    re_ = abs(e1 - e2) / max(abs(e1), abs(e2))
    rm_ = abs(m1 - m2) / max(abs(m1), abs(m2))
    c1, c2 = float(hb[0]), float(hb[1])
    bad = None
    if re_ > tol:
        bad = ("template solver: energy flux %.12g in front, %.12g behind (rel %.3g)" % (
            e1, e2, re_), "template-energy-flux")
    elif rm_ > tol:
        bad = ("template solver: momentum flux %.12g in front, %.12g behind (rel %.3g)" % (
            m1, m2, rm_), "template-momentum-flux")
    elif abs(c1 + e1) > 1e-7 * abs(e1) or abs(c1 + e2) > 2 * tol * abs(e1):
        bad = ("template solver: c1 = %.12g, energy flux %.12g | %.12g" % (c1, e1, e2),
               "template-c1")
    elif abs(c2 - m1) > 1e-7 * abs(m1) or abs(c2 - m2) > 2 * tol * abs(m1):
        bad = ("template solver: c2 = %.12g, momentum flux %.12g | %.12g" % (c2, m1, m2),
               "template-c2")
    if bad:
        ctx.fail_input("%s [vw=%.6g]" % (bad[0], vw), dict(
            case=case, vw=vw, solver="template", returned=[vp, vm, Tp, Tm],
            fluxes=[e1, e2, m1, m2], boundaries=[c1, c2], what_fails=bad[0]), key=bad[1])


def wall_velocities(rng, h, n):
    """vw from vMin to 0.99 on all three branches, denser near vMin, cs(-), vJ, including
    the exact values vMin and vJ that the wall solver itself evaluates"""
    vmin = max(h.vMin, 1e-3)
    vJ = h.vJ
    cb = math.sqrt(max(float(h.thermodynamics.csqLowT(h.Tnucl)), 1e-6))
    pts = [vmin * 1.0001 + 1e-6, vmin + (min(cb, vJ) - vmin) * rng.uniform(0.01, 0.2),
           cb * (1 - 10 ** rng.uniform(-4, -2)), cb * (1 + 10 ** rng.uniform(-4, -2)),
           vJ - 10 ** rng.uniform(-5, -2), vJ + 10 ** rng.uniform(-5, -2), 0.99,
           rng.uniform(vJ, 0.99), rng.uniform(0.9, 0.99), vJ, vmin,
           max(vmin, 10 ** rng.uniform(-2.7, -1.3)),        # slow walls (v+ <= 1e-2)
           # the middle of the three branches (typical walls)
           vmin + (min(cb, vJ) - vmin) * rng.uniform(0.2, 0.9),
           min(cb, vJ) + (vJ - min(cb, vJ)) * rng.uniform(0.2, 0.9),
           vJ + (0.99 - vJ) * rng.uniform(0.2, 0.9)]
    while len(pts) < n:
        pts.append(rng.uniform(vmin, 0.99))
    out = [v for v in pts if vmin <= v <= 0.99]
    rng.shuffle(out)
    return out[:n]


EPS = 2.220446049250313e-16


class time_limit:
    """a call into the solvers that does not come back within `seconds` is a failing input
    (TimeoutError), never a hung check"""

    def __init__(self, seconds):
        self.seconds = seconds

    def __enter__(self):
        import signal

        def handler(signum, frame):
            raise TimeoutError("no answer within %g s" % self.seconds)
        self.old = signal.signal(signal.SIGALRM, handler)
        signal.setitimer(signal.ITIMER_REAL, self.seconds)

    def __exit__(self, *a):
        import signal
        signal.setitimer(signal.ITIMER_REAL, 0)
        signal.signal(signal.SIGALRM, self.old)


def same(a, b, ulps=4):
    return abs(a - b) <= ulps * EPS * max(abs(a), abs(b))


def expected_guess(h, vw, vp):
    """the initial guess [Tp, Tm] that matchDeflagOrHyb (hydrodynamics.py:414-452, not
    translated) builds for the 2x2 solve, recomputed from the template object: part of the
    MECHANISM of the recorded unconverged-* findings (hybr started from exactly this guess)"""
    from WallGo.exceptions import WallGoError
    t, Tn, th = h.template, h.Tnucl, h.thermodynamics

    def plain():
        return [min(1.1, 1 / np.sqrt(1 - min(vw ** 2, t.cb2))) * Tn, Tn]
    def own_initial(vwT, vpT):
        # hydrodynamicsTemplateModel.matchDeflagOrHybInitial (vp given), the harness's OWN
        # copy of the closed forms (C15 proves them): not the method under test
        vm_ = min(vwT, float(t.cb))
        al = ((vm_ - vpT) * (t.cb2 - vm_ * vpT)) / (3 * t.cb2 * vm_ * (1 - vpT ** 2))
        A = (1 - 3 * t.alN) * t.mu - t.nu
        B = (1 - 3 * al) * t.mu - t.nu
        wp = np.float64(np.sign(A) * np.sign(B) * (abs(A) + 1e-100) / (abs(B) + 1e-100))
        with np.errstate(all="ignore"):
            Tp_ = np.float64(t.Tnucl) * wp ** (1 / t.mu)
            ap = 3 / (t.mu * t.Tnucl ** t.mu)
            am = 3 * t.psiN / (t.nu * t.Tnucl ** t.nu)
            Tm_ = np.float64((ap * vpT * t.mu * (1 - vm_ ** 2) * Tp_ ** t.mu) / (
                am * vm_ * t.nu * (1 - vpT ** 2))) ** (1 / t.nu)
        return [Tp_, Tm_]
    try:
        if vw > t.vMin:
            vwT = min(vw, t.vJ - 1e-6)
            vpT = vp if vp is None else min(vp, vwT)
            g = list(t.matchDeflagOrHybInitial(vwT, vpT)) if vp is None else \
                own_initial(vwT, vpT)
        else:
            g = [Tn, 0.99 * Tn]
    except WallGoError:
        g = plain()
    if np.any(np.isnan(g)):
        g = plain()
    if vp is not None and g[0] <= g[1]:
        g[0] = 1.01 * g[1]
    if vp is None:
        lim = g[1] / np.sqrt(1 - min(vw ** 2, float(th.csqLowT(g[1]))))
        if g[0] <= g[1] or g[0] > lim:
            g[0] = g[1] * (1 + 1 / np.sqrt(1 - min(vw ** 2, float(th.csqLowT(g[1]))))) / 2
    return [float(g[0]), float(g[1])]


def solve_info(h, spy, vw):
    """what the LAST 2x2 solve made inside the spied call did (never a stale h.success):
    None when no such solve happened (detonations, pure fallback)"""
    fun, sol = spy.last("root", "matching")
    if fun is None:
        return None
    vp = cell(fun, "vp")
    Tpm0 = [float(x) for x in cell(fun, "Tpm0")]
    ssq = float(np.sum(np.asarray(sol.fun, dtype=float) ** 2))
    try:
        g = expected_guess(h, vw, None if vp is None else float(vp))
        guess_ok = all(abs(a - b) <= 1e-10 * abs(b) for a, b in zip(Tpm0, g))
    except Exception:
        guess_ok = False
    return dict(fun=fun, sol=sol, vp=vp, Tpm0=Tpm0, hybr_ok=bool(sol.success),
                accepted=bool(sol.success) or ssq < 1e-6, ssq=ssq, guess_ok=guess_ok,
                status=int(sol.status))


def solve_state(info):
    """'ok' | 'accepted' (hybr failed, sum(fun^2)<1e-6 let it through) | 'unconverged' (hybr
    failed, not accepted, returned anyway) -- each only with the recorded mechanism (hybr
    started from the code's own template-based guess); otherwise 'foreign' (NOT a known
    class: something else made the solve fail)"""
    if info is None or info["hybr_ok"]:
        return "ok"
    if not info["guess_ok"]:
        return "foreign"
    return "accepted" if info["accepted"] else "unconverged"


def eos_at(th, Tp, Tm):
    return (float(th.eHighT(Tp)), float(th.eLowT(Tm)), float(th.pHighT(Tp)),
            float(th.pLowT(Tm)))


def derived_flux_bound(th, vp, vm, Tp, Tm, r1, r2):
    """absolute bound on both flux mismatches implied by the code's OWN residuals r1 = A B -
    vp^2, r2 = A/B - vm^2 at the returned point: C02_residual_to_junction gives the polynomial
    junction residuals res1, res2 exactly, C02_near_root_flux_bound the factor 4 g+^2 g-^2.
    Returns (bound, rounding floor) or None outside the theorems' hypotheses."""
    eH, eL, pH, pL = eos_at(th, Tp, Tm)
    if not (eH != eL and eH + pL > 0 and eL + pH > 0 and 0 < vp < 1 and 0 < vm < 1):
        return None
    A, B = (pH - pL) / (eH - eL), (eL + pH) / (eH + pL)
    if not (vp * vm + A > 0 and vm * vm + r2 > 0):
        return None
    d1 = abs(eH - eL) * abs(vp * vp * r2 + vm * vm * r1 + r1 * r2) / (vp * vm + A)
    d2 = (eH + pL) * abs(vp * vp * r2 - vm * vm * r1) / ((vm * vm + r2) * (vp + vm * B))
    g4 = 1 / ((1 - vp * vp) * (1 - vm * vm))
    floor = 256 * EPS * (abs(pH) + abs(pL) + abs(eH) + abs(eL)) * g4
    return 4 * max(d1, d2) * g4, floor


def scale_of(Tpm0, Tp, Tm):
    return (4 + (Tp / Tpm0[0]) ** 2 + (Tm / Tpm0[1]) ** 2) * (
        4 + (Tpm0[0] / Tp) ** 2 + (Tpm0[1] / Tm) ** 2)


def relative_residual(info, vp, vm, Tp, Tm):
    """max(|r1|/vp^2, |r2|/vm^2) of the final 2x2 solve (None if there was none)"""
    if info is None:
        return None
    c = scale_of(info["Tpm0"], Tp, Tm)
    f = np.asarray(info["sol"].fun, dtype=float)
    return max(abs(float(f[0]) / c) / (vp * vp), abs(float(f[1]) / c) / (vm * vm))


def refine_zero(info):
    """an exact zero of the captured residual closure near the returned point"""
    from scipy.optimize import root as sroot
    try:
        s2 = sroot(info["fun"], info["sol"].x, method="hybr", options={"xtol": 1e-14})
        if s2.success and float(np.sum(s2.fun ** 2)) < 1e-22:
            return s2.x
    except Exception:
        pass
    return None


def deton_exact_exists(th, h, vw):
    """sign change of the detonation junction residual (harness's own formula) over
    [Tn, TMaxHydro]"""
    Tn = h.Tnucl

    def g(tm):
        eH, eL, pH, pL = eos_at(th, Tn, tm)
        return vw * vw * (eH - eL) - (pH - pL) * (eL + pH) / (eH + pL)
    prev = None
    for k in range(400):
        tm = Tn * (h.TMaxHydro / Tn) ** (k / 399.0)
        try:
            v = g(tm)
        except Exception:
            continue
        if not math.isfinite(v):
            continue
        if prev is not None and prev[1] * v < 0:
            return True, (prev[0], tm)
        prev = (tm, v)
    return False, None


GENERIC_KEY = {"energy-flux": "flux-mismatch", "momentum-flux": "flux-mismatch",
               "fallback": "template-fallback-exact-exists"}
# failure kinds that are CONSEQUENCES of a 2x2 solve that did not converge; only these may
# be attributed to the recorded unconverged-* findings
CONSEQUENCE = {"inaccurate", "not-converged", "shock-misses-Tn", "energy-flux", "momentum-flux", "c1-rear",
               "c2-rear", "range", "residual-not-small"}


def failure_key(h, vw, kind, fallback, state, slow_fallback_mech=False, resid_mech=False):
    """key of a failure for known_findings.json.  A recorded class is assigned only when its
    MECHANISM is observed on this input (see solve_state): the last 2x2 hybr solve of this
    very call failed although it was started from the code's own template-based guess, and
      accepted by sum(fun^2)<1e-6, vMin == vBracketLow, vw < 1.5 vBracketLow
                                          -> slow-wall-unconverged-accepted
      accepted, elsewhere                 -> unconverged-accepted-absolute-threshold
      not accepted (self.success False)   -> unconverged-matching-returned
    slow-wall-template-fallback needs: same corner, the template fallback was taken, and an
    exact matching with v+ below vBracketLow exists (the bracket floor is the cause).
    The same symptom with any other cause keeps its generic key and is a new violation."""
    corner = h.vMin == VB_FLOOR and vw < 1.5 * VB_FLOOR
    if fallback:
        t = h.template
        if kind == "range" and t.alN <= (t.mu - t.nu) / (3 * t.mu):
            # C15 template-alpha-below-threshold seen through the fallback: the template
            # solver returns NaN temperatures for alN <= (mu-nu)/(3mu) (cb2 > cs2)
            return "template-alpha-below-threshold"
        if h.vJ * (1 - 1e-8) <= vw <= h.vJ and kind in ("energy-flux", "momentum-flux",
                                                        "c1-rear", "c2-rear", "fallback"):
            # at vw == vJ (to 1e-8) the hybrid branch finds no bracket and hands over to the
            # template model
            return "template-fallback-at-vJ"
        if slow_fallback_mech and kind in (
                "energy-flux", "momentum-flux", "fallback", "c1-rear", "c2-rear", "range"):
            # mechanism: an exact matching exists whose v+ lies below the bracket floor
            # vBracketLow (vw up to vBracketLow * vw/v+, not only vw < 1.5e-3)
            return "slow-wall-template-fallback"
        return GENERIC_KEY.get(kind, kind)
    if (kind == "residual-not-small" or (resid_mech and kind in CONSEQUENCE)) and \
            state == "ok" and h.vMin == VB_FLOOR and vw < 3.2 * VB_FLOOR:
        # hybr reports success (its step criterion is met) at a point where the residual
        # is not small against vp^2 <= 1e-5 (vw < 3.2e-3): third member of the slow-wall
        # family
        return "slow-wall-residual-not-small"
    if kind == "shock-root-on-jump":
        return "findMatching-root-on-jump"      # recorded under C03; mechanism measured here
    if kind in CONSEQUENCE:
        if state == "accepted":
            return "slow-wall-unconverged-accepted" if corner else \
                "unconverged-accepted-absolute-threshold"
        if state == "unconverged":
            return "unconverged-matching-returned"
        if state == "foreign":
            return "unconverged-solve-foreign-cause"
    return GENERIC_KEY.get(kind, kind)


RECORDED = [   # inputs of the recorded findings, replayed first on every run
    (dict(kind="2step", abrok=0.2, asym=0.1, musq=0.4, Tn0=0.9, unit=1.0), 0.00101),
    (dict(kind="2step", abrok=0.2, asym=0.1, musq=0.4, Tn0=0.9, unit=1.0), 0.001),
    (dict(kind="2step", abrok=0.261, asym=0.148, musq=0.419, Tn0=0.73, unit=25.0),
     0.0010011),
    # hybr fails (status 2) but the absolute acceptance rule lets it through, vw = 0.0117
    (dict(kind="template", alN=0.03961, psiN=0.885, cb2=0.2544, cs2=0.2362, Tn=1.913),
     0.011661719584618011),
    # unconverged 2x2 solve returned as a matching (hybrid 0.03% below vJ)
    (dict(kind="template", alN=0.19354, psiN=0.571, cb2=0.202, cs2=0.3301, Tn=138.8),
     0.6952983303589946),
    # template fallback at exactly vw = vJ on a traced (non-template) equation of state
    (dict(kind="traced", D=0.2, E=0.05, lam=0.1, T0=80.0, Tn=83.011), "vJ"),
    # shock root on a jump of the shooting function (C03 class), at vw = vJ
    (dict(kind="template", alN=0.14285, psiN=0.647, cb2=0.202, cs2=0.3152, Tn=0.0046025,
          rtol=1e-6, atol=1e-10, tmax=6.0, tmin=0.03), "vJ"),
    # NaN of the template solver returned through the fallback (C15 small-alpha class)
    (dict(kind="template", alN=0.00885, psiN=0.978, cb2=0.2315, cs2=0.2214, Tn=8.24, wn=0.37,
          rtol=1e-6, atol=1e-10, tmax=6.0, tmin=0.03), 0.0030147923250220835),
    # hybr "success" with a residual as large as vm^2 (slow wall, traced potential)
    (dict(kind="traced", D=0.2, E=0.05, lam=0.08, T0=80.0, Tn=84.108), 0.0010011),
]

RELRES_MAX = 1e-3   # largest residual / (vp^2 or vm^2) of a solve that reports success
K_SHOCK = 50.0      # |T_shock/Tn - 1| <= K_SHOCK * shock_tolerance (calibrated, see evidence)


def root_on_jump(h, vw, vp, miss, n_failed=0):
    """mechanism of C03 findMatching-root-on-jump, measured on the live object: the shooting
    function F(x) = solveHydroShock(vw, x, T+(x)) - Tn rebuilt from the public methods equals
    the observed miss at x = v+ (to 5%) and, for some d in {1e-7..1e-4}, changes sign between two of
    v+(1-d), v+, v+(1+d) with magnitudes >= half the miss: brentq converged onto a JUMP of the
    code's own (discontinuous) shooting function, for the REQUESTED vw"""
    conv = {}

    def F(x):
        _, _, Tp_, _ = h.matchDeflagOrHyb(vw, x)
        conv[x] = bool(h.success)
        return float(h.solveHydroShock(vw, x, Tp_)) - h.Tnucl
    try:
        f0 = F(vp)
        if abs(f0 - miss) > 0.05 * abs(miss):
            return False
        for d in (1e-7, 1e-6, 1e-5, 1e-4):
            a, b = F(vp * (1 - d)), F(vp * (1 + d))
            for u, v in ((a, b), (a, f0), (f0, b)):
                # a sign change of at least half the miss within d of v+ (the function may
                # hop back and forth between two branches of the inner 2x2 solve)
                if u * v < 0 and min(abs(u), abs(v)) >= 0.5 * abs(miss):
                    return True
        # same mechanism, erratic variant (C06 vp-root-on-unconverged-jump): the shooting
        # function is smooth (and far from zero) around v+, but some inner 2x2 solves inside
        # this very brentq run failed, and nearby evaluations whose inner solve does NOT
        # converge give values of the opposite sign: brentq bracketed a sign change that
        # exists only between a converged and an unconverged evaluation
        if n_failed > 0:
            for d in (1e-3, 3e-3, 1e-2):
                for x in (vp * (1 - d), vp * (1 + d)):
                    v = F(x)
                    if v * f0 < 0 and abs(v) >= 0.5 * abs(miss) and not conv[x]:
                        return True
    except Exception:
        pass
    return False


def shock_tolerance(h, vp, Tp):
    """accuracy of T_shock(vw, vp, Tp) = Tn implied by the tolerances: the shooting root v+ is
    found to atol + rtol v+ (root_scalar), the shock ODE and the front condition to rtol +
    atol/Tn; a relative error dv+/v+ moves T_shock by about the heating"""
    heating = abs(Tp / h.Tnucl - 1)
    return (h.rtol + h.atol / h.Tnucl) + (h.rtol + h.atol / vp) * max(heating, 1e-3)


RECORDED_KEYS = ["slow-wall-unconverged-accepted", "slow-wall-template-fallback",
                 "unconverged-accepted-absolute-threshold", "unconverged-matching-returned",
                 "template-fallback-at-vJ", "slow-wall-residual-not-small",
                 "findMatching-root-on-jump", "template-alpha-below-threshold"]
K_ACC = 200.0     # returned (Tp, Tm) within K_ACC * xtol * Tn (+1e-9 rel.) of an exact zero of
#                   the captured residual: hybr's xtol (= self.atol) bounds the relative step in
#                   the mapped variables, dT <= (TMax-TMin)/(2 pi) * xtol ~ 1.6 Tn xtol


def check_point(ctx, case, th, h, vw, stats=None):
    """evaluate the property at one wall velocity; every clause is judged (several failures
    of one input are all reported, each with its own key)"""
    rec = dict(vw=vw)
    label = dict(case=case, vw=vw, rtol=h.rtol, atol=h.atol)
    branch = "detonation" if vw > h.vJ else (
        "hybrid" if vw * vw > float(th.csqLowT(h.Tnucl)) else "deflagration")
    rec["branch"] = branch
    ctx.count("point", bucket=branch)
    bads = []

    def report(state="ok", slow_mech=False, fallback=0, **extra):
        resid = any(k == "residual-not-small" for _, k in bads)
        for what, kind in bads:
            key = failure_key(h, vw, kind, fallback, state, slow_mech, resid)
            d = dict(label)
            d.update(what_fails=what, kind=kind, solve_state=state, **extra)
            ctx.fail_input("%s [%s vw=%.6g %s]" % (what, case["kind"], vw, branch), d,
                           key=key)
            rec.setdefault("bad", []).append(key)
        return rec

    with Spy(h) as spy:
        try:
            hb = h.findHydroBoundaries(vw)
            raised = None
        except Exception as ex:
            raised = ex
    hsucc = bool(h.success)         # before the harness makes any further call
    info = None if branch == "detonation" else solve_info(h, spy, vw)
    state = solve_state(info)
    if raised is not None or (spy.matchings and spy.matchings[-1][0] is None):
        # no solution returned: judged -- is there an exact matching for this velocity?
        ctx.count("raised" if raised is not None else "no_solution",
                  bucket=branch + ":" + type(raised).__name__)
        rec["raised"] = repr(raised)
        if branch == "detonation":
            exists, where = deton_exact_exists(th, h, vw)
        else:
            exists, where = exact_matching_exists(h, vw)
        if exists:
            kind = "no-result-although-exists"
            if branch == "detonation":
                # mechanism of deton-minimiser-misses-dip: matchDeton's minimize_scalar
                # (Bounded, default xatol = 1e-5 ABSOLUTE) stops at a positive value although
                # the residual dips below zero between two close roots (vw just above vJ,
                # temperatures small in the user's units); a tight minimiser finds the dip
                fun_, res_ = spy.last("minimize_scalar", "tmFromvpsq")
                try:
                    from scipy.optimize import minimize_scalar as _ms
                    if fun_ is not None and float(res_.fun) > 0 and float(_ms(
                            fun_, bounds=[h.Tnucl, h.TMaxHydro], method="Bounded",
                            options={"xatol": 1e-14}).fun) < 0:
                        kind = "deton-minimiser-misses-dip"
                except Exception:
                    pass
            bads.append(("no matching returned (%r) although an exact one exists (sign "
                         "change in %r)" % (raised, where), kind))
        return report(state)
    if not spy.matchings:
        if any(float(x) != 0 for x in hb):
            bads.append(("findHydroBoundaries returned %r without calling "
                         "self.findMatching" % (tuple(float(x) for x in hb),),
                         "boundaries-not-from-findMatching"))
        else:
            bads.append(("findHydroBoundaries returned zeros for vw=%.9g >= vMin=%.9g"
                         % (vw, h.vMin), "zeros-inside-range"))
        return report(state)
    vp, vm, Tp, Tm = (float(x) for x in spy.matchings[-1])
    ctx.count("matching", dict(case=case, vw=vw), bucket=case["kind"] + "/" + branch)
    if any(not (isinstance(a, (int, float)) and float(a) == vw) for a in spy.fm_args):
        bads.append(("findHydroBoundaries(%.15g) asked findMatching for %r" % (
            vw, spy.fm_args), "matching-of-another-velocity"))
    rec.update(vp=vp, vm=vm, Tp=Tp, Tm=Tm, fallback=spy.fallback, state=state)
    label.update(returned=[vp, vm, Tp, Tm], fallback=spy.fallback, success=hsucc)
    if info is not None:
        label.update(hybr_status=info["status"], sum_fun_sq=info["ssq"],
                     guess_is_the_codes=info["guess_ok"])
    if not all(math.isfinite(x) for x in (vp, vm, Tp, Tm)) or not (
            0 < vp < 1 and 0 < vm < 1 and Tp > 0 and Tm > 0):
        if 0 <= vp <= 10 * h.atol and branch != "detonation":
            # edge of existence (vw -> shock-limited vMin): v+ -> 0 and T- ~ v+^(1/nu) is
            # infinitely sensitive; a v+ below the absolute tolerance carries no information
            ctx.count("degenerate_edge_skipped")
            return rec
        bads.append(("returned values out of range: %r" % ((vp, vm, Tp, Tm),), "range"))
        return report(state, fallback=spy.fallback,
                      slow_mech=bool(spy.fallback) and h.vMin == VB_FLOOR
                      and vw < 1.5 * VB_FLOOR)
    if 0 < vp <= 10 * h.atol and branch != "detonation":
        ctx.count("degenerate_edge_skipped")
        return rec
    if h.vMin > VB_FLOOR and vw < 1.02 * h.vMin and not (
            float(th.csqLowT(Tm)) > 0 and float(th.wLowT(Tm)) > 0):
        # at a shock-limited vMin the exact solution has T- -> TMinHydro; if the equation of
        # state is not physical there (w <= 0 or cs^2 <= 0) the point is outside the
        # quantifier ("positive sound speeds")
        ctx.count("edge_outside_eos_domain_skipped")
        return rec
    e1, e2, m1, m2 = fluxes(th, vp, vm, Tp, Tm)
    sc1, sc2 = max(abs(e1), abs(e2)), max(abs(m1), abs(m2))
    re_, rm_ = abs(e1 - e2) / sc1, abs(m1 - m2) / sc2
    tolc = flux_tolerance(h, vp, vm, Tp, Tm)          # calibrated: accuracy of a fallback
    rec.update(mis=max(re_, rm_), tol=tolc)
    if stats is not None:
        stats.append(rec)
    label.update(fluxes=[e1, e2, m1, m2])
    # ---- (1) fluxes vs the code's own residual at the returned point (derived bound) -----
    bound = None
    if not spy.fallback:
        r = None
        if branch == "detonation":
            fun, rr = spy.last("root_scalar", "tmFromvpsq")
            if fun is not None:
                eH, eL, _, _ = eos_at(th, Tp, Tm)
                f0 = float(fun(Tm))
                rec["deton_res"] = f0
                r = (-f0 / (eH - eL), 0.0) if eH != eL else None
            else:
                bads.append(("detonation matching not obtained from a bracketed root of "
                             "tmFromvpsq", "deton-no-root-call"))
        elif info is not None:
            c = scale_of(info["Tpm0"], Tp, Tm)
            f = np.asarray(info["sol"].fun, dtype=float)
            r = (float(f[0]) / c, float(f[1]) / c)
            if not all(same(a, b, 64) for a, b in zip(
                    h._inverseMappingT(info["sol"].x), (Tp, Tm))):
                bads.append(("returned (Tp, Tm) = %r is not the solver's final point %r" % (
                    (Tp, Tm), tuple(float(x) for x in h._inverseMappingT(info["sol"].x))),
                    "result-not-final-point"))
                r = None
        else:
            bads.append(("deflagration/hybrid matching not obtained from a 2x2 solve of "
                         "`matching`", "deflag-no-root-call"))
        if r is not None and branch != "detonation":
            # a converged 2x2 solve leaves residuals that are small against the quantities
            # they are solved for (measured on the unchanged tree: <= 1e-6 except slow walls)
            relres = max(abs(r[0]) / (vp * vp), abs(r[1]) / (vm * vm))
            rec["relres"] = relres
            if relres > RELRES_MAX and state == "ok":
                bads.append(("the final 2x2 solve reports success but its residual r = %r is "
                             "%.3g of vp^2, vm^2 = %.3g, %.3g; fluxes differ by %.3g / %.3g"
                             % (r, relres, vp * vp, vm * vm, re_, rm_),
                             "residual-not-small"))
        if r is not None:
            bound = derived_flux_bound(th, vp, vm, Tp, Tm, *r)
            if bound is None and admissible(th, Tp, Tm) and float(th.csqLowT(Tm)) > 0 \
                    and not any(k == "residual-not-small" for _, k in bads):
                # the theorems' sign conditions hold, but the residual is as large as the
                # quantities it is solved for (vm^2 + r2 <= 0 or vp vm + A <= 0)
                bads.append(("the code's residual at the returned point, r = %r, is not "
                             "small against vp^2 = %.3g, vm^2 = %.3g; fluxes differ by "
                             "%.3g / %.3g" % (r, vp * vp, vm * vm, re_, rm_),
                             "residual-not-small"))
            elif bound is None:
                ctx.count("hypothesis_not_met", bucket="admissible")
                rec["inadmissible"] = True
            else:
                ctx.count("derived_bound")
                b, fl = bound
                rec["bound"] = b
                if stats is not None and b + fl > 0:
                    mx = max(abs(e1 - e2), abs(m1 - m2))
                    rec["mis_over_bound"] = mx / (b + fl)
                    rec["floor_share"] = fl / (b + fl)      # how much of the bound is floor
                if abs(e1 - e2) > b * (1 + 1e-6) + fl:
                    bads.append((
                        "energy flux mismatch %.6g exceeds the bound %.6g implied by the "
                        "code's own residual %r at the returned point" % (
                            abs(e1 - e2), b, r), "flux-vs-residual"))
                elif abs(m1 - m2) > b * (1 + 1e-6) + fl:
                    bads.append((
                        "momentum flux mismatch %.6g exceeds the bound %.6g implied by the "
                        "code's own residual %r at the returned point" % (
                            abs(m1 - m2), b, r), "flux-vs-residual"))
    # ---- (2) accuracy: the returned point is within the solver tolerance of an exact zero --
    if not spy.fallback:
        if branch == "detonation":
            fun, rr = spy.last("root_scalar", "tmFromvpsq")
            if fun is not None:
                d = 4 * (h.atol + h.rtol * Tm)
                lo, hi = max(Tm - d, h.Tnucl), Tm + d
                # (near vJ the residual has two roots a few atol apart: look for ANY sign
                # change inside the window, not only between its ends)
                vals = [float(fun(lo + (hi - lo) * k / 32.0)) for k in range(33)] + [
                    float(fun(Tm))]
                ctx.count("accuracy", bucket="brentq")
                if not (min(vals) <= 0 <= max(vals)):
                    bads.append(("brentq result Tm=%.12g is not within 4(atol+rtol Tm) of a "
                                 "sign change of tmFromvpsq" % Tm, "deton-root"))
        elif info is not None:
            z = refine_zero(info)
            if z is None:
                ctx.count("accuracy", bucket="no-refined-zero")
                if not info["hybr_ok"]:
                    bads.append(("the final 2x2 solve failed (hybr status %d, sum fun^2 = "
                                 "%.3g) and no zero of the residual is found near the "
                                 "returned point; fluxes differ by %.3g / %.3g" % (
                                     info["status"], info["ssq"], re_, rm_),
                                 "not-converged"))
            else:
                ctx.count("accuracy", bucket="refined")
                Tz = [float(x) for x in h._inverseMappingT(z)]
                dist = max(abs(Tp - Tz[0]), abs(Tm - Tz[1]))
                tolz = K_ACC * h.atol * h.Tnucl + 1e-9 * max(Tz)
                rec["dist_over_tol"] = dist / tolz
                if dist > tolz:
                    bads.append((
                        "returned (Tp, Tm) = (%.12g, %.12g) is %.3g away from the zero "
                        "(%.12g, %.12g) of the residual (tolerance %.3g; hybr status %d, sum "
                        "fun^2 = %.3g); fluxes differ by %.3g / %.3g" % (
                            Tp, Tm, dist, Tz[0], Tz[1], tolz, info["status"], info["ssq"],
                            re_, rm_), "inaccurate"))
    # ---- the matching belongs to the REQUESTED velocity: the shock launched by (vw, vp, Tp)
    #      reaches the nucleation temperature (ties hybrids to vw as well) -----------------
    shock_ok = None
    if branch != "detonation":
        try:
            Tsh = float(h.solveHydroShock(vw, vp, Tp))
            dsh = abs(Tsh / h.Tnucl - 1)
            tolsh = K_SHOCK * shock_tolerance(h, vp, Tp)
            rec["shock_over_tol"] = dsh / tolsh
            shock_ok = dsh <= tolsh
            ctx.count("shock_condition", bucket="fallback" if spy.fallback else "solved")
            if not shock_ok and not spy.fallback:
                # measured conditioning: the shooting root v+ is only asked to atol + rtol v+;
                # T_shock moves by S = |dF/dln v+|/Tn per relative change of v+
                try:
                    def F_(x):
                        return float(h.solveHydroShock(vw, x, h.matchDeflagOrHyb(vw, x)[2]))
                    S = abs(F_(vp * (1 + 1e-3)) - F_(vp * (1 - 1e-3))) / (2e-3 * h.Tnucl)
                    tolsh = max(tolsh, K_SHOCK * ((h.rtol + h.atol / h.Tnucl)
                                                  + S * (h.rtol + h.atol / vp)))
                    rec["shock_over_tol"] = dsh / tolsh
                    shock_ok = dsh <= tolsh
                except Exception:
                    pass
            if not shock_ok and not spy.fallback:
                nfail = sum(1 for nm, f_, r_ in spy.calls[:-1]
                            if nm == "root" and not r_.success)
                jump = root_on_jump(h, vw, vp, Tsh - h.Tnucl, nfail)
                bads.append(("the shock launched by (vw=%.9g, vp=%.9g, Tp=%.9g) reaches "
                             "%.9g, not Tn=%.9g (rel %.3g > %.3g)%s" % (
                                 vw, vp, Tp, Tsh, h.Tnucl, dsh, tolsh,
                                 " [v+ sits on a jump of the code's own shooting function]"
                                 if jump else ""),
                             "shock-root-on-jump" if jump else "shock-misses-Tn"))
        except Exception as ex:
            ctx.count("shock_condition", bucket="raised:" + type(ex).__name__)
    # ---- fluxes of a template fallback (an approximation unless the EOS is template) ------
    slow_mech = False
    if spy.fallback:
        if not re_ <= tolc:
            bads.append(("energy flux differs across the wall: %.12g vs %.12g (rel %.3g > "
                         "tol %.3g)" % (e1, e2, re_, tolc), "energy-flux"))
        elif not rm_ <= tolc:
            bads.append(("momentum flux differs across the wall: %.12g vs %.12g (rel %.3g > "
                         "tol %.3g)" % (m1, m2, rm_, tolc), "momentum-flux"))
    # ---- boundary constants ----------------------------------------------------------------
    c1, c2, Tpb, Tmb, vmid = (float(x) for x in hb)
    label.update(boundaries=[c1, c2])
    ctx.count("boundaries")
    if not same(c1, -e1, 16):
        bads.append(("c1 = %.15g is not minus the energy flux in front %.15g" % (c1, e1),
                     "c1"))
    if not same(c2, m1, 16):
        bads.append(("c2 = %.15g is not the momentum flux in front %.15g" % (c2, m1),
                     "c2"))
    rear_tol = (bound[0] * (1 + 1e-6) + bound[1]) if bound is not None else None
    if rear_tol is None:
        rear_tol = 2 * tolc * max(sc1, sc2)
    if abs(c1 + e2) > rear_tol + 16 * EPS * sc1 and not any(
            k in ("flux-vs-residual", "energy-flux", "c1", "residual-not-small")
            for _, k in bads):
        bads.append(("c1 = %.12g is not minus the energy flux behind the wall %.12g" % (
            c1, e2), "c1-rear"))
    if abs(c2 - m2) > rear_tol + 16 * EPS * sc2 and not any(
            k in ("flux-vs-residual", "momentum-flux", "c2", "residual-not-small")
            for _, k in bads):
        bads.append(("c2 = %.12g is not the momentum flux behind the wall %.12g" % (c2, m2),
                     "c2-rear"))
    if not (same(Tpb, Tp) and same(Tmb, Tm) and abs(vmid + 0.5 * (vp + vm)) <= 4 * EPS):
        bads.append(("findHydroBoundaries does not pass on the matching: %r vs %r" % (
            (Tpb, Tmb, vmid), (Tp, Tm, -0.5 * (vp + vm))), "boundary-pass"))
    # ---- branch specific conclusions of the theorems -------------------------------------
    if not spy.fallback:
        if branch == "detonation":
            if not (same(vp, vw) and same(Tp, h.Tnucl)):
                bads.append(("detonation does not return vp=vw, Tp=Tn: vp=%.15g Tp=%.15g" % (
                    vp, Tp), "deton-form"))
        else:
            vmsq = min(vw * vw, float(th.csqLowT(Tm)))
            if abs(vm * vm - vmsq) > 1e-12:
                bads.append(("vm^2 = %.15g but min(vw^2, cs^2(Tm)) = %.15g" % (
                    vm * vm, vmsq), "vm-rule"))
            if info is not None and not same(float(info["vp"]), vp):
                bads.append(("returned vp=%.15g is not the shooting value %.15g of the final "
                             "2x2 solve" % (vp, float(info["vp"])), "vp-not-shooting-root"))
            if info is not None and hsucc != info["accepted"]:
                bads.append(("Hydrodynamics.success = %r but the final solve has success=%r, "
                             "sum fun^2 = %.3g" % (hsucc, info["hybr_ok"], info["ssq"]),
                             "success-flag"))
    # ---- the template fallback (last sentence of the property) ------------------------------
    if spy.fallback and branch != "detonation":
        ctx.count("fallback_used", bucket=branch)
        exists, where = exact_matching_exists(h, vw)
        rec["fallback_exact_exists"] = exists
        # is the returned (fallback) matching itself an exact one?  both fluxes conserved
        # (judged above) and its shock reaches Tn: then nothing was approximated
        returned_exact = shock_ok is True and re_ <= tolc and rm_ <= tolc
        rec["fallback_result_exact"] = returned_exact
        if exists:
            ex = refine_exact(h, vw, where)
            # mechanism of slow-wall-template-fallback: the exact v+ lies below the recorded
            # bracket floor 1e-3 (refined root, not the scan cell)
            slow_mech = ex is not None and ex[0] < VB_FLOOR
            if ex is not None and not returned_exact:
                dev = max(abs(a - b) / max(abs(b), 1e-300) for a, b in zip(
                    (vp, Tp, Tm), (ex[0], ex[2], ex[3])))
                # the shooting residual is known to ~rtol, so v+ is known to ~rtol ABSOLUTE
                # (rtol/vp relative) and further limited by the heating
                d = h.rtol + h.atol / min(ex[0], ex[2], ex[3]) + h.rtol / ex[0] + \
                    h.rtol / max(abs(ex[2] / h.Tnucl - 1), 1e-12)
                tolx = K_FLUX * d / ((1 - ex[0] ** 2) * (1 - ex[1] ** 2))
                rec["fallback_dev"] = dev
                if dev > tolx and not any(k in ("energy-flux", "momentum-flux")
                                          for _, k in bads):
                    bads.append((
                        "template fallback returned for vw=%.6g although an exact matching "
                        "exists: exact (vp,Tp,Tm)=(%.9g,%.9g,%.9g), returned (%.9g,%.9g,"
                        "%.9g), rel. deviation %.3g > %.3g" % (
                            vw, ex[0], ex[2], ex[3], vp, Tp, Tm, dev, tolx), "fallback"))
    return report(state, slow_mech, spy.fallback)


def check_model_constants(ctx, case, th, h):
    """vJ and vMin are taken from the code to label branches and to choose the range: judge
    them where an independent value exists"""
    if h.vBracketLow != VB_FLOOR or not (h.vMin == VB_FLOOR or h.vMin > VB_FLOOR):
        ctx.fail_input("vBracketLow = %r, vMin = %r: the documented floor is 1e-3 [%s]" % (
            h.vBracketLow, h.vMin, case["kind"]), dict(case=case, vw=h.vMin, kind="floor",
                                                       rtol=h.rtol, atol=h.atol),
            key="vBracketLow-changed")
    if case["kind"] in ("template", "bag"):
        # constant sound speeds: the template closed form (C15: Chapman-Jouguet point) is exact
        ctx.count("vJ_checked")
        if abs(h.vJ - h.template.vJ) > 1e-5 * h.template.vJ:
            ctx.fail_input("Jouguet velocity %.12g, closed form %.12g [%s]" % (
                h.vJ, h.template.vJ, case["kind"]), dict(case=case, vw=h.vJ, kind="vJ",
                                                         rtol=h.rtol, atol=h.atol), key="vJ")
    if h.vMin > 2 * VB_FLOOR and case["kind"] in ("template", "bag"):
        # shock-limited minimal velocity: 10% below it no matching may exist (equations of
        # state that are physical at every temperature only)
        ctx.count("vMin_checked")
        vw = 0.9 * h.vMin
        exists, where = exact_matching_exists(h, vw)
        if exists:
            ex = refine_exact(h, vw, where)
            if ex is not None and ex[0] > 1e-4 and float(th.csqLowT(ex[3])) > 0:
                ctx.fail_input(
                    "vMin = %.9g but an exact matching exists at vw = %.9g: %r [%s]" % (
                        h.vMin, vw, ex, case["kind"]),
                    dict(case=case, vw=vw, kind="vMin", rtol=h.rtol, atol=h.atol),
                    key="vMin-too-large")


def call_result(h, method, vw):
    try:
        r = getattr(h, method)(vw)
        return tuple(None if x is None else float(x) for x in r)
    except Exception as ex:
        return ("raised", type(ex).__name__)


def check_histories(ctx, case, th, pristine, rng, full=False, factory=None):
    """call histories on ONE object against a fresh object per call: findMatching and
    findHydroBoundaries are functions of vw only (the class keeps no state they may read)"""
    import copy
    h0 = pristine
    vJ, vmin = h0.vJ, max(h0.vMin, 1e-3)
    cb = math.sqrt(max(float(th.csqLowT(h0.Tnucl)), 1e-6))
    anchors = [("vJ", vJ)] + ([("cb", cb)] if vmin < cb < vJ else []) + [("vMin", vmin)]
    eps = [1e-9, 3e-6, 1e-4]
    for name, v0 in anchors:
        for e in (eps if full else [rng.choice(eps)]):
            for order in ((1 - e, 1 + e), (1 + e, 1 - e)):
                shared = copy.copy(h0)
                shared.doesPhaseTraceLimitvmax = [False, False]
                hist = []
                meths = rng.choice([("findHydroBoundaries",) * 3,
                                    ("findMatching",) * 3,
                                    ("findMatching", "findHydroBoundaries", "findMatching"),
                                    ("findHydroBoundaries", "findMatching",
                                     "findHydroBoundaries")])
                for k, fac in enumerate(order + (order[0],)):
                    vw = v0 * fac
                    if not 1e-3 <= vw <= 0.99:
                        continue
                    meth = meths[k] if vw >= h0.vMin else "findMatching"
                    if factory is not None:
                        fresh = factory()      # newly built model, template and solver
                    else:
                        fresh = copy.copy(h0)
                        fresh.doesPhaseTraceLimitvmax = [False, False]
                    a, b = call_result(shared, meth, vw), call_result(fresh, meth, vw)
                    hist.append((meth, vw))
                    ctx.count("history_call", bucket=name)
                    def eqv(x, y):
                        if isinstance(x, float) and isinstance(y, float):
                            return (math.isnan(x) and math.isnan(y)) or same(x, y, 4)
                        return x == y
                    if not (len(a) == len(b) and all(eqv(x, y) for x, y in zip(a, b))):
                        ctx.fail_input(
                            "%s(%.12g) after the calls %r on the same object returns %r, a "
                            "fresh object returns %r [%s]" % (meth, vw, hist[:-1], a, b,
                                                            case["kind"]),
                            dict(case=case, vw=vw, history=hist, shared=a, fresh=b,
                                 rtol=h0.rtol, atol=h0.atol, kind="history"),
                            key="history-dependence")
                        break


# ------------------------------------------------------------------------------------
# certified correspondence model <-> implementation

def q(x):
    return pyrx.rlit(Fraction(float(x)))


def poly_eos(case):
    """Coq text of the EOS functions of a bag / two-step model (polynomials in T)"""
    u = Fraction(case.get("unit", 1.0))
    if case["kind"] == "bag":
        psi = Fraction(str(case["psi"]))
        eps = Fraction(float(1.0 - case["psi"]))     # the class computes 1.-psi in floats
        pH = {4: Fraction(1), 0: -eps * u ** 4}
        pL = {4: psi, 0: Fraction(0)}
    else:
        aL, aH, mu = (Fraction(str(case[k])) for k in ("abrok", "asym", "musq"))
        k0 = aL - aH - mu
        # T^4 + (k0 + aH T^2)^2 - mu^2
        pH = {4: 1 + aH ** 2, 2: 2 * k0 * aH / 1 * u ** 2, 0: (k0 ** 2 - mu ** 2) * u ** 4}
        pL = {4: 1 + aL ** 2, 2: -2 * aL * mu * u ** 2, 0: Fraction(0)}

    def poly(c):
        return "(" + " + ".join("%s * T ^ %d" % (pyrx.rlit(v), k) for k, v in
                                sorted(c.items())) + ")"

    def d(c):
        return {k - 1: v * k for k, v in c.items() if k > 0}
    out = {}
    for ph, p in (("High", pH), ("Low", pL)):
        dp, ddp = d(p), d(d(p))
        out["p" + ph] = "(fun T : R => %s)" % poly(p)
        out["e" + ph] = "(fun T : R => T * %s - %s)" % (poly(dp), poly(p))
        out["w" + ph] = "(fun T : R => T * %s)" % poly(dp)
        out["csq" + ph] = "(fun T : R => %s / (T * %s))" % (poly(dp), poly(ddp))
    return out


EVAL_HDR = """From Coq Require Import Reals Lra.
From Interval Require Import Tactic.
From WG Require Import Lib.NumpySem Lib.HydroMatch.
From GenC02 Require Import HydroGen.
Local Open Scope R_scope.
Definition e0 : env := mk_env %(Tn)s %(TMax)s %(TMin)s %(vMin)s %(vJ)s
  %(pHigh)s %(pLow)s %(eHigh)s %(eLow)s %(wHigh)s %(wLow)s %(csqHigh)s %(csqLow)s.
Ltac ne := first [apply Rlt_not_eq; interval with (i_prec 64)
                 |apply Rgt_not_eq; interval with (i_prec 64)].
Ltac ev :=
  cbv beta iota zeta delta [matching_given matching_lte deflag_result_given
    deflag_result_lte tmFromvpsq deton_result findHydroBoundaries vpvmAndvpovm gammaSq
    _mappingT _inverseMappingT fst snd e0 Tnucl TMaxHydro TMinHydro vMin vJ pHighT pLowT
    eHighT eLowT wHighT wLowT csqHighT csqLowT];
  repeat match goal with
  | |- context [Req_EM_T ?a ?b] =>
      destruct (Req_EM_T a b) as [E|E]; [exfalso; revert E; ne|]; clear E
  | |- context [Rlt_dec ?a ?b] =>
      destruct (Rlt_dec a b) as [E|E]; [exfalso; revert E; apply Rle_not_lt; interval|];
      clear E
  | |- context [Rmin ?a ?b] =>
      first [rewrite (Rmin_left a b) by interval with (i_prec 64)
            |rewrite (Rmin_right a b) by interval with (i_prec 64)]
  | |- context [Rmax ?a ?b] =>
      first [rewrite (Rmax_left a b) by interval with (i_prec 64)
            |rewrite (Rmax_right a b) by interval with (i_prec 64)]
  end;
  cbv beta iota delta [negb fst snd];
  interval with (i_prec 64).
"""


def tup(n, i, term):
    """i-th component of a Coq n-tuple term"""
    return pyrx.proj(term, i, n)


def eval_file(case, h, rows):
    eos = poly_eos(case)
    hdr = EVAL_HDR % dict(Tn=q(h.Tnucl), TMax=q(h.TMaxHydro), TMin=q(h.TMinHydro),
                          vMin=q(h.vMin), vJ=q(h.vJ), **eos)
    goals = []
    for term, y, scale in rows:
        tol = Fraction(float(abs(scale))) / 10 ** 9 + Fraction(1, 10 ** 30)
        goals.append("Goal Rabs (%s - %s) <= %s.\nProof. ev. Qed." % (term, q(y),
                                                                     pyrx.rlit(tol)))
    return hdr + "\n".join(goals) + "\n"


def correspondence_rows(ctx, case, th, h, rng):
    """values of the real closures / methods, with the Coq term that must reproduce them"""
    rows = []
    Tn = h.Tnucl
    vJ = h.vJ
    # vpvmAndvpovm at a few points
    for _ in range(2):
        Tp = Tn * rng.uniform(1.0, 1.3)
        Tm = Tn * rng.uniform(0.9, 1.25)
        a, b = h.vpvmAndvpovm(Tp, Tm)
        t = "(vpvmAndvpovm e0 %s %s)" % (q(Tp), q(Tm))
        rows += [(tup(2, 0, t), a, a), (tup(2, 1, t), b, b)]
    # the deflagration / hybrid residual closure and result, vp given
    vw = rng.uniform(max(h.vMin, 0.05), vJ - 0.01)
    vp = vw * rng.uniform(0.6, 0.95)
    with Spy(h) as spy:
        res = h.matchDeflagOrHyb(vw, vp)
        fun, sol = spy.last("root", "matching")
    Tpm0 = [float(x) for x in cell(fun, "Tpm0")]
    t0 = "(%s, %s)" % (q(Tpm0[0]), q(Tpm0[1]))
    xs = [list(map(float, sol.x)),
          list(map(float, h._mappingT([Tn * rng.uniform(1.0, 1.2),
                                       Tn * rng.uniform(0.9, 1.1)])))]
    # (each residual goal costs ~5 s of interval arithmetic: one generic point per mode;
    # the solver's final point is covered by the deflag_result goals)
    for x in xs[1:]:
        y = fun(x)
        t = "(matching_given e0 %s %s %s (%s, %s))" % (q(vw), q(vp), t0, q(x[0]), q(x[1]))
        sc = max(abs(float(y[0])), abs(float(y[1])), 1.0)
        rows += [(tup(2, 0, t), float(y[0]), sc), (tup(2, 1, t), float(y[1]), sc)]
    t = "(deflag_result_given e0 %s %s (%s, %s))" % (q(vw), q(vp), q(xs[0][0]), q(xs[0][1]))
    for i in range(4):
        rows.append((tup(4, i, t), float(res[i]), float(res[i])))
    # vp from entropy conservation
    x2 = list(map(float, h._mappingT([Tn * rng.uniform(1.0, 1.05),
                                      Tn * rng.uniform(0.97, 1.0)])))
    with Spy(h) as spy:
        # the closure reads the enclosing `vp`, which the method overwrites after the
        # solve: evaluate it while the solve is live
        spy.probe_at["matching"] = [x2]
        res = h.matchDeflagOrHyb(vw)
        fun, sol = spy.last("root", "matching")
    Tpm0 = [float(x) for x in cell(fun, "Tpm0")]
    t0 = "(%s, %s)" % (q(Tpm0[0]), q(Tpm0[1]))
    x = list(map(float, sol.x))
    for xx, y in spy.probed["matching"][:1]:
        xx = list(map(float, xx))
        t = "(matching_lte e0 %s %s (%s, %s))" % (q(vw), t0, q(xx[0]), q(xx[1]))
        sc = max(abs(float(y[0])), abs(float(y[1])), 1.0)
        rows += [(tup(2, 0, t), float(y[0]), sc), (tup(2, 1, t), float(y[1]), sc)]
    t = "(deflag_result_lte e0 %s (%s, %s))" % (q(vw), q(x[0]), q(x[1]))
    for i in range(4):
        rows.append((tup(4, i, t), float(res[i]), float(res[i])))
    # detonation residual and result
    vwd = rng.uniform(vJ + 0.01, 0.98)
    with Spy(h) as spy:
        res = h.matchDeton(vwd)
        fun, r = spy.last("root_scalar", "tmFromvpsq")
    for tm in (float(res[3]), Tn * rng.uniform(1.0, 1.5)):
        y = float(fun(tm))
        sc = abs(float(th.eHighT(Tn)))
        rows.append(("(tmFromvpsq e0 %s %s)" % (q(vwd), q(tm)), y, sc))
    t = "(deton_result e0 %s %s)" % (q(vwd), q(res[3]))
    for i in range(4):
        rows.append((tup(4, i, t), float(res[i]), float(res[i])))
    # boundary constants from a matching
    with Spy(h) as spy:
        hb = h.findHydroBoundaries(vwd)
        m = spy.matchings[-1]
    t = "(findHydroBoundaries e0 %s %s %s %s %s)" % (q(vwd), q(m[0]), q(m[1]), q(m[2]),
                                                  q(m[3]))
    for i in range(5):
        rows.append((tup(5, i, t), float(hb[i]), float(hb[i])))
    return rows


# ------------------------------------------------------------------------------------

def generate(ctx):
    srcs = {n: vlib.read_src(n) for n in ("hydrodynamics.py", "hydrodynamicsTemplateModel.py",
                                          "helpers.py", "equationOfMotion.py")}
    text, spans, notes, _ = gen_hydro_match.generate(
        srcs["hydrodynamics.py"], srcs["hydrodynamicsTemplateModel.py"], srcs["helpers.py"],
        srcs["equationOfMotion.py"])
    ctx.write("HydroGen.v", text, sources=dict(
        files={"src/WallGo/" + n: vlib.sha(s) for n, s in srcs.items()}, spans=spans,
        cuts=list(notes)))
    return notes


def run(ctx):
    gen_ok = True
    try:
        notes = generate(ctx)
    except pyrx.TranslateError as e:
        ctx.log("translator failed:", e)
        ctx.broken.append("translator: %s" % e)
        gen_ok = False
    proved = gen_ok and ctx.prove(extra=["HydroGen.v"])
    ctx.trusted += ["tools/pyrx.py + tools/gen_hydro_match.py (AST translator, solver "
                    "slicing rule)",
                    "Interval tactic (certified evaluation; kernel primitive floats/ints)",
                    "harness-side wrappers around scipy root/root_scalar/minimize_scalar "
                    "(observation only)"]
    rng = ctx.rng
    stats = []
    # ---- direct validation on the implementation (always) -----------------------------
    for case, vw in RECORDED:
        try:
            th = build_model(case)
            h = make_hydro(th, case.get("rtol", RTOL), case.get("atol", ATOL),
                           case.get("tmax", TMAX), case.get("tmin", TMIN))
            check_point(ctx, case, th, h, h.vJ if vw == "vJ" else vw, None)
        except Exception:
            ctx.log("recorded input raised", json.dumps(case), traceback.format_exc())
            ctx.broken.append("harness: recorded input raised")
    reported = set(ctx.known_count) | {v["key"] for v in ctx.violations}
    for key in RECORDED_KEYS:
        if key not in reported:
            ctx.log("KNOWN-FINDING-GONE:", key)
            ctx.fail_input("the recorded finding %s no longer reproduces on any of its "
                           "recorded inputs" % key, dict(case={}, vw=0, kind="recorded"),
                           key=key + ":no-longer-reproduces")
    nmodels = ctx.n(14, 160)
    nvw = ctx.n(15, 21)
    # ---- certified correspondence: files written and coqc started now, collected below --
    procs = []
    if proved:
        for m in range(ctx.n(2, 8)):
            case = gen_case(rng, kind=["bag", "2step"][m % 2])
            try:
                th = build_model(case)
                h = make_hydro(th)
                allrows = correspondence_rows(ctx, case, th, h, rng)
                # the residual goals (atan, many operations) take ~5 s each: small files,
                # all compiled in parallel with the direct validation below
                for c in range(0, len(allrows), 6):
                    rows = allrows[c:c + 6]
                    p = ctx.write("Cases/Eval_%d_%d.v" % (m, c // 6),
                                  eval_file(case, h, rows))
                    procs.append(("%d_%d" % (m, c // 6), case, rows, p, subprocess.Popen(
                        ["timeout", "600", "coqc"] + ctx.coq_args() + [p], cwd=ctx.bdir,
                        stdout=subprocess.PIPE, stderr=subprocess.PIPE, text=True)))
            except Exception:
                ctx.log("correspondence rows failed", json.dumps(case),
                        traceback.format_exc())
                ctx.broken.append("harness: correspondence rows raised")
    t0 = time.time()
    for m in range(nmodels):
        case = gen_case(rng)
        # both the tests' setting rtol = atol = 1e-6 and the library defaults 1e-6 / 1e-10
        # (rtol != atol: the two tolerances are distinguishable); kept in the case record
        case["rtol"], case["atol"] = rng.choice(TOL_PAIRS)
        case["tmax"], case["tmin"] = rng.choice([(10.0, 0.01), (10.0, 0.01), (6.0, 0.03)])
        if case["kind"] == "template":
            case["wn"] = rng.choice([1, 1, 0.37, 12.5])
        try:
            th = build_model(case)
            h = make_hydro(th, case["rtol"], case["atol"], case["tmax"], case["tmin"])
            import copy
            pristine = copy.copy(h)
        except Exception as ex:
            ctx.count("model_rejected", bucket=type(ex).__name__)
            continue
        ctx.count("model", case, bucket="%s rtol=%g atol=%g" % (case["kind"], case["rtol"],
                                                              case["atol"]))
        vws = wall_velocities(rng, h, nvw)
        # the deflagration/hybrid switch is at vw = cs(T-), not at cs(Tn): when the sound
        # speed behind the wall depends on temperature, probe between the two
        try:
            cbn = math.sqrt(float(th.csqLowT(h.Tnucl)))
            if h.vMin < cbn < h.vJ:
                Tm_ = float(h.findMatching(cbn)[3])
                cbm = math.sqrt(max(float(th.csqLowT(Tm_)), 0.0))
                if abs(cbm - cbn) > 1e-6 and h.vMin < cbm < h.vJ:
                    vws += [0.5 * (cbn + cbm), cbn + 0.9 * (cbm - cbn)]
        except Exception:
            pass
        for vw in vws:
            try:
                with time_limit(120):
                    check_point(ctx, case, th, h, vw, stats)
                    if case["kind"] == "template":
                        check_template_class(ctx, case, th, h, vw)
            except TimeoutError as ex:
                ctx.fail_input("findHydroBoundaries / findMatching(vw=%.9g): %s [%s]" % (
                    vw, ex, case["kind"]), dict(case=case, vw=vw, kind="timeout"),
                    key="timeout")
            except Exception:
                ctx.log("harness exception at", json.dumps(case), vw,
                        traceback.format_exc())
                ctx.broken.append("harness: check_point raised")
        try:
            check_model_constants(ctx, case, th, pristine)
            if m % ctx.n(2, 1) == 0:
                check_histories(
                    ctx, case, th, pristine, rng, full=not ctx.quick,
                    factory=lambda: make_hydro(build_model(case), case["rtol"], case["atol"],
                                               case["tmax"], case["tmin"]))
        except Exception:
            ctx.log("harness exception in histories", json.dumps(case),
                    traceback.format_exc())
            ctx.broken.append("harness: check_histories raised")
        if m == 0:
            ctx.sample(dict(case=case, vJ=h.vJ, vMin=h.vMin,
                            first={k: v for k, v in stats[-1].items() if k != "bad"}
                            if stats else None))
    ctx.log("direct validation: %d matchings in %.1fs" % (len(stats), time.time() - t0))
    # one numerically traced potential (real FreeEnergy tables)
    for _ in range(ctx.n(1, 4)):
        case = dict(kind="traced", D=rng.choice([0.15, 0.2]), E=0.05,
                    lam=rng.choice([0.08, 0.1]), T0=rng.choice([60.0, 80.0]))
        try:
            import wgmodels
            ex = wgmodels.quartic1_exact(D=case["D"], E=case["E"], lam=case["lam"],
                                         T0=case["T0"], g=100.0)
            case["Tn"] = round(ex["Tc"] - (ex["Tc"] - case["T0"]) * rng.uniform(0.2, 0.5),
                               3)
            th = build_model(case)
            h = make_hydro(th)
            import copy
            check_histories(ctx, case, th, copy.copy(h), rng)
            ctx.count("model", case, bucket="traced")
            for vw in wall_velocities(rng, h, ctx.n(6, 12)):
                check_point(ctx, case, th, h, vw, stats)
        except Exception:
            ctx.log("traced model raised", json.dumps(case), traceback.format_exc())
            ctx.broken.append("harness: traced model raised")
    good = [r for r in stats if "bad" not in r]
    for fld, name in (("mis_over_bound", "flux mismatch / bound derived from the residual"),
                      ("dist_over_tol", "distance to the exact zero / tolerance"),
                      ("relres", "relative residual of a successful 2x2 solve"),
                      ("shock_over_tol", "shock condition at the requested vw / tolerance")):
        vals = [r for r in good if fld in r]
        if vals:
            w = max(vals, key=lambda r: r[fld])
            ctx.log("worst %s: %.3g (vw %.4f, %s)" % (name, w[fld], w["vw"], w["branch"]))
            ctx.cov["worst_" + fld] = w[fld]
    # ---- coverage floors (fail closed) ---------------------------------------------------
    cc = ctx.cov["correspondence"]
    dist = ctx.cov["distribution"]
    npts = cc.get("point", 0)
    floors = [("matching", ctx.n(100, 1500)), ("derived_bound", ctx.n(80, 1200)),
              ("boundaries", ctx.n(100, 1500)), ("history_call", ctx.n(40, 1500))]
    for k, n in floors:
        if cc.get(k, 0) < n:
            ctx.broken.append("coverage: only %d %s (floor %d)" % (cc.get(k, 0), k, n))
    for br in ("deflagration", "hybrid", "detonation"):
        got = sum(v for b, v in dist.get("matching", {}).items() if b.endswith("/" + br))
        if got < ctx.n(15, 200):
            ctx.broken.append("coverage: only %d %s matchings" % (got, br))
    if cc.get("raised", 0) + cc.get("no_solution", 0) > 0.2 * max(npts, 1):
        ctx.broken.append("coverage: %d of %d points returned no matching" % (
            cc.get("raised", 0) + cc.get("no_solution", 0), npts))
    # ---- collect the certified evaluations ---------------------------------------------
    for m, case, rows, p, pr in procs:
        out, err = pr.communicate()
        for _ in rows:
            ctx.count("certified_eval")
        if pr.returncode != 0:
            ctx.broken.append("correspondence: certified evaluation Eval_%s" % m)
            ctx.log("certified evaluation failed", vlib.tail(err, 8))
            ctx.log("model", json.dumps(case))
    ctx.log("certified evaluations: %d files" % len(procs))
    ctx.cov["rule"] = (
        "models: random bag (psi 0.5..0.98), two-step (a_broken 0.15..0.3, a_sym, mu^2) "
        "and template (alN 1e-3..0.3 above (1-psiN)/3, psiN 0.5..0.99, cb2<=cs2 in "
        "0.2..1/3) equations of state, nucleation temperature 0.5..0.97 Tc in units spanning "
        "1e-3..2.5e3, with (rtol,atol) = (1e-6,1e-6) or the library defaults (1e-6,1e-10), "
        "plus a traced quartic potential; per model wall velocities at vMin, "
        "just below/above cs(-), just below/above vJ, 0.9..0.99, 0.99 and uniform; "
        "distinct = distinct (model, vw)")
    ctx.assumptions += [
        "scipy root(hybr)/brentq return a zero of the residual they are given (validated: "
        "residual at the returned point, sign change within 4(atol+rtol T))",
        "w = e + p for the equation of state (proved for the generated Thermodynamics in "
        "C10; checked numerically on every model here)",
        "sign conditions e+ + p- > 0, e- + p+ > 0, e+ <> e-, cs^2(T-) > 0 at the returned "
        "matching (checked on every returned matching)"]


def replay(rep):
    print(json.dumps({k: v for k, v in rep.items() if k != "case"}, indent=1))
    case, vw = rep["case"], rep["vw"]
    th = build_model(case)
    h = make_hydro(th, rep.get("rtol", case.get("rtol", RTOL)),
                   rep.get("atol", case.get("atol", ATOL)), case.get("tmax", TMAX),
                   case.get("tmin", TMIN))
    if rep.get("kind") == "history":
        for meth, v in rep["history"]:
            print(meth, v, call_result(h, meth, v))
        print("fresh object:", call_result(make_hydro(th, h.rtol, h.atol), *rep["history"][-1]))
        return 0
    if rep.get("solver") == "template":
        r = h.template.findMatching(vw)
        print("template.findMatching(%r) = %r" % (vw, r))
        e1, e2, m1, m2 = fluxes(th, *map(float, r))
        print("energy flux   %.15g | %.15g" % (e1, e2))
        print("momentum flux %.15g | %.15g" % (m1, m2))
        print("template.findHydroBoundaries", h.template.findHydroBoundaries(vw))
        return 0
    r = h.findMatching(vw)
    print("vJ=%r vMin=%r findMatching(%r) = %r success=%r" % (h.vJ, h.vMin, vw, r,
                                                              h.success))
    if r[0] is not None:
        e1, e2, m1, m2 = fluxes(th, *map(float, r))
        print("energy flux   %.15g | %.15g" % (e1, e2))
        print("momentum flux %.15g | %.15g" % (m1, m2))
        print("tolerance (relative) %.3g" % flux_tolerance(h, *map(float, r)))
        print("findHydroBoundaries", h.findHydroBoundaries(vw))
    return 0
