"""C02 -- energy and momentum flux are conserved across the wall."""
import json
import math
import os
import subprocess
import sys
import time
import traceback
from fractions import Fraction

import numpy as np

import gen_hydro_match
import pyrx
import vlib

EXPLANATION = (
    "The closed-form code around the scipy solvers of Hydrodynamics (vpvmAndvpovm, the "
    "residual closures `matching` (both modes of vp) and `tmFromvpsq`, the assembly of the "
    "returned (vp,vm,Tp,Tm), findHydroBoundaries, helpers.gammaSq) is regenerated from the "
    "source by the pyrx translator with a generic solver-slicing rule. Coq proves for EVERY "
    "equation of state with w=e+p: the junction relations the code solves are equivalent to "
    "conservation of energy and momentum flux; every zero of the generated residuals gives "
    "a returned matching with equal fluxes and vm^2=min(vw^2,cs^2(Tm)) (deflagration/hybrid) "
    "resp. vp=vw,Tp=Tn (detonation); every exact matching in the temperature window is a "
    "zero of the residual; c1=-energy flux and c2=momentum flux on both sides; an explicit "
    "bound turns a small residual into a small flux mismatch. The generated formulas are "
    "compared with the running closures by certified interval evaluation, and the property "
    "itself is evaluated on the real solver over bag, two-step, template and traced "
    "equations of state, nucleation temperatures over five decades and wall velocities from "
    "vMin to 0.99 (flux mismatch, boundary constants, success flag, template fallback).")

RTOL = ATOL = 1e-6
TOL_PAIRS = [(1e-6, 1e-6), (1e-6, 1e-10), (1e-6, 1e-10)]
TMAX, TMIN = 10.0, 0.01
# flux mismatch allowed, relative to the larger flux:  K_FLUX * delta * gamma_+^2 gamma_-^2,
# delta = rtol + atol/T the relative accuracy requested from the root finders.  Calibrated on
# the unchanged tree (see report): worst ratio mismatch/(delta g+^2 g-^2) observed = 4.5 (thorough tier, 2536 matchings; detonation at vw=0.737): margin factor 3.3
K_FLUX = 15.0


# ------------------------------------------------------------------------------------
# equations of state (classes from the repo's tests, rescaled to any temperature unit)

def _test_classes():
    root = vlib.REPO
    for p in (root, os.path.join(root, "tests")):
        if p not in sys.path:
            sys.path.insert(0, p)
    from tests.test_Hydrodynamics import TestModel2Step, TestModelBag, FreeEnergyHack
    from tests.test_HydroTemplateModel import TestModelTemplate
    return TestModel2Step, TestModelBag, TestModelTemplate, FreeEnergyHack


def scaled(base, u):
    """the same equation of state with temperatures measured in a unit u times larger:
    p_u(T) = u^4 p(T/u). A real WallGo.Thermodynamics subclass (e, w, csq are the code's)."""
    import WallGo
    _, _, _, Hack = _test_classes()

    class Scaled(WallGo.Thermodynamics):
        def __init__(self):
            self.base = base
            self.u = u
            self.Tnucl = base.Tnucl * u
            self.TMinHighT, self.TMaxHighT = base.TMinHighT * u, base.TMaxHighT * u
            self.TMinLowT, self.TMaxLowT = base.TMinLowT * u, base.TMaxLowT * u
            fh, fl = base.freeEnergyHigh, base.freeEnergyLow
            self.freeEnergyHigh = Hack(
                minPossibleTemperature=[fh.minPossibleTemperature[0] * u, False],
                maxPossibleTemperature=[fh.maxPossibleTemperature[0] * u, False])
            self.freeEnergyLow = Hack(
                minPossibleTemperature=[fl.minPossibleTemperature[0] * u, False],
                maxPossibleTemperature=[fl.maxPossibleTemperature[0] * u, False])

        def pHighT(self, T):
            return u ** 4 * base.pHighT(T / u)

        def dpHighT(self, T):
            return u ** 3 * base.dpHighT(T / u)

        def ddpHighT(self, T):
            return u ** 2 * base.ddpHighT(T / u)

        def pLowT(self, T):
            return u ** 4 * base.pLowT(T / u)

        def dpLowT(self, T):
            return u ** 3 * base.dpLowT(T / u)

        def ddpLowT(self, T):
            return u ** 2 * base.ddpLowT(T / u)

    return Scaled()


def build_model(case):
    """case dict -> Thermodynamics object"""
    M2, MB, MT, _ = _test_classes()
    k = case["kind"]
    if k == "2step":
        base = M2(case["abrok"], case["asym"], case["musq"], case["Tn0"])
    elif k == "bag":
        base = MB(case["psi"], case["Tn0"])
    elif k == "template":
        return MT(case["alN"], case["psiN"], case["cb2"], case["cs2"], case["Tn"],
                  case["Tn"])
    elif k == "traced":
        return traced_thermo(case)
    else:
        raise ValueError(k)
    u = case.get("unit", 1.0)
    return base if u == 1.0 else scaled(base, u)


def traced_thermo(case):
    """real FreeEnergy tables traced on the closed-form quartic potential"""
    import WallGo
    import wgmodels
    from WallGo import Fields, Thermodynamics
    pot = wgmodels.quartic1(D=case["D"], E=case["E"], lam=case["lam"], T0=case["T0"])
    ex = wgmodels.quartic1_exact(**pot.params)
    pot.configureDerivatives(WallGo.VeffDerivativeSettings(
        temperatureVariationScale=1.0, fieldValueVariationScale=10.0))
    Tn = case["Tn"]
    th = Thermodynamics(pot, Tn, Fields([ex["phi_broken"](Tn)]), Fields([0.0]))
    dT = 0.004 * Tn
    th.freeEnergyHigh.tracePhase(case["T0"] + 0.2, ex["Tspin_broken"] * 1.3, dT,
                                 rTol=1e-8)
    th.freeEnergyLow.tracePhase(0.7 * case["T0"], ex["Tspin_broken"] * 0.9995, dT,
                                rTol=1e-8)
    th.setExtrapolate()
    return th


def gen_case(rng, kind=None):
    kind = kind or rng.choice(["2step", "2step", "bag", "bag", "template", "template"])
    unit = 10.0 ** rng.choice([-3, -3, -2, -1, 0, 0, 1, 2, 3]) * rng.choice([1.0, 1.0, 2.5])
    if kind == "2step":
        ab = round(rng.uniform(0.15, 0.3), 3)
        return dict(kind=kind, abrok=ab, asym=round(ab * rng.uniform(0.3, 0.7), 3),
                    musq=round(rng.uniform(0.3, 0.5), 3),
                    Tn0=round(rng.uniform(0.5, 0.97), 3), unit=unit)
    if kind == "bag":
        return dict(kind=kind, psi=round(rng.uniform(0.5, 0.98), 3),
                    Tn0=round(rng.uniform(0.5, 0.97), 3), unit=unit)
    psiN = round(rng.uniform(0.5, 0.99), 3)
    cs2 = round(rng.uniform(0.2, 1 / 3), 4)
    cb2 = round(rng.uniform(0.2, cs2), 4)
    if rng.random() < 0.5:                       # both orderings of the sound speeds
        cb2 = round(rng.uniform(cs2, 1 / 3), 4)
    alN = round((1 - psiN) / 3 + 10.0 ** rng.uniform(-3, -0.5), 5)
    return dict(kind="template", alN=alN, psiN=psiN, cb2=cb2, cs2=cs2,
                Tn=unit * round(rng.uniform(0.5, 2.0), 3))


def make_hydro(th, rtol=RTOL, atol=ATOL):
    import WallGo
    return WallGo.Hydrodynamics(th, TMAX, TMIN, rtol, atol)


# ------------------------------------------------------------------------------------
# instrumentation (harness side only): record what the solvers were given / returned

class Spy:
    """patches the solver names inside WallGo.hydrodynamics while active"""

    def __init__(self, hydro):
        self.h = hydro
        self.calls = []            # (solver name, fun, result)
        self.fallback = 0
        self.matchings = []
        self.probe_at = {}         # closure name -> points at which to evaluate it while
        self.probed = {}           # the enclosing call is still live (its variables as at
        #                            solve time): closure name -> [(x, f(x))]

    def __enter__(self):
        import WallGo.hydrodynamics as H
        self.H = H
        self.saved = {n: getattr(H, n) for n in ("root", "root_scalar", "minimize_scalar")}
        spy = self

        def wrap(name):
            orig = self.saved[name]

            def f(fun, *a, **k):
                r = orig(fun, *a, **k)
                spy.calls.append((name, fun, r))
                nm = getattr(fun, "__name__", "")
                if nm in spy.probe_at:
                    pts = list(spy.probe_at[nm]) + [getattr(r, "x", None)
                                                    if name != "root_scalar" else r.root]
                    spy.probed[nm] = [(x, fun(x)) for x in pts if x is not None]
                return r
            return f
        for n in self.saved:
            setattr(H, n, wrap(n))
        self.t_orig = self.h.template.findMatching

        def tfm(vw):
            spy.fallback += 1
            return spy.t_orig(vw)
        self.h.template.findMatching = tfm
        self.fm_orig = self.h.findMatching

        def fm(vw):
            r = spy.fm_orig(vw)
            spy.matchings.append(r)
            return r
        self.h.findMatching = fm
        return self

    def __exit__(self, *a):
        for n, f in self.saved.items():
            setattr(self.H, n, f)
        self.h.template.findMatching = self.t_orig
        self.h.findMatching = self.fm_orig

    def last(self, solver, closure):
        for name, fun, r in reversed(self.calls):
            if name == solver and getattr(fun, "__name__", "") == closure:
                return fun, r
        return None, None


def cell(fun, name):
    return fun.__closure__[fun.__code__.co_freevars.index(name)].cell_contents


# ------------------------------------------------------------------------------------
# the property on the implementation

def fluxes(th, vp, vm, Tp, Tm):
    from WallGo.helpers import gammaSq
    wp, wm = float(th.wHighT(Tp)), float(th.wLowT(Tm))
    return (wp * gammaSq(vp) * vp, wm * gammaSq(vm) * vm,
            wp * gammaSq(vp) * vp ** 2 + float(th.pHighT(Tp)),
            wm * gammaSq(vm) * vm ** 2 + float(th.pLowT(Tm)))


def flux_tolerance(h, vp, vm, Tp, Tm):
    delta = h.rtol + h.atol / min(Tp, Tm)
    return K_FLUX * delta / ((1 - vp * vp) * (1 - vm * vm))


def admissible(th, Tp, Tm):
    eH, eL = float(th.eHighT(Tp)), float(th.eLowT(Tm))
    pH, pL = float(th.pHighT(Tp)), float(th.pLowT(Tm))
    return eH != eL and eH + pL > 0 and eL + pH > 0


def exact_matching_exists(h, vw, n=64):
    """scan the shooting residual Tn(vp) - Tn of findMatching over vp: a sign change means
    an exact deflagration/hybrid matching exists for this wall velocity.  The scan does not
    reuse the code's own bracket: vp runs from 5% of the bracket floor up to vw, keeping the
    points where the shock is ahead of the wall (vp vw <= cs^2(T+))."""
    vpmin = 0.05 * min(h.vBracketLow, vw)
    vals = []
    for k in range(n + 1):
        vp = vpmin + (vw - vpmin) * k / n
        try:
            _, _, Tp, _ = h.matchDeflagOrHyb(vw, vp)
            if not h.success or not vp * vw <= float(h.thermodynamics.csqHighT(Tp)) * (
                    1 + 1e-9):
                continue
            d = h.solveHydroShock(vw, vp, Tp) - h.Tnucl
        except Exception:
            continue
        if math.isfinite(d):
            vals.append((vp, d))
    for (a, da), (b, db) in zip(vals, vals[1:]):
        if da * db < 0:
            return True, (a, b)
    return False, None


def refine_exact(h, vw, bracket):
    """exact deflagration/hybrid matching from a bracket of the shooting residual"""
    from scipy.optimize import brentq

    def f(vp):
        _, _, Tp, _ = h.matchDeflagOrHyb(vw, vp)
        return h.solveHydroShock(vw, vp, Tp) - h.Tnucl
    try:
        vps = brentq(f, bracket[0], bracket[1], xtol=1e-13, rtol=1e-12)
        r = [float(x) for x in h.matchDeflagOrHyb(vw, vps)]
        return r if h.success else None
    except Exception:
        return None


def check_template_class(ctx, case, th, h, vw):
    """the closed-form template solver on a template equation of state: its own matching
    and boundary constants conserve both fluxes exactly (up to rounding and the 1e-100
    regularisation), whatever the accuracy of its shooting root"""
    ht = h.template
    if vw < ht.vMin:
        return
    try:
        m = ht.findMatching(vw)
        hb = ht.findHydroBoundaries(vw)
    except Exception as ex:
        ctx.count("raised", bucket="template:" + type(ex).__name__)
        return
    if m[0] is None:
        ctx.count("template_no_solution")
        return
    vp, vm, Tp, Tm = (float(x) for x in m)
    ctx.count("template_class_matching", dict(case=case, vw=vw),
              bucket="detonation" if vw > ht.vJ else "deflagration/hybrid")
    e1, e2, m1, m2 = fluxes(th, vp, vm, Tp, Tm)
    tol = 1e-9 / ((1 - vp * vp) * (1 - vm * vm))
    re_ = abs(e1 - e2) / max(abs(e1), abs(e2))
    rm_ = abs(m1 - m2) / max(abs(m1), abs(m2))
    c1, c2 = float(hb[0]), float(hb[1])
    bad = None
    if re_ > tol:
        bad = ("template solver: energy flux %.12g in front, %.12g behind (rel %.3g)" % (
            e1, e2, re_), "template-energy-flux")
    elif rm_ > tol:
        bad = ("template solver: momentum flux %.12g in front, %.12g behind (rel %.3g)" % (
            m1, m2, rm_), "template-momentum-flux")
    elif abs(c1 + e1) > 1e-9 * abs(e1) or abs(c1 + e2) > 2 * tol * abs(e1):
        bad = ("template solver: c1 = %.12g, energy flux %.12g | %.12g" % (c1, e1, e2),
               "template-c1")
    elif abs(c2 - m1) > 1e-9 * abs(m1) or abs(c2 - m2) > 2 * tol * abs(m1):
        bad = ("template solver: c2 = %.12g, momentum flux %.12g | %.12g" % (c2, m1, m2),
               "template-c2")
    if bad:
        ctx.fail_input("%s [vw=%.6g]" % (bad[0], vw), dict(
            case=case, vw=vw, solver="template", returned=[vp, vm, Tp, Tm],
            fluxes=[e1, e2, m1, m2], boundaries=[c1, c2], what_fails=bad[0]), key=bad[1])


def wall_velocities(rng, h, n):
    """vw from vMin to 0.99 on all three branches, denser near vMin, cs(-), vJ"""
    vmin = max(h.vMin, 1e-3)
    vJ = h.vJ
    cb = math.sqrt(max(float(h.thermodynamics.csqLowT(h.Tnucl)), 1e-6))
    pts = [vmin * 1.0001 + 1e-6, vmin + (min(cb, vJ) - vmin) * rng.uniform(0.01, 0.2),
           cb * (1 - 10 ** rng.uniform(-4, -2)), cb * (1 + 10 ** rng.uniform(-4, -2)),
           vJ - 10 ** rng.uniform(-5, -2), vJ + 10 ** rng.uniform(-5, -2), 0.99,
           rng.uniform(vJ, 0.99), rng.uniform(0.9, 0.99)]
    while len(pts) < n:
        pts.append(rng.uniform(vmin, 0.99))
    out = [v for v in pts if vmin <= v <= 0.99]
    rng.shuffle(out)
    return out[:n]


GENERIC_KEY = {"energy-flux": "flux-mismatch", "momentum-flux": "flux-mismatch",
               "fallback": "template-fallback-exact-exists"}


def failure_key(h, vw, kind, fallback, success=True, hybr_ok=True):
    """key of a failure class for known_findings.json. Two recorded findings live in the
    corner vMin == vBracketLow (=1e-3), vw < 1.5 vBracketLow:
      slow-wall-unconverged-accepted  hybr stalls (status 5) and the absolute acceptance rule
                                      sum(fun^2) < 1e-6 lets a ~4% flux mismatch through;
      slow-wall-template-fallback     the v+ bracket starts at vBracketLow, the true v+ is
                                      below it, the template approximation is returned.
    The same symptom anywhere else gets the generic key and is a new violation."""
    corner = h.vMin == h.vBracketLow and vw < 1.5 * h.vBracketLow
    if corner and fallback and kind in ("energy-flux", "momentum-flux", "fallback", "c1",
                                        "c2", "range"):
        return "slow-wall-template-fallback"
    if corner and not fallback and kind in ("energy-flux", "momentum-flux", "c1", "c2",
                                            "not-converged"):
        return "slow-wall-unconverged-accepted"
    if success and not hybr_ok and not fallback and kind in ("energy-flux", "momentum-flux",
                                                             "c1", "c2"):
        # same mechanism as slow-wall-unconverged-accepted, but outside that corner: hybr
        # reports failure, sum(fun^2) < 1e-6 (absolute) lets the result through
        return "unconverged-accepted-absolute-threshold"
    if not success and not fallback and kind in ("energy-flux", "momentum-flux", "c1", "c2",
                                                  "not-converged", "range"):
        # findMatching never looks at self.success: the result of a 2x2 solve that did not
        # converge is returned as a matching
        return "unconverged-matching-returned"
    return GENERIC_KEY.get(kind, kind)


RECORDED = [   # inputs of the recorded findings, replayed first on every run
    (dict(kind="2step", abrok=0.2, asym=0.1, musq=0.4, Tn0=0.9, unit=1.0), 0.00101),
    (dict(kind="2step", abrok=0.2, asym=0.1, musq=0.4, Tn0=0.9, unit=1.0), 0.001),
    (dict(kind="2step", abrok=0.261, asym=0.148, musq=0.419, Tn0=0.73, unit=25.0),
     0.0010011),
    # hybr fails (status 2) but the absolute acceptance rule lets it through, vw = 0.0117
    (dict(kind="template", alN=0.03961, psiN=0.885, cb2=0.2544, cs2=0.2362, Tn=1.913),
     0.011661719584618011),
    # unconverged 2x2 solve returned as a matching (hybrid 0.03% below vJ)
    (dict(kind="template", alN=0.19354, psiN=0.571, cb2=0.202, cs2=0.3301, Tn=138.8),
     0.6952983303589946),
]


def check_point(ctx, case, th, h, vw, stats=None):
    """evaluate the property at one wall velocity; returns a record (for calibration)"""
    rec = dict(vw=vw)
    label = dict(case=case, vw=vw, rtol=h.rtol, atol=h.atol)
    branch = "detonation" if vw > h.vJ else (
        "hybrid" if vw * vw > float(th.csqLowT(h.Tnucl)) else "deflagration")
    rec["branch"] = branch
    with Spy(h) as spy:
        try:
            hb = h.findHydroBoundaries(vw)
        except Exception as ex:          # WallGoError etc: no solution returned
            ctx.count("raised", bucket=type(ex).__name__)
            rec["raised"] = repr(ex)
            # a raise is not a conservation failure, but an exact matching may exist
            return rec
        success = h.success
    if not spy.matchings:
        return rec
    vp, vm, Tp, Tm = (None if x is None else float(x) for x in spy.matchings[-1])
    ctx.count("matching", dict(case=case, vw=vw), bucket=case["kind"] + "/" + branch)
    if vp is None:
        ctx.count("no_solution", bucket=branch)
        rec["none"] = True
        return rec
    rec.update(vp=vp, vm=vm, Tp=Tp, Tm=Tm, fallback=spy.fallback, success=success)
    if 0 <= vp <= 10 * h.atol and branch != "detonation":
        # edge of existence (vw -> shock-limited vMin): v+ -> 0 and T- ~ v+^(1/nu) is
        # infinitely sensitive; a v+ below the absolute tolerance carries no information
        ctx.count("degenerate_edge_skipped")
        return rec
    label.update(returned=[vp, vm, Tp, Tm])
    if h.vMin > h.vBracketLow and vw < 1.02 * h.vMin and Tm > 0 and not (
            float(th.csqLowT(Tm)) > 0 and float(th.wLowT(Tm)) > 0):
        # at a shock-limited vMin the exact solution has T- -> TMinHydro; if the equation of
        # state is not physical there (w <= 0 or cs^2 <= 0) the point is outside the
        # quantifier ("positive sound speeds")
        ctx.count("edge_outside_eos_domain_skipped")
        return rec
    bad = None
    if not (0 < vp < 1 and 0 < vm < 1 and Tp > 0 and Tm > 0):
        bad = ("returned values out of range", "range")
    e1, e2, m1, m2 = fluxes(th, vp, vm, Tp, Tm)
    tol = flux_tolerance(h, min(vp, 0.999999), min(vm, 0.999999), abs(Tp) + 1e-300,
                         abs(Tm) + 1e-300)
    re_ = abs(e1 - e2) / max(abs(e1), abs(e2))
    rm_ = abs(m1 - m2) / max(abs(m1), abs(m2))
    rec.update(mis=max(re_, rm_), tol=tol)
    if stats is not None:
        stats.append(rec)
    if not bad and not (re_ <= tol):
        bad = ("energy flux differs across the wall: %.12g vs %.12g (rel %.3g > tol %.3g)"
               % (e1, e2, re_, tol), "energy-flux")
    if not bad and not (rm_ <= tol):
        bad = ("momentum flux differs across the wall: %.12g vs %.12g (rel %.3g > tol "
               "%.3g)" % (m1, m2, rm_, tol), "momentum-flux")
    # boundary constants
    c1, c2, Tpb, Tmb, vmid = (float(x) for x in hb)
    ctx.count("boundaries")
    sc1, sc2 = max(abs(e1), abs(e2)), max(abs(m1), abs(m2))
    if not bad:
        if abs(c1 + e1) > 1e-12 * sc1 or abs(c1 + e2) > 2 * tol * sc1:
            bad = ("c1 = %.12g is not minus the energy flux (%.12g in front, %.12g behind)"
                   % (c1, e1, e2), "c1")
        elif abs(c2 - m1) > 1e-12 * sc2 or abs(c2 - m2) > 2 * tol * sc2:
            bad = ("c2 = %.12g is not the momentum flux (%.12g in front, %.12g behind)"
                   % (c2, m1, m2), "c2")
        elif Tpb != Tp or Tmb != Tm or abs(vmid + 0.5 * (vp + vm)) > 1e-15:
            bad = ("findHydroBoundaries does not pass on the matching: %r vs %r" % (
                (Tpb, Tmb, vmid), (Tp, Tm, -0.5 * (vp + vm))), "boundary-pass")
    # branch specific conclusions of the theorems
    if not bad and not spy.fallback:
        if branch == "detonation":
            if vp != vw or Tp != h.Tnucl:
                bad = ("detonation does not return vp=vw, Tp=Tn", "deton-form")
        else:
            vmsq = min(vw * vw, float(th.csqLowT(Tm)))
            if abs(vm * vm - vmsq) > 1e-12:
                bad = ("vm^2 = %.15g but min(vw^2, cs^2(Tm)) = %.15g" % (vm * vm, vmsq),
                       "vm-rule")
    # hypotheses of the theorems (A): root found, admissible signs, positive sound speed
    if not spy.fallback:
        ctx.count("hypotheses")
        if not admissible(th, Tp, Tm) or not float(th.csqLowT(Tm)) > 0:
            ctx.count("hypothesis_not_met", bucket="admissible")
            rec["inadmissible"] = True
        if branch == "detonation":
            fun, r = spy.last("root_scalar", "tmFromvpsq")
            if fun is not None:
                d = 4 * (h.atol + h.rtol * Tm)
                lo, hi = max(Tm - d, h.Tnucl), Tm + d
                flo, fhi, f0 = fun(lo), fun(hi), fun(Tm)
                rec["deton_res"] = f0
                if not (flo * fhi <= 0 or f0 == 0):
                    ctx.count("hypothesis_not_met", bucket="brentq-root")
                    if not bad:
                        bad = ("brentq result Tm=%.12g is not within 4(atol+rtol Tm) of a "
                               "sign change of tmFromvpsq" % Tm, "deton-root")
        else:
            fun, r = spy.last("root", "matching")
            if fun is not None:
                res = fun(r.x)
                rec["deflag_res"] = float(np.sum(np.asarray(res) ** 2))
                if not success:
                    ctx.count("hypothesis_not_met", bucket="hybr-not-converged")
    # the flag and the fallback (last sentence of the property)
    if not bad and branch != "detonation":
        if spy.fallback:
            ctx.count("fallback_used", bucket=branch)
            exists, where = exact_matching_exists(h, vw)
            rec["fallback_exact_exists"] = exists
            if exists:
                # an approximation was returned instead of it?  (on a template equation of
                # state the fallback is itself exact)
                ex = refine_exact(h, vw, where)
                if ex is not None:
                    dev = max(abs(a - b) / max(abs(b), 1e-300) for a, b in zip(
                        (vp, Tp, Tm), (ex[0], ex[2], ex[3])))
                    # the shooting residual is known to ~rtol, so v+ is known to ~rtol
                    # ABSOLUTE (rtol/vp relative) and further limited by the heating
                    d = h.rtol + h.atol / min(ex[0], ex[2], ex[3]) + h.rtol / ex[0] + \
                        h.rtol / max(abs(ex[2] / h.Tnucl - 1), 1e-12)
                    tolx = K_FLUX * d / ((1 - ex[0] ** 2) * (1 - ex[1] ** 2))
                    rec["fallback_dev"] = dev
                    if dev > tolx:
                        bad = ("template fallback returned for vw=%.6g although an exact "
                               "matching exists: exact (vp,Tp,Tm)=(%.9g,%.9g,%.9g), returned "
                               "(%.9g,%.9g,%.9g), rel. deviation %.3g > %.3g" % (
                                   vw, ex[0], ex[2], ex[3], vp, Tp, Tm, dev, tolx),
                               "fallback")
        elif not success:
            bad = ("Hydrodynamics.success is False after findMatching(vw=%.6g) inside "
                   "[vMin, 0.99]" % vw, "not-converged")
    if bad:
        _, lastsol = spy.last("root", "matching")
        hybr_ok = lastsol is None or bool(lastsol.success)
        label["hybr_status"] = None if lastsol is None else int(lastsol.status)
        bad = (bad[0], failure_key(h, vw, bad[1], spy.fallback, bool(success), hybr_ok))
    if bad:
        label.update(what_fails=bad[0], fluxes=[e1, e2, m1, m2], boundaries=[c1, c2],
                     fallback=spy.fallback, success=bool(success))
        ctx.fail_input("%s [%s vw=%.6g %s]" % (bad[0], case["kind"], vw, branch), label,
                       key=bad[1])
        rec["bad"] = bad[1]
    return rec


# ------------------------------------------------------------------------------------
# certified correspondence model <-> implementation

def q(x):
    return pyrx.rlit(Fraction(float(x)))


def poly_eos(case):
    """Coq text of the EOS functions of a bag / two-step model (polynomials in T)"""
    u = Fraction(case.get("unit", 1.0))
    if case["kind"] == "bag":
        psi = Fraction(str(case["psi"]))
        eps = Fraction(float(1.0 - case["psi"]))     # the class computes 1.-psi in floats
        pH = {4: Fraction(1), 0: -eps * u ** 4}
        pL = {4: psi, 0: Fraction(0)}
    else:
        aL, aH, mu = (Fraction(str(case[k])) for k in ("abrok", "asym", "musq"))
        k0 = aL - aH - mu
        # T^4 + (k0 + aH T^2)^2 - mu^2
        pH = {4: 1 + aH ** 2, 2: 2 * k0 * aH / 1 * u ** 2, 0: (k0 ** 2 - mu ** 2) * u ** 4}
        pL = {4: 1 + aL ** 2, 2: -2 * aL * mu * u ** 2, 0: Fraction(0)}

    def poly(c):
        return "(" + " + ".join("%s * T ^ %d" % (pyrx.rlit(v), k) for k, v in
                                sorted(c.items())) + ")"

    def d(c):
        return {k - 1: v * k for k, v in c.items() if k > 0}
    out = {}
    for ph, p in (("High", pH), ("Low", pL)):
        dp, ddp = d(p), d(d(p))
        out["p" + ph] = "(fun T : R => %s)" % poly(p)
        out["e" + ph] = "(fun T : R => T * %s - %s)" % (poly(dp), poly(p))
        out["w" + ph] = "(fun T : R => T * %s)" % poly(dp)
        out["csq" + ph] = "(fun T : R => %s / (T * %s))" % (poly(dp), poly(ddp))
    return out


EVAL_HDR = """From Coq Require Import Reals Lra.
From Interval Require Import Tactic.
From WG Require Import Lib.NumpySem Lib.HydroMatch.
From GenC02 Require Import HydroGen.
Local Open Scope R_scope.
Definition e0 : env := mk_env %(Tn)s %(TMax)s %(TMin)s %(vMin)s %(vJ)s
  %(pHigh)s %(pLow)s %(eHigh)s %(eLow)s %(wHigh)s %(wLow)s %(csqHigh)s %(csqLow)s.
Ltac ne := first [apply Rlt_not_eq; interval with (i_prec 64)
                 |apply Rgt_not_eq; interval with (i_prec 64)].
Ltac ev :=
  cbv beta iota zeta delta [matching_given matching_lte deflag_result_given
    deflag_result_lte tmFromvpsq deton_result findHydroBoundaries vpvmAndvpovm gammaSq
    _mappingT _inverseMappingT fst snd e0 Tnucl TMaxHydro TMinHydro vMin vJ pHighT pLowT
    eHighT eLowT wHighT wLowT csqHighT csqLowT];
  repeat match goal with
  | |- context [Req_EM_T ?a ?b] =>
      destruct (Req_EM_T a b) as [E|E]; [exfalso; revert E; ne|]; clear E
  | |- context [Rlt_dec ?a ?b] =>
      destruct (Rlt_dec a b) as [E|E]; [exfalso; revert E; apply Rle_not_lt; interval|];
      clear E
  | |- context [Rmin ?a ?b] =>
      first [rewrite (Rmin_left a b) by interval with (i_prec 64)
            |rewrite (Rmin_right a b) by interval with (i_prec 64)]
  | |- context [Rmax ?a ?b] =>
      first [rewrite (Rmax_left a b) by interval with (i_prec 64)
            |rewrite (Rmax_right a b) by interval with (i_prec 64)]
  end;
  cbv beta iota delta [negb fst snd];
  interval with (i_prec 64).
"""


def tup(n, i, term):
    """i-th component of a Coq n-tuple term"""
    return pyrx.proj(term, i, n)


def eval_file(case, h, rows):
    eos = poly_eos(case)
    hdr = EVAL_HDR % dict(Tn=q(h.Tnucl), TMax=q(h.TMaxHydro), TMin=q(h.TMinHydro),
                          vMin=q(h.vMin), vJ=q(h.vJ), **eos)
    goals = []
    for term, y, scale in rows:
        tol = Fraction(float(abs(scale))) / 10 ** 9 + Fraction(1, 10 ** 30)
        goals.append("Goal Rabs (%s - %s) <= %s.\nProof. ev. Qed." % (term, q(y),
                                                                     pyrx.rlit(tol)))
    return hdr + "\n".join(goals) + "\n"


def correspondence_rows(ctx, case, th, h, rng):
    """values of the real closures / methods, with the Coq term that must reproduce them"""
    rows = []
    Tn = h.Tnucl
    vJ = h.vJ
    # vpvmAndvpovm at a few points
    for _ in range(2):
        Tp = Tn * rng.uniform(1.0, 1.3)
        Tm = Tn * rng.uniform(0.9, 1.25)
        a, b = h.vpvmAndvpovm(Tp, Tm)
        t = "(vpvmAndvpovm e0 %s %s)" % (q(Tp), q(Tm))
        rows += [(tup(2, 0, t), a, a), (tup(2, 1, t), b, b)]
    # the deflagration / hybrid residual closure and result, vp given
    vw = rng.uniform(max(h.vMin, 0.05), vJ - 0.01)
    vp = vw * rng.uniform(0.6, 0.95)
    with Spy(h) as spy:
        res = h.matchDeflagOrHyb(vw, vp)
        fun, sol = spy.last("root", "matching")
    Tpm0 = [float(x) for x in cell(fun, "Tpm0")]
    t0 = "(%s, %s)" % (q(Tpm0[0]), q(Tpm0[1]))
    xs = [list(map(float, sol.x)),
          list(map(float, h._mappingT([Tn * rng.uniform(1.0, 1.2),
                                       Tn * rng.uniform(0.9, 1.1)])))]
    # (each residual goal costs ~5 s of interval arithmetic: one generic point per mode;
    # the solver's final point is covered by the deflag_result goals)
    for x in xs[1:]:
        y = fun(x)
        t = "(matching_given e0 %s %s %s (%s, %s))" % (q(vw), q(vp), t0, q(x[0]), q(x[1]))
        sc = max(abs(float(y[0])), abs(float(y[1])), 1.0)
        rows += [(tup(2, 0, t), float(y[0]), sc), (tup(2, 1, t), float(y[1]), sc)]
    t = "(deflag_result_given e0 %s %s (%s, %s))" % (q(vw), q(vp), q(xs[0][0]), q(xs[0][1]))
    for i in range(4):
        rows.append((tup(4, i, t), float(res[i]), float(res[i])))
    # vp from entropy conservation
    x2 = list(map(float, h._mappingT([Tn * rng.uniform(1.0, 1.05),
                                      Tn * rng.uniform(0.97, 1.0)])))
    with Spy(h) as spy:
        # the closure reads the enclosing `vp`, which the method overwrites after the
        # solve: evaluate it while the solve is live
        spy.probe_at["matching"] = [x2]
        res = h.matchDeflagOrHyb(vw)
        fun, sol = spy.last("root", "matching")
    Tpm0 = [float(x) for x in cell(fun, "Tpm0")]
    t0 = "(%s, %s)" % (q(Tpm0[0]), q(Tpm0[1]))
    x = list(map(float, sol.x))
    for xx, y in spy.probed["matching"][:1]:
        xx = list(map(float, xx))
        t = "(matching_lte e0 %s %s (%s, %s))" % (q(vw), t0, q(xx[0]), q(xx[1]))
        sc = max(abs(float(y[0])), abs(float(y[1])), 1.0)
        rows += [(tup(2, 0, t), float(y[0]), sc), (tup(2, 1, t), float(y[1]), sc)]
    t = "(deflag_result_lte e0 %s (%s, %s))" % (q(vw), q(x[0]), q(x[1]))
    for i in range(4):
        rows.append((tup(4, i, t), float(res[i]), float(res[i])))
    # detonation residual and result
    vwd = rng.uniform(vJ + 0.01, 0.98)
    with Spy(h) as spy:
        res = h.matchDeton(vwd)
        fun, r = spy.last("root_scalar", "tmFromvpsq")
    for tm in (float(res[3]), Tn * rng.uniform(1.0, 1.5)):
        y = float(fun(tm))
        sc = abs(float(th.eHighT(Tn)))
        rows.append(("(tmFromvpsq e0 %s %s)" % (q(vwd), q(tm)), y, sc))
    t = "(deton_result e0 %s %s)" % (q(vwd), q(res[3]))
    for i in range(4):
        rows.append((tup(4, i, t), float(res[i]), float(res[i])))
    # boundary constants from a matching
    with Spy(h) as spy:
        hb = h.findHydroBoundaries(vwd)
        m = spy.matchings[-1]
    t = "(findHydroBoundaries e0 %s %s %s %s %s)" % (q(vwd), q(m[0]), q(m[1]), q(m[2]),
                                                  q(m[3]))
    for i in range(5):
        rows.append((tup(5, i, t), float(hb[i]), float(hb[i])))
    return rows


# ------------------------------------------------------------------------------------

def generate(ctx):
    srcs = {n: vlib.read_src(n) for n in ("hydrodynamics.py", "hydrodynamicsTemplateModel.py",
                                          "helpers.py")}
    text, spans, notes, _ = gen_hydro_match.generate(
        srcs["hydrodynamics.py"], srcs["hydrodynamicsTemplateModel.py"], srcs["helpers.py"])
    ctx.write("HydroGen.v", text, sources=dict(
        files={"src/WallGo/" + n: vlib.sha(s) for n, s in srcs.items()}, spans=spans,
        cuts=list(notes)))
    return notes


def run(ctx):
    gen_ok = True
    try:
        notes = generate(ctx)
    except pyrx.TranslateError as e:
        ctx.log("translator failed:", e)
        ctx.broken.append("translator: %s" % e)
        gen_ok = False
    proved = gen_ok and ctx.prove(extra=["HydroGen.v"])
    ctx.trusted += ["tools/pyrx.py + tools/gen_hydro_match.py (AST translator, solver "
                    "slicing rule)",
                    "Interval tactic (certified evaluation; kernel primitive floats/ints)",
                    "harness-side wrappers around scipy root/root_scalar/minimize_scalar "
                    "(observation only)"]
    rng = ctx.rng
    stats = []
    # ---- direct validation on the implementation (always) -----------------------------
    for case, vw in RECORDED:
        try:
            th = build_model(case)
            h = make_hydro(th)
            check_point(ctx, case, th, h, vw, None)
        except Exception:
            ctx.log("recorded input raised", json.dumps(case), traceback.format_exc())
            ctx.broken.append("harness: recorded input raised")
    nmodels = ctx.n(14, 160)
    nvw = ctx.n(10, 16)
    # ---- certified correspondence: files written and coqc started now, collected below --
    procs = []
    if proved:
        for m in range(ctx.n(2, 8)):
            case = gen_case(rng, kind=["bag", "2step"][m % 2])
            try:
                th = build_model(case)
                h = make_hydro(th)
                allrows = correspondence_rows(ctx, case, th, h, rng)
                # the residual goals (atan, many operations) take ~5 s each: small files,
                # all compiled in parallel with the direct validation below
                for c in range(0, len(allrows), 6):
                    rows = allrows[c:c + 6]
                    p = ctx.write("Cases/Eval_%d_%d.v" % (m, c // 6),
                                  eval_file(case, h, rows))
                    procs.append(("%d_%d" % (m, c // 6), case, rows, p, subprocess.Popen(
                        ["timeout", "600", "coqc"] + ctx.coq_args() + [p], cwd=ctx.bdir,
                        stdout=subprocess.PIPE, stderr=subprocess.PIPE, text=True)))
            except Exception:
                ctx.log("correspondence rows failed", json.dumps(case),
                        traceback.format_exc())
                ctx.broken.append("harness: correspondence rows raised")
    t0 = time.time()
    for m in range(nmodels):
        case = gen_case(rng)
        # both the tests' setting rtol = atol = 1e-6 and the library defaults 1e-6 / 1e-10
        # (rtol != atol: the two tolerances are distinguishable); kept in the case record
        case["rtol"], case["atol"] = rng.choice(TOL_PAIRS)
        try:
            th = build_model(case)
            h = make_hydro(th, case["rtol"], case["atol"])
        except Exception as ex:
            ctx.count("model_rejected", bucket=type(ex).__name__)
            continue
        ctx.count("model", case, bucket="%s rtol=%g atol=%g" % (case["kind"], case["rtol"],
                                                              case["atol"]))
        vws = wall_velocities(rng, h, nvw)
        # the deflagration/hybrid switch is at vw = cs(T-), not at cs(Tn): when the sound
        # speed behind the wall depends on temperature, probe between the two
        try:
            cbn = math.sqrt(float(th.csqLowT(h.Tnucl)))
            if h.vMin < cbn < h.vJ:
                Tm_ = float(h.findMatching(cbn)[3])
                cbm = math.sqrt(max(float(th.csqLowT(Tm_)), 0.0))
                if abs(cbm - cbn) > 1e-6 and h.vMin < cbm < h.vJ:
                    vws += [0.5 * (cbn + cbm), cbn + 0.9 * (cbm - cbn)]
        except Exception:
            pass
        for vw in vws:
            try:
                check_point(ctx, case, th, h, vw, stats)
                if case["kind"] == "template":
                    check_template_class(ctx, case, th, h, vw)
            except Exception:
                ctx.log("harness exception at", json.dumps(case), vw,
                        traceback.format_exc())
                ctx.broken.append("harness: check_point raised")
        if m == 0:
            ctx.sample(dict(case=case, vJ=h.vJ, vMin=h.vMin,
                            first=stats[-1] if stats else None))
    ctx.log("direct validation: %d matchings in %.1fs" % (len(stats), time.time() - t0))
    # one numerically traced potential (real FreeEnergy tables)
    for _ in range(ctx.n(1, 4)):
        case = dict(kind="traced", D=rng.choice([0.15, 0.2]), E=0.05,
                    lam=rng.choice([0.08, 0.1]), T0=rng.choice([60.0, 80.0]))
        try:
            import wgmodels
            ex = wgmodels.quartic1_exact(D=case["D"], E=case["E"], lam=case["lam"],
                                         T0=case["T0"], g=100.0)
            case["Tn"] = round(ex["Tc"] - (ex["Tc"] - case["T0"]) * rng.uniform(0.2, 0.5),
                               3)
            th = build_model(case)
            h = make_hydro(th)
            ctx.count("model", case, bucket="traced")
            for vw in wall_velocities(rng, h, ctx.n(6, 12)):
                check_point(ctx, case, th, h, vw, stats)
        except Exception:
            ctx.log("traced model raised", json.dumps(case), traceback.format_exc())
            ctx.broken.append("harness: traced model raised")
    if stats:
        worst = max([r for r in stats if "bad" not in r] or stats,
                    key=lambda r: r["mis"] / r["tol"])
        ctx.log("worst flux mismatch / tolerance: %.3g (mis %.3g, vw %.4f, %s)" % (
            worst["mis"] / worst["tol"], worst["mis"], worst["vw"], worst["branch"]))
        ctx.cov["worst_mismatch_over_tolerance"] = worst["mis"] / worst["tol"]
    # ---- collect the certified evaluations ---------------------------------------------
    for m, case, rows, p, pr in procs:
        out, err = pr.communicate()
        for _ in rows:
            ctx.count("certified_eval")
        if pr.returncode != 0:
            ctx.broken.append("correspondence: certified evaluation Eval_%s" % m)
            ctx.log("certified evaluation failed", vlib.tail(err, 8))
            ctx.log("model", json.dumps(case))
    ctx.log("certified evaluations: %d files" % len(procs))
    ctx.cov["rule"] = (
        "models: random bag (psi 0.5..0.98), two-step (a_broken 0.15..0.3, a_sym, mu^2) "
        "and template (alN 1e-3..0.3 above (1-psiN)/3, psiN 0.5..0.99, cb2<=cs2 in "
        "0.2..1/3) equations of state, nucleation temperature 0.5..0.97 Tc in units spanning "
        "1e-3..2.5e3, with (rtol,atol) = (1e-6,1e-6) or the library defaults (1e-6,1e-10), "
        "plus a traced quartic potential; per model wall velocities at vMin, "
        "just below/above cs(-), just below/above vJ, 0.9..0.99, 0.99 and uniform; "
        "distinct = distinct (model, vw)")
    ctx.assumptions += [
        "scipy root(hybr)/brentq return a zero of the residual they are given (validated: "
        "residual at the returned point, sign change within 4(atol+rtol T))",
        "w = e + p for the equation of state (proved for the generated Thermodynamics in "
        "C10; checked numerically on every model here)",
        "sign conditions e+ + p- > 0, e- + p+ > 0, e+ <> e-, cs^2(T-) > 0 at the returned "
        "matching (checked on every returned matching)"]


def replay(rep):
    print(json.dumps({k: v for k, v in rep.items() if k != "case"}, indent=1))
    case, vw = rep["case"], rep["vw"]
    th = build_model(case)
    h = make_hydro(th, rep.get("rtol", case.get("rtol", RTOL)),
                   rep.get("atol", case.get("atol", ATOL)))
    if rep.get("solver") == "template":
        r = h.template.findMatching(vw)
        print("template.findMatching(%r) = %r" % (vw, r))
        e1, e2, m1, m2 = fluxes(th, *map(float, r))
        print("energy flux   %.15g | %.15g" % (e1, e2))
        print("momentum flux %.15g | %.15g" % (m1, m2))
        print("template.findHydroBoundaries", h.template.findHydroBoundaries(vw))
        return 0
    r = h.findMatching(vw)
    print("vJ=%r vMin=%r findMatching(%r) = %r success=%r" % (h.vJ, h.vMin, vw, r,
                                                              h.success))
    if r[0] is not None:
        e1, e2, m1, m2 = fluxes(th, *map(float, r))
        print("energy flux   %.15g | %.15g" % (e1, e2))
        print("momentum flux %.15g | %.15g" % (m1, m2))
        print("tolerance (relative) %.3g" % flux_tolerance(h, *map(float, r)))
        print("findHydroBoundaries", h.findHydroBoundaries(vw))
    return 0
