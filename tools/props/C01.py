"""C01 -- reported wall velocity is a bracketed zero of the pressure; runaway; error labelling;
history independence."""
import json
import logging
import math
import os
import time
import traceback
from fractions import Fraction

import numpy as np

import gen_eom_facts
import vlib

EXPLANATION = (
    "Coq model (coq/Model/SolveWall.v) of the decision logic of EOM.solveWall / "
    "findWallVelocityDeflagrationHybrid over two oracles (one wallPressure evaluation; "
    "scipy's brentq with its termination contract). Proved for ALL pressure functions, "
    "brackets, tolerances and prior object states: success => the root finder's final "
    "bracket around the reported velocity is narrower than the CONFIGURED errTol (+rtol|v|), "
    "lies in the searched window and the pressure is <=0 / >=0 at its ends; window and type "
    "for the deflagration search; runaway => pressure at the top of the window negative, no "
    "velocity; error <=> not success; the doubling loop terminates; the returned fields and "
    "the flags consulted come from the last evaluation, made at the returned velocity; the "
    "result does not depend on the EOM attributes found on entry. The literals/expressions "
    "(xtol, error estimate, tolerances, wrapper guards), the def-use table of results.set* "
    "over all 298 paths of solveWall and the provenance of the solver objects in "
    "WallGoManager are regenerated from the AST on every run and the theorems are stated over "
    "them. The model is compared by vm_compute with the REAL EOM.solveWall driven by "
    "synthetic pressure curves (recorded brentq trace fed to the model), the brentq contract "
    "is re-validated on every recorded trace, and the property is evaluated end to end on "
    "WallGoManager (equilibrium mode) including call histories.")

ATOL0 = 1e-8
RTOL_BRENTQ = Fraction(1, 2 ** 50)
TNUCL = 64.0          # default; cases carry their own (also non-dyadic) "Tn"
TAG = 2.0 ** -60      # evaluation tag carried in offsets[0] (which is identically 0 otherwise)


def tn_of(case):
    return float(case.get("Tn", TNUCL))


def wraw_of(case):
    """wallThicknessBounds as configured (units 1/Tnucl); case["wbounds"] holds the values the
    code compares with, i.e. the float quotients raw/Tnucl"""
    if "wraw" in case:
        return tuple(float(x) for x in case["wraw"])
    return (float(case["wbounds"][0]) * TNUCL, float(case["wbounds"][1]) * TNUCL)


def known_or_note(ctx, key, what, rep):
    """a failing input of a class recorded (or proposed) as a known finding: reported through
    ctx.fail_input when the key is listed in known_findings.json, otherwise logged as a NOTE
    and put into the evidence (findings_not_listed) until the entry is registered"""
    listed = any(k.get("property") == "C01" and k.get("key") == key
                 for k in ctx.known.get("findings", []))
    if listed:
        return ctx.fail_input(what, rep, key=key)
    lst = ctx.cov.setdefault("findings_not_listed", [])
    if not any(x["key"] == key for x in lst):
        ctx.log("NOTE (finding not yet listed in known_findings.json, key %s):" % key, what)
        lst.append(dict(key=key, what=what, replay=rep))
    return None


def fail(ctx, what, rep, key=None):
    """ctx.fail_input, at most 3 replay files per failure class"""
    seen = ctx.cov.setdefault("failing_inputs_per_key", {})
    seen[key] = seen.get(key, 0) + 1
    if seen[key] <= 3:
        return ctx.fail_input(what, rep, key=key)
    return None


# ======================================================================================
# synthetic pressure curves (exact rationals) and the stubbed EOM

class Seg:
    def __init__(self, x0, p0, slope, nf, tprofA=True, pressA=True, tprofB=True, pressB=True,
                 Tplus=100, Tminus=90, widths=None, offsets=None):
        self.x0, self.p0, self.slope = Fraction(x0), Fraction(p0), Fraction(slope)
        self.tprofA, self.pressA, self.tprofB, self.pressB = tprofA, pressA, tprofB, pressB
        self.Tplus, self.Tminus = Fraction(Tplus), Fraction(Tminus)
        self.widths = [Fraction(w) for w in (widths or [1] * nf)]
        self.offsets = [Fraction(w) for w in (offsets or [0] * nf)]

    def p(self, v):
        return self.p0 + self.slope * (Fraction(v) - self.x0)

    def to_json(self):
        d = dict(self.__dict__)
        for k, v in d.items():
            if isinstance(v, Fraction):
                d[k] = str(v)
            elif isinstance(v, list):
                d[k] = [str(x) for x in v]
        return d

    @staticmethod
    def from_json(d):
        s = Seg(d["x0"], d["p0"], d["slope"], len(d["widths"]))
        s.tprofA, s.pressA, s.tprofB, s.pressB = d["tprofA"], d["pressA"], d["tprofB"], d["pressB"]
        s.Tplus, s.Tminus = Fraction(d["Tplus"]), Fraction(d["Tminus"])
        s.widths = [Fraction(x) for x in d["widths"]]
        s.offsets = [Fraction(x) for x in d["offsets"]]
        return s

    def coq(self):
        ql = lambda l: "[" + "; ".join(vlib.coq_Q(x) for x in l) + "]"
        b = lambda x: "true" if x else "false"
        return "(mkSeg %s %s %s %s %s %s %s %s %s %s %s)" % (
            vlib.coq_Q(self.x0), vlib.coq_Q(self.p0), vlib.coq_Q(self.slope), b(self.tprofA),
            b(self.pressA), b(self.tprofB), b(self.pressB), vlib.coq_Q(self.Tplus),
            vlib.coq_Q(self.Tminus), ql(self.widths), ql(self.offsets))


def find_seg(segs, v):
    cur = segs[0]
    for s in segs[1:]:
        if s.x0 <= v:
            cur = s
        else:
            break
    return cur


class _Template:
    epsilon = 1.0


class _Bg:
    def __init__(self, tag):
        self.velocityProfile = tag
        self.fieldProfiles = tag
        self.temperatureProfile = tag


def synth_tuple(seg, v, tag, widths_id=None):
    """the five objects one wallPressure call returns; every one of them carries the number of
    the evaluation BY VALUE (offsets[0], identically zero otherwise, holds tag * 2**-60)"""
    from WallGo.containers import WallParams
    from WallGo.results import BoltzmannResults, HydroResults
    w = np.array([float(x) for x in seg.widths])
    o = np.array([float(x) for x in seg.offsets])
    assert o[0] == 0.0
    o[0] = tag * TAG
    return (float(seg.p(v)), WallParams(widths=w, offsets=o),
            BoltzmannResults(deltaF=np.array([float(tag)]), Deltas=float(tag),
                             truncationError=float(tag),
                             linearizationCriterion1=np.array([float(tag)]),
                             linearizationCriterion2=np.array([float(tag)])),
            _Bg(tag), HydroResults(float(seg.Tplus), float(seg.Tminus), float(tag)))


def result_tags(res, rt=lambda t: t):
    """evaluation number carried by every field of a WallGoResults"""
    return dict(hydro=rt(int(res.velocityJouguet)), bgV=rt(int(res.velocityProfile)),
                bgF=rt(int(res.fieldProfiles)), bgT=rt(int(res.temperatureProfile)),
                deltaF=rt(int(res.deltaF[0])), Deltas=rt(int(res.Deltas)),
                trunc=rt(int(res.truncationError)),
                lin1=rt(int(res.linearizationCriterion1[0])),
                lin2=rt(int(res.linearizationCriterion2[0])),
                params=rt(int(round(float(res.wallOffsets[0]) / TAG))))


def make_stub_eom(case):
    """A real EOM built by the real EOM.__init__ (so the constructor's wiring of errTol,
    pressRelErrTol, bounds, collaborators is part of what is tested); the collaborators are
    bare instances of the real classes (no __init__) carrying only what solveWall reads."""
    from WallGo.equationOfMotion import EOM
    from WallGo.boltzmann import BoltzmannSolver
    from WallGo.grid3Scales import Grid3Scales
    from WallGo.hydrodynamics import Hydrodynamics
    from WallGo.thermodynamics import Thermodynamics
    grid = object.__new__(Grid3Scales)
    bs = object.__new__(BoltzmannSolver)
    bs.grid = grid
    bs.offEqParticles = []
    th = object.__new__(Thermodynamics)
    th.Tnucl = tn_of(case)
    hy = object.__new__(Hydrodynamics)
    hy.vJ = float(case["vJ"])
    hy.vMin = float(case["vmin"])
    fast, lte = float(case.get("fastest", 1)), float(case["vLTE"])
    hy.fastestDeflag = lambda: fast
    hy.findvwLTE = lambda: lte
    hy.TMinLowT, hy.TMaxLowT = float(case["TLow"][0]), float(case["TLow"][1])
    hy.TMinHighT, hy.TMaxHighT = float(case["THigh"][0]), float(case["THigh"][1])
    hy.doesPhaseTraceLimitvmax = list(case.get("traceLimit", [False, False]))
    hy.template = _Template()
    eom = EOM(bs, th, hy, grid, case["nf"], 1.0,
              wraw_of(case),
              (float(case["obounds"][0]), float(case["obounds"][1])),
              includeOffEq=False, forceEnergyConservation=True, forceImproveConvergence=False,
              errTol=float(case["errTol"]), maxIterations=20,
              pressRelErrTol=float(case["rel"]))
    # prior state of the object (history): must not matter
    eom.pressAbsErrTol = float(case["s0"][0])
    eom.successTemperatureProfile = bool(case["s0"][1])
    eom.successWallPressure = bool(case["s0"][2])
    return eom


class Harness:
    """stub EOM + synthetic wallPressure + recording wrapper around root_scalar"""

    def __init__(self, case):
        logging.getLogger().setLevel(logging.ERROR)
        self.case = case
        self.segs = case["segs"]
        self.eom = make_stub_eom(case)
        self.hydro_before = dict(self.eom.hydrodynamics.__dict__)
        self.thermo_before = dict(self.eom.thermo.__dict__)
        self.log = []
        self.recs = []          # one per root_scalar call
        eom, segs, log = self.eom, self.segs, self.log

        def wallPressure(vw, wallParams, atol=None, rtol=None, boltzmannResultsInput=None):
            n = len(log)
            a = eom.pressAbsErrTol if atol is None else atol
            s = find_seg(segs, Fraction(float(vw)))
            phaseA = (a == ATOL0)
            eom.successTemperatureProfile = s.tprofA if phaseA else s.tprofB
            eom.successWallPressure = s.pressA if phaseA else s.pressB
            log.append(dict(v=float(vw), atol=float(a),
                            guess=[float(x) for x in wallParams.widths] +
                                  [float(x) for x in wallParams.offsets]))
            return synth_tuple(s, Fraction(float(vw)), n)

        eom.wallPressure = wallPressure

    def __enter__(self):
        import scipy.optimize
        self._so = scipy.optimize
        self._orig = orig = scipy.optimize.root_scalar
        case, log, recs = self.case, self.log, self.recs

        def root_scalar(f, *args, **kw):
            calls = []

            def g(x):
                y = f(x)
                calls.append((float(x), float(y)))
                return y
            rec = dict(called=True, log_at_root=len(log), calls=calls,
                       kw={k: (float(v) if isinstance(v, (int, float)) else str(v))
                           for k, v in kw.items() if k != "bracket"},
                       bracket=[float(b) for b in kw.get("bracket", [])])
            recs.append(rec)
            kw2 = dict(kw)
            if case.get("maxiter"):
                kw2["maxiter"] = case["maxiter"]
            try:
                sol = orig(g, *args, **kw2)
            except Exception as e:
                rec["raised"] = repr(e)
                raise
            rec.update(root=float(sol.root), converged=bool(sol.converged), flag=str(sol.flag))
            return sol

        scipy.optimize.root_scalar = root_scalar
        return self

    def __exit__(self, *a):
        self._so.root_scalar = self._orig
        return False

    def collaborators_untouched(self):
        """the shared Hydrodynamics / Thermodynamics objects are only read by the EOM"""
        bad = []
        for name, obj, before in (("hydrodynamics", self.eom.hydrodynamics, self.hydro_before),
                                  ("thermo", self.eom.thermo, self.thermo_before)):
            now = obj.__dict__
            for k in set(now) | set(before):
                a, b = before.get(k, "<absent>"), now.get(k, "<absent>")
                if not (a is b or (not callable(a) and a == b)):
                    bad.append("%s.%s: %r -> %r" % (name, k, a, b))
        return bad

    def observe(self, res, log, rec, raised=None, retag=None):
        eom = self.eom
        obs = dict(raised=raised, log=log, rec=rec or dict(called=False),
                   touched=self.collaborators_untouched(),
                   flags=[bool(eom.successTemperatureProfile), bool(eom.successWallPressure)],
                   atolEnd=float(eom.pressAbsErrTol))
        if res is not None:
            tags = result_tags(res, retag or (lambda t: t))
            offs = [float(x) for x in res.wallOffsets]
            offs[0] = 0.0
            obs.update(success=res.success, type=res.solutionType.name,
                       message=str(res.message), velocity=res.wallVelocity,
                       velErr=res.wallVelocityError, vLTE=res.wallVelocityLTE, tags=tags,
                       Tplus=float(res.temperaturePlus), Tminus=float(res.temperatureMinus),
                       widths=[float(x) for x in res.wallWidths], offsets=offs,
                       fd_same=(res.deltaFFiniteDifference is res.deltaF
                                if res.wallVelocity is not None else True))
        return obs


def run_impl(case):
    """Run the REAL EOM.solveWall / findWallVelocityDeflagrationHybrid on a real EOM object
    (built by EOM.__init__) whose collaborators are stubs and whose wallPressure is the
    synthetic curve. Returns the observation dict."""
    from WallGo.containers import WallParams
    h = Harness(case)
    eom, segs = h.eom, h.segs
    raised, res = None, None
    with h:
        try:
            if case["mode"] == "deflag":
                res = eom.findWallVelocityDeflagrationHybrid(case.get("thick"))
            else:
                guess = WallParams(widths=np.array([float(x) for x in case["g0"][0]]),
                                   offsets=np.array([float(x) for x in case["g0"][1]]))
                gmin = gmax = None
                if case.get("givenMin") is not None:
                    v = Fraction(case["vmin"])
                    gmin = synth_tuple(find_seg(segs, v), v, -2)
                if case.get("givenMax") is not None:
                    v = Fraction(case["vmax"])
                    gmax = synth_tuple(find_seg(segs, v), v, -1)
                res = eom.solveWall(float(case["vmin"]), float(case["vmax"]), guess, gmin, gmax)
        except ValueError as e:
            raised = repr(e)
    return h.observe(res, h.log, h.recs[-1] if h.recs else None, raised)


def run_deton(case):
    """Drive the REAL EOM.findWallVelocityDetonation with the synthetic curve.  Returns
    (results summary, list of (subcase, obs) -- one per solveWall call it made, in the form of
    a `given` correspondence case -- and the list of per-call pairing records)."""
    h = Harness(case)
    eom, segs, log = h.eom, h.segs, h.log
    real_solveWall = eom.solveWall
    calls = []

    def solveWall(vlo, vhi, guess, tlo=None, thi=None):
        start = len(log)
        nrec = len(h.recs)
        s0 = (float(eom.pressAbsErrTol), bool(eom.successTemperatureProfile),
              bool(eom.successWallPressure))
        c = dict(vlo=float(vlo), vhi=float(vhi), start=start, s0=s0,
                 g0=([float(x) for x in guess.widths], [float(x) for x in guess.offsets]),
                 tlo=None if tlo is None else (float(tlo[0]), int(tlo[4].velocityJouguet)),
                 thi=None if thi is None else (float(thi[0]), int(thi[4].velocityJouguet)))
        calls.append(c)
        raised, res = None, None
        try:
            res = real_solveWall(vlo, vhi, guess, tlo, thi)
        except ValueError as e:
            raised = repr(e)
            c["raised"] = raised
        lo_tag, hi_tag = (c["tlo"] or (0, None))[1], (c["thi"] or (0, None))[1]
        retag = lambda t: -2 if t == lo_tag else -1 if t == hi_tag else t - start
        rec = h.recs[nrec] if len(h.recs) > nrec else None
        if rec is not None:
            rec = dict(rec, log_at_root=rec["log_at_root"] - start)
        c["obs"] = h.observe(res, [dict(e) for e in log[start:]], rec, raised, retag)
        if raised:
            raise ValueError(raised)
        return res

    eom.solveWall = solveWall
    out = dict(raised=None, results=None)
    with h:
        try:
            lst = eom.findWallVelocityDetonation(
                float(case["vmin"]), float(case["vmax"]), case.get("thick"),
                case["npmin"], case["npmax"], case["overshoot"], float(case["errTol"]),
                case["onlySmallest"])
            out["results"] = [dict(success=r.success, type=r.solutionType.name,
                                   velocity=r.wallVelocity, message=str(r.message))
                              for r in lst]
        except (ValueError, ArithmeticError, AssertionError) as e:
            out["raised"] = repr(e)
            out["raised_in"] = [f.name for f in traceback.extract_tb(e.__traceback__)]
    out["log"] = log
    out["calls"] = calls
    return out


TYPES = dict(DEFLAGRATION="Deflagration", DETONATION="Detonation", RUNAWAY="Runaway",
             DEFLAGRATION_OR_RUNAWAY="DeflagrationOrRunaway", ERROR="ErrorType")

# (kind, mode, text) per exit of solveWall, extracted from the AST on this run
MESSAGES = []


def msg_kind(obs):
    """which exit of solveWall produced the message: decided with the exit/message table
    extracted from the source, not from the wording"""
    m = obs["message"]
    for kind, mode, text in MESSAGES:
        if mode == "exact" and m == text:
            return kind
    best = None
    for kind, mode, text in MESSAGES:
        if mode == "prefix" and text and m.startswith(text):
            if best is None or len(text) > len(best[1]):
                best = (kind, text)
    if best:
        return best[0]
    for kind, mode, text in MESSAGES:
        if mode == "flag" and obs["rec"].get("flag") is not None and m == obs["rec"]["flag"]:
            return kind
    return "MsgUnclassified"


def window(case):
    """(vmin, vmax) handed to solveWall"""
    if case["mode"] == "deflag":
        return Fraction(case["vmin"]), min(Fraction(case["vJ"]), Fraction(case["fastest"]))
    return Fraction(case["vmin"]), Fraction(case["vmax"])


def bracket_phase_counts(case, obs):
    """number of doublings and final lower end, reconstructed from the evaluation log"""
    vmin, vmax = window(case)
    log = obs["log"]
    n_bracket = obs["rec"]["log_at_root"] if obs["rec"]["called"] else len(log)
    vs = [Fraction(e["v"]) for e in log[:n_bracket]]
    n_max = 0 if case.get("givenMax") is not None else 1
    if not obs["rec"]["called"] and obs.get("type") == "RUNAWAY":
        return 0, vmin
    n_min0 = 0 if case.get("givenMin") is not None else 1
    k = len(vs) - n_max - n_min0
    if obs["rec"]["called"]:
        return k, vmin * 2 ** k
    if obs.get("type") == "RUNAWAY":
        return 0, vmin
    # positive-pressure exit: one more doubling, without evaluation
    return k + 1, vmin * 2 ** (k + 1)


def qlist(l):
    return "[" + "; ".join(vlib.coq_Q(x) for x in l) + "]"


def coq_case(case, obs):
    segs = case["segs"]
    nf = case["nf"]
    b = lambda x: "true" if x else "false"
    base = "(mkConfig %s %s %s %s %s %s %s %s %s %s %s %s 0 0 0 0 (fun _ => 0))" % (
        vlib.coq_Q(float(case["errTol"])), vlib.coq_Q(float(case["rel"])),
        vlib.coq_Q(case["vJ"]), vlib.coq_Q(case["vLTE"]),
        vlib.coq_Q(case["TLow"][0]), vlib.coq_Q(case["TLow"][1]),
        vlib.coq_Q(case["THigh"][0]), vlib.coq_Q(case["THigh"][1]),
        vlib.coq_Q(case["wbounds"][0]), vlib.coq_Q(case["wbounds"][1]),
        vlib.coq_Q(case["obounds"][0]), vlib.coq_Q(case["obounds"][1]))
    P = "(Pcurve gen_atol0 %s [%s])" % (segs[0].coq(), "; ".join(s.coq() for s in segs[1:]))
    rec = obs["rec"]
    if rec["called"] and "root" in rec:
        rf = "(fun _ _ _ _ => mkRf %s %s %s)" % (
            vlib.coq_Q(rec["root"]), b(rec["converged"]), qlist([c[0] for c in rec["calls"]]))
    else:
        rf = "(fun _ a _ _ => mkRf a false [])"
    s0 = "(mkState %s %s %s)" % (vlib.coq_Q(float(case["s0"][0])), b(case["s0"][1]),
                                 b(case["s0"][2]))
    if case["mode"] == "deflag":
        thick = Fraction(case["thick"]) if case.get("thick") is not None \
            else Fraction(5 / tn_of(case))
        run = "findDeflag %s %s (cfg %s) %s %s %s %s %d%%nat 64%%nat" % (
            P, rf, base, s0, vlib.coq_Q(case["vmin"]), vlib.coq_Q(case["fastest"]),
            vlib.coq_Q(thick), nf)
    else:
        def given(which, v):
            if case.get(which) is None:
                return "None"
            s = find_seg(segs, Fraction(v))
            return "(Some (Pcurve gen_atol0 %s [] gen_atol0 %s (mkGuess [] [])))" % (
                s.coq(), vlib.coq_Q(v))
        run = "solveWall %s %s (cfg %s) %s %s %s (mkGuess %s %s) %s %s 64%%nat" % (
            P, rf, base, s0, vlib.coq_Q(case["vmin"]), vlib.coq_Q(case["vmax"]),
            qlist(case["g0"][0]), qlist(case["g0"][1]), given("givenMin", case["vmin"]),
            given("givenMax", case["vmax"]))
    k, vminF = bracket_phase_counts(case, obs)
    log = obs["log"]
    if obs["raised"]:
        exp = "(mkExpect ExpRaises false ErrorType MsgFound None None 0 GivenMin 0 0 [] [] " \
              "%d%%nat %s [] [] [] (false, false) 0)" % (k, vlib.coq_Q(vminF))
    else:
        t = obs["tags"]["hydro"]
        src = "GivenMax" if t == -1 else "GivenMin" if t == -2 else "(FromEval %d%%nat)" % t
        opt = lambda x: "None" if x is None else "(Some %s)" % vlib.coq_Q(float(x))
        exp = "(mkExpect ExpDone %s %s %s %s %s %s %s %s %s %s %s %d%%nat %s %s %s [%s] (%s, %s) %s)" % (
            b(obs["success"]), TYPES[obs["type"]], msg_kind(obs), opt(obs["velocity"]),
            opt(obs["velErr"]), vlib.coq_Q(float(obs["vLTE"])), src,
            vlib.coq_Q(obs["Tplus"]), vlib.coq_Q(obs["Tminus"]), qlist(obs["widths"]),
            qlist(obs["offsets"]), k, vlib.coq_Q(vminF), qlist([e["v"] for e in log]),
            qlist([e["atol"] for e in log]), "; ".join(qlist(e["guess"]) for e in log),
            b(obs["flags"][0]), b(obs["flags"][1]), vlib.coq_Q(obs["atolEnd"]))
    return "agrees (%s) %s" % (run, exp)


HEADER = ("From Coq Require Import QArith Qabs List Bool.\n"
          "From WG Require Import Model.SolveWall.\n"
          "From GenC01 Require Import EomFacts.\n"
          "Import ListNotations.\nLocal Open Scope Q_scope.\n")


# --------------------------------------------------------------------------------------
# case generator

def dy(rng, lo, hi, den):
    return Fraction(rng.randint(int(lo * den), int(hi * den)), den)


def gen_case(rng, scenario=None):
    nf = rng.choice([1, 1, 2])
    errTol = rng.choice([1e-2, 1e-3, 1e-3, 1e-4, 1e-5])
    rel = rng.choice([0.1, 0.01, 0.5])
    mode = rng.choice(["deflag", "deflag", "direct", "direct", "given"])
    vmin = Fraction(rng.randint(1, 60), 1024)
    vmax = Fraction(rng.randint(300, 900), 1024)
    vJ = Fraction(rng.randint(400, 950), 1024)
    fastest = vmax
    scenario = scenario or rng.choice(
        ["root"] * 8 + ["runaway", "doubling", "doubling", "positive", "multi", "multi",
                        "zero_end", "nonconv", "random", "random", "random"])
    if scenario and scenario.startswith("degenerate"):
        mode = scenario.split(":")[1] if ":" in scenario else rng.choice(
            ["direct", "given", "deflag"])
        scenario = "degenerate"
    if mode != "deflag" and rng.random() < 0.4:
        vJ = Fraction(rng.randint(100, 400), 1024)     # detonation-typed roots
    # nucleation temperature (also non-dyadic: bound/Tn is then a rounded quotient) and the
    # configured thickness bounds; the model gets the float quotients the code compares with
    Tn = rng.choice([64.0, 83.0, 100.0, 7.3, 0.3])
    wraw = (rng.choice([0.1, 0.5]), rng.choice([100.0, 7.0, 640.0]))
    wlo, whi = Fraction(wraw[0] / Tn), Fraction(wraw[1] / Tn)
    olo, ohi = Fraction(-10), Fraction(10)
    TLow, THigh = (Fraction(50), Fraction(120)), (Fraction(60), Fraction(150))

    def mkseg(x0, p0, slope, **kw):
        s = Seg(x0, p0, slope, nf, **kw)
        s.widths = [dy(rng, 1, 4, 16) for _ in range(nf)]
        s.offsets = [Fraction(0)] + [dy(rng, -2, 2, 16) for _ in range(nf - 1)]
        s.Tplus, s.Tminus = dy(rng, 90, 110, 4), dy(rng, 80, 100, 4)
        # bracketing-phase flags are arbitrary: they must not leak into the verdict
        s.tprofA, s.pressA = rng.random() < 0.7, rng.random() < 0.7
        return s

    if mode == "deflag":
        vmax = min(vJ, fastest)
    span = vmax - vmin
    maxiter = None
    if scenario in ("root", "nonconv"):
        r = vmin + span * Fraction(rng.randint(1, 63), 64)
        slope = Fraction(rng.randint(1, 400), 4)
        segs = [mkseg(0, -slope * r, slope)]
        if rng.random() < 0.5:   # kink: different slope above the root
            segs.append(mkseg(r, 0 if rng.random() < 0.3 else Fraction(rng.randint(0, 8), 8),
                              Fraction(rng.randint(1, 2000), 4)))
        if scenario == "nonconv":
            maxiter = rng.choice([1, 2, 3])
            # make brentq need several steps
            segs = [mkseg(0, Fraction(-1, 64), 0), mkseg(r, Fraction(3), 40)]
    elif scenario == "degenerate":
        # the doubled lower end lands within 1e-10 below the upper end (known corner: the
        # implementation lets brentq's ValueError escape, the model says RRaises)
        k = rng.randint(1, 3)
        vmin = Fraction(rng.randint(8, 30), 256)
        vmax = vmin * 2 ** k + Fraction(1, 2 ** rng.choice([36, 40, 44]))
        if mode == "deflag":
            vJ = fastest = vmax
        segs = [mkseg(0, Fraction(rng.randint(1, 16), 8), 0),
                mkseg(vmin * 2 ** k - Fraction(1, 1024), -Fraction(rng.randint(1, 16), 8), 0),
                mkseg(vmax, Fraction(rng.randint(1, 16), 8), 0)]
    elif scenario == "runaway":
        segs = [mkseg(0, -Fraction(rng.randint(1, 100), 4), Fraction(rng.randint(0, 4), 4))]
        if rng.random() < 0.5:   # positive somewhere below vmax, still negative at vmax
            segs.append(mkseg(vmin + span / 4, 5, 0))
            segs.append(mkseg(vmin + span / 2, -3, 1))
    elif scenario == "doubling":
        k = rng.randint(1, 3)
        while vmin * 2 ** k >= vmax:
            k -= 1
        k = max(k, 0)
        # positive up to just below vmin*2^k, then negative, then rising through zero
        edge = vmin * 2 ** k - (Fraction(1, 4096) if k else 0)
        r = edge + (vmax - edge) * Fraction(rng.randint(8, 60), 64)
        segs = [mkseg(0, Fraction(rng.randint(1, 40), 8), 0)] if k else []
        slope = Fraction(rng.randint(4, 400), 4)
        segs.append(mkseg(edge if k else 0, -slope * (r - (edge if k else 0)), slope))
    elif scenario == "positive":
        segs = [mkseg(0, Fraction(rng.randint(1, 40), 8), Fraction(rng.randint(0, 8), 4))]
        if rng.random() < 0.5:   # a negative dip that the doubling sequence steps over
            lo_ = vmin * Fraction(5, 4)
            if lo_ + Fraction(1, 4096) < vmin * 2:
                segs.append(mkseg(lo_, -1, 0))
                segs.append(mkseg(lo_ + (vmin * 2 - lo_) / 2, 2, 1))
    elif scenario == "multi":
        a = vmin + span * Fraction(rng.randint(4, 20), 64)
        b_ = vmin + span * Fraction(rng.randint(24, 40), 64)
        c_ = vmin + span * Fraction(rng.randint(44, 60), 64)
        segs = [mkseg(0, -2, 0), mkseg(a, 3, -1), mkseg(b_, -4, Fraction(1, 2)),
                mkseg(c_, Fraction(1, 8), 6)]
    elif scenario == "zero_end":
        which = rng.choice(["min", "max", "both"])
        if which == "min":
            segs = [mkseg(0, 0, 0), mkseg(vmin + Fraction(1, 4096), -1, 0),
                    mkseg(vmin + span / 2, 1, 1)]
        elif which == "max":
            segs = [mkseg(0, -1, 0), mkseg(vmax, 0, 0)]
        else:
            segs = [mkseg(0, 0, 0)]
    else:   # random
        n = rng.randint(1, 5)
        xs = sorted({dy(rng, 0.0, 0.95, 256) for _ in range(n)})
        segs = [mkseg(0, Fraction(rng.randint(-40, 40), 8), Fraction(rng.randint(-40, 160), 4))]
        for x in xs:
            if x > 0:
                segs.append(mkseg(x, Fraction(rng.randint(-40, 40), 8),
                                  Fraction(rng.randint(-40, 160), 4)))
    # decorate the root-phase flags / outputs with one fault (or none)
    # (offsets[0] carries the evaluation tag and is never a bound: offset faults need nf > 1)
    fault = rng.choice(["none"] * 6 + ["tprof", "press", "TminusLo", "TminusHi", "TplusLo",
                                      "TplusHi", "widthLo", "widthHi", "offLo", "offHi",
                                      "two"])
    for s in segs:
        if fault in ("tprof", "two"):
            s.tprofB = False
        if fault in ("press", "two"):
            s.pressB = False
        if fault == "TminusLo":
            s.Tminus = TLow[0] - Fraction(1, 4)
        if fault == "TminusHi":
            s.Tminus = TLow[1] + Fraction(1, 4)
        if fault == "TplusLo":
            s.Tplus = THigh[0] - Fraction(1, 4)
        if fault == "TplusHi":
            s.Tplus = THigh[1] + Fraction(1, 4)
        if fault == "widthLo":
            s.widths[-1] = wlo
        if fault == "widthHi":
            s.widths[0] = whi
        if fault == "offLo":
            if nf > 1:
                s.offsets[-1] = olo
            else:
                s.widths[0] = wlo
        if fault == "offHi":
            if nf > 1:
                s.offsets[-1] = ohi
            else:
                s.widths[0] = whi
    # boundary values of the ranges are inside (inclusive comparison)
    if fault == "none" and rng.random() < 0.2:
        for s in segs:
            s.Tminus, s.Tplus = rng.choice(TLow), rng.choice(THigh)
    case = dict(nf=nf, errTol=errTol, rel=rel, mode=mode, vmin=vmin, vmax=vmax, vJ=vJ,
                fastest=fastest, vLTE=dy(rng, 0.1, 0.9, 64), segs=segs, scenario=scenario,
                fault=fault, maxiter=maxiter, TLow=TLow, THigh=THigh, wbounds=(wlo, whi),
                obounds=(olo, ohi), Tn=Tn, wraw=wraw,
                traceLimit=[rng.random() < 0.2, rng.random() < 0.2],
                s0=(rng.choice([0.0, 1e-8, 3.5, 1e-3]), rng.random() < 0.5, rng.random() < 0.5),
                g0=([dy(rng, 1, 4, 16) for _ in range(nf)], [Fraction(0)] * nf),
                thick=rng.choice([None, float(dy(rng, 1, 4, 16))]),
                givenMin=(True if mode == "given" and rng.random() < 0.8 else None),
                givenMax=(True if mode == "given" and rng.random() < 0.8 else None))
    return case


def case_json(case):
    d = {}
    for k, v in case.items():
        if k == "segs":
            d[k] = [s.to_json() for s in v]
        elif isinstance(v, Fraction):
            d[k] = str(v)
        elif isinstance(v, (tuple, list)):
            d[k] = json.loads(json.dumps(v, default=str))
        else:
            d[k] = v
    return d


def case_from_json(d):
    c = dict(d)
    c["segs"] = [Seg.from_json(s) for s in d["segs"]]
    for k in ("vmin", "vmax", "vJ", "fastest", "vLTE"):
        c[k] = Fraction(d[k])
    for k in ("TLow", "THigh", "wbounds", "obounds"):
        c[k] = tuple(Fraction(x) for x in d[k])
    c["g0"] = ([Fraction(x) for x in d["g0"][0]], [Fraction(x) for x in d["g0"][1]])
    c["s0"] = tuple(d["s0"])
    return c


# --------------------------------------------------------------------------------------
# the property itself, evaluated on one synthetic run of the real code

def direct_synthetic(ctx, case, obs):
    """brentq contract with the CONFIGURED tolerance, window, labelling, sources of the
    returned fields -- on what the real solveWall did."""
    cj = case_json(case)
    rec = obs["rec"]
    vmin, vmax = window(case)
    errTol = Fraction(float(case["errTol"]))
    if obs.get("touched"):
        fail(ctx, "solveWall modified a shared collaborator: %s" % "; ".join(obs["touched"]),
             dict(kind="synthetic", case=cj), key="collaborator-mutated")
    if obs["raised"]:
        # only the degenerate bracket may raise (known corner, see the Props file)
        k, v = bracket_phase_counts(case, obs)
        if v < vmax and vmax - v < Fraction(1, 10 ** 10) and "different signs" in obs["raised"]:
            known_or_note(ctx, "degenerate-bracket-raises",
                          "EOM.solveWall lets ValueError('f(a) and f(b) must have different "
                          "signs') escape: doubled lower end %r within 1e-10 of the upper end %r"
                          % (float(v), float(vmax)), dict(kind="synthetic", case=cj))
        else:
            fail(ctx, "solveWall raised %s on a non-degenerate bracket" % obs["raised"],
                           dict(kind="synthetic", case=cj), key="raises")
        return
    ok_label = (obs["type"] == "ERROR") == (not obs["success"])
    if not ok_label:
        fail(ctx, "success=%s but solutionType=%s" % (obs["success"], obs["type"]),
                       dict(kind="synthetic", case=cj), key="label")
    tags = obs["tags"]
    if obs.get("fd_same") is False:
        fail(ctx, "equilibrium mode: the finite-difference Boltzmann results are not the "
                  "results of the final evaluation", dict(kind="synthetic", case=cj),
             key="mixed-sources")
    if len(set(tags.values())) != 1:
        fail(ctx, "returned fields come from different evaluations: %s" % tags,
                       dict(kind="synthetic", case=cj), key="mixed-sources")
    if obs["type"] == "RUNAWAY":
        pmax = find_seg(case["segs"], vmax).p(vmax)
        if not (pmax < 0 and obs["velocity"] is None and obs["success"]):
            fail(ctx, "runaway reported with p(vmax)=%s velocity=%s" % (pmax, obs["velocity"]),
                           dict(kind="synthetic", case=cj), key="runaway")
    if obs["velocity"] is not None:
        v = Fraction(float(obs["velocity"]))
        last = obs["log"][-1]
        if Fraction(last["v"]) != v or tags["hydro"] != len(obs["log"]) - 1:
            fail(ctx, "returned fields are not those of the last evaluation at the "
                           "returned velocity (tags %s, %d evaluations, last at %r, v=%r)"
                           % (tags, len(obs["log"]), last["v"], obs["velocity"]),
                           dict(kind="synthetic", case=cj), key="not-final-eval")
        want_err = float(case["errTol"]) * obs["velocity"]
        if abs(obs["velErr"] - want_err) > 1e-12 * abs(want_err):
            fail(ctx, "wallVelocityError %r is not errTol*vw = %r" % (obs["velErr"], want_err),
                           dict(kind="synthetic", case=cj), key="velocity-error")
    if obs["success"] and obs["velocity"] is not None:
        v = Fraction(float(obs["velocity"]))
        k, vminF = bracket_phase_counts(case, obs)
        if not (vminF <= v <= vmax and vmin <= vminF):
            fail(ctx, "velocity %r outside the searched window [%s, %s]" % (
                obs["velocity"], float(vminF), float(vmax)),
                dict(kind="synthetic", case=cj), key="window")
        if case["mode"] == "deflag" and not (v <= Fraction(case["vJ"]) and obs["type"] == "DEFLAGRATION"):
            fail(ctx, "deflagration search returned v=%r type=%s with vJ=%s" % (
                obs["velocity"], obs["type"], float(case["vJ"])),
                dict(kind="synthetic", case=cj), key="window")
        # hypothesis A (brentq contract) with the configured errTol
        calls = [(Fraction(x), Fraction(y)) for x, y in rec["calls"]]
        fr = [y for x, y in calls if x == v]
        tol = errTol + RTOL_BRENTQ * abs(v) + Fraction(1, 10 ** 15)
        good = False
        if fr:
            for x, y in calls:
                lo, hi = (x, v) if x <= v else (v, x)
                flo, fhi = (y, fr[-1]) if x <= v else (fr[-1], y)
                if hi - lo < tol and flo <= 0 <= fhi:
                    good = True
                    break
        ctx.count("brentq_contract")
        if not good:
            width = min([abs(x - v) for x, y in calls if (y > 0) != (fr[-1] > 0 if fr else True)]
                        or [Fraction(-1)])
            fail(ctx, 
                "success with vw=%r but no sign change of the pressure within errTol=%g of it "
                "among the root finder's evaluations (closest opposite-sign point at distance "
                "%.3g; xtol passed to the root finder: %r)" % (
                    obs["velocity"], float(case["errTol"]), float(width),
                    rec["kw"].get("xtol")),
                dict(kind="synthetic", case=cj, root=obs["velocity"],
                     calls=rec["calls"], xtol_passed=rec["kw"].get("xtol")),
                key="bracket-wider-than-errTol")
    if rec["called"] and "kw" in rec:
        if rec["kw"].get("xtol") != float(case["errTol"]):
            fail(ctx, "the root finder received xtol=%r while the configured errTol is %r"
                 % (rec["kw"].get("xtol"), case["errTol"]),
                 dict(kind="synthetic", case=cj), key="xtol-not-errTol")


# --------------------------------------------------------------------------------------
# detonation search on synthetic curves

def gen_deton_case(rng, scenario=None):
    nf = rng.choice([1, 2])
    errTol = rng.choice([1e-2, 1e-3, 1e-4])
    vJ = Fraction(rng.randint(400, 640), 1024)
    vmin = vJ + Fraction(rng.randint(1, 40), 1024)
    vmax = Fraction(rng.randint(900, 1013), 1024)
    span = vmax - vmin
    scenario = scenario or rng.choice(["root", "root", "root", "runaway", "positive", "posneg",
                                       "multi", "multi", "late"])

    def mkseg(x0, p0, slope):
        s = Seg(x0, p0, slope, nf)
        s.widths = [dy(rng, 1, 4, 16) for _ in range(nf)]
        s.offsets = [Fraction(0)] + [dy(rng, -2, 2, 16) for _ in range(nf - 1)]
        s.Tplus, s.Tminus = dy(rng, 90, 110, 4), dy(rng, 80, 100, 4)
        s.tprofA, s.pressA = rng.random() < 0.7, rng.random() < 0.7
        return s

    if scenario in ("root", "late"):
        f = rng.randint(40, 62) if scenario == "late" else rng.randint(2, 60)
        r = vmin + span * Fraction(f, 64)
        slope = Fraction(rng.randint(4, 400), 4)
        segs = [mkseg(0, -slope * r, slope)]
    elif scenario == "runaway":
        segs = [mkseg(0, -Fraction(rng.randint(1, 100), 4), Fraction(rng.randint(0, 3), 4))]
    elif scenario == "positive":
        segs = [mkseg(0, Fraction(rng.randint(1, 40), 4), Fraction(rng.randint(0, 8), 4))]
    elif scenario == "posneg":
        segs = [mkseg(0, Fraction(rng.randint(1, 40), 4), 0),
                mkseg(vmin + span * Fraction(rng.randint(8, 56), 64),
                      -Fraction(rng.randint(1, 40), 4), 0)]
    else:   # multi: down-crossing in between two up-crossings
        a = vmin + span * Fraction(rng.randint(6, 18), 64)
        b_ = vmin + span * Fraction(rng.randint(24, 38), 64)
        c_ = vmin + span * Fraction(rng.randint(44, 58), 64)
        segs = [mkseg(0, -2, 0), mkseg(a, 3, 0), mkseg(b_, -4, 0), mkseg(c_, 5, 1)]
    fault = rng.choice(["none"] * 5 + ["tprof", "press", "TminusLo", "TplusHi", "widthHi"])
    Tn = rng.choice([64.0, 83.0, 7.3])
    wraw = (0.1, rng.choice([100.0, 7.0]))
    wlo, whi = Fraction(wraw[0] / Tn), Fraction(wraw[1] / Tn)
    TLow, THigh = (Fraction(50), Fraction(120)), (Fraction(60), Fraction(150))
    for sg in segs:
        if fault == "tprof":
            sg.tprofB = False
        if fault == "press":
            sg.pressB = False
        if fault == "TminusLo":
            sg.Tminus = TLow[0] - Fraction(1, 4)
        if fault == "TplusHi":
            sg.Tplus = THigh[1] + Fraction(1, 4)
        if fault == "widthHi":
            sg.widths[0] = whi
    return dict(nf=nf, errTol=errTol, rel=rng.choice([0.1, 0.01]), mode="deton", vmin=vmin,
                vmax=vmax, vJ=vJ, fastest=vJ, vLTE=dy(rng, 0.1, 0.9, 64), segs=segs,
                scenario="deton-" + scenario, fault=fault, maxiter=None, TLow=TLow, THigh=THigh,
                wbounds=(wlo, whi), obounds=(Fraction(-10), Fraction(10)), Tn=Tn, wraw=wraw,
                s0=(rng.choice([0.0, 1e-8, 3.5]), rng.random() < 0.5, rng.random() < 0.5),
                g0=([Fraction(1)] * nf, [Fraction(0)] * nf),
                thick=rng.choice([None, float(dy(rng, 1, 4, 16))]),
                givenMin=None, givenMax=None, npmin=rng.choice([3, 5]),
                npmax=rng.choice([8, 20]), overshoot=rng.choice([0.05, 0.2]),
                onlySmallest=rng.random() < 0.6)


def direct_deton(ctx, case, out):
    """what the detonation search must satisfy, on the real findWallVelocityDetonation; returns
    the (subcase, obs) pairs of the solveWall calls it made (each is a `given` correspondence
    case for the Coq model)"""
    cj = case_json(case)
    rep = dict(kind="synthetic-deton", case=cj)
    segs = case["segs"]
    vmin, vmax, vJ = Fraction(case["vmin"]), Fraction(case["vmax"]), Fraction(case["vJ"])
    log = out["log"]
    subs = []
    if out["raised"]:
        # known class (narrow): ZeroDivisionError out of nextStepDeton because a scan point hit
        # a pressure of exactly 0.0 (the step-size estimate divides by |pressure2|)
        scan0 = [e for e in log if e["atol"] == 0.0]
        zero = [e["v"] for e in scan0
                if find_seg(segs, Fraction(e["v"])).p(Fraction(e["v"])) == 0]
        if "ZeroDivisionError" in out["raised"] and zero and \
                "nextStepDeton" in out.get("raised_in", []):
            known_or_note(ctx, "deton-zero-pressure-scan-point",
                          "EOM.findWallVelocityDetonation lets ZeroDivisionError escape from "
                          "helpers.nextStepDeton (pressure1 /= abs(pressure2)) when a scan point "
                          "has a pressure of exactly 0.0 and the scan goes on (onlySmallest="
                          "False, or the bracket at that point was not accepted); scan point "
                          "%r" % zero[0], rep)
        else:
            fail(ctx, "findWallVelocityDetonation raised %s" % out["raised"], rep, key="raises")
        # the solveWall calls made before the exception are judged all the same (below)
    for c in out["calls"]:
        vlo, vhi = Fraction(c["vlo"]), Fraction(c["vhi"])
        ctx.count("deton_solveWall_call")
        ok = c["tlo"] is not None and c["thi"] is not None
        if ok:
            (plo, tlo), (phi_, thi) = c["tlo"], c["thi"]
            ok = (0 <= tlo < len(log) and 0 <= thi < len(log)
                  and Fraction(log[tlo]["v"]) == vlo and Fraction(log[thi]["v"]) == vhi
                  and plo == float(find_seg(segs, vlo).p(vlo))
                  and phi_ == float(find_seg(segs, vhi).p(vhi)))
        if not ok:
            fail(ctx, "detonation search handed solveWall(%r, %r) end tuples that were not "
                      "evaluated at those ends: %s / %s" % (c["vlo"], c["vhi"], c["tlo"], c["thi"]),
                 rep, key="deton-tuple-pairing")
            continue
        if not (vmin <= vlo < vhi <= vmax and c["tlo"][0] <= 0 <= c["thi"][0]):
            fail(ctx, "detonation search bracket [%r, %r] (p=%r, %r) outside [%r, %r] or "
                      "without sign change" % (c["vlo"], c["vhi"], c["tlo"][0], c["thi"][0],
                                               float(vmin), float(vmax)), rep, key="window")
        sub = dict(case, mode="given", vmin=vlo, vmax=vhi, s0=c["s0"], givenMin=True,
                   givenMax=True, g0=([Fraction(x) for x in c["g0"][0]],
                                      [Fraction(x) for x in c["g0"][1]]))
        obs = c["obs"]
        direct_synthetic(ctx, sub, obs)
        if not obs["raised"] and obs.get("success") and obs.get("velocity") is not None:
            if obs["type"] != "DETONATION" or not Fraction(float(obs["velocity"])) > vJ:
                fail(ctx, "detonation search: success at v=%r typed %s (vJ=%s)" % (
                    obs["velocity"], obs["type"], float(vJ)), rep, key="window")
        subs.append((sub, obs))
    if out["raised"]:
        return subs
    res = out["results"]
    scan = [e for e in log if e["atol"] == 0.0]
    pIni = find_seg(segs, vmin).p(vmin)
    pLast = find_seg(segs, Fraction(scan[-1]["v"])).p(Fraction(scan[-1]["v"])) if scan else None
    if out["calls"]:
        if len(res) != len(out["calls"]) or (case["onlySmallest"] and len(res) != 1):
            fail(ctx, "detonation search returned %d results for %d brackets" % (
                len(res), len(out["calls"])), rep, key="deton-results")
        for r, c in zip(res, out["calls"]):
            o = c["obs"]
            if (r["success"], r["type"], r["velocity"]) != (o.get("success"), o.get("type"),
                                                            o.get("velocity")):
                fail(ctx, "detonation search result %s is not what solveWall returned %s" % (
                    r, {k: o.get(k) for k in ("success", "type", "velocity")}), rep,
                    key="deton-results")
    else:
        ok = len(res) == 1 and res[0]["success"] is True and res[0]["velocity"] is None
        if ok:
            t = res[0]["type"]
            ok = ((t == "RUNAWAY" and pLast <= 0 and not (pIni > 0 > pLast))
                  or (t == "DEFLAGRATION" and pIni > 0 and pLast > 0)
                  or (t == "DEFLAGRATION_OR_RUNAWAY" and pIni > 0 > pLast))
        if not ok:
            fail(ctx, "detonation search without a bracket returned %s with p(vmin)=%s, "
                      "p(last probed)=%s" % (res, float(pIni), None if pLast is None else
                                             float(pLast)), rep, key="deton-verdict")
    for r in res:
        if (r["type"] == "ERROR") != (not r["success"]):
            fail(ctx, "detonation result success=%s type=%s" % (r["success"], r["type"]), rep,
                 key="label")
    # every scan point lies in the window, the first one is vmin
    if scan and (Fraction(scan[0]["v"]) != vmin or
                 any(not (vmin <= Fraction(e["v"]) <= vmax) for e in scan)):
        fail(ctx, "detonation scan left [vmin, vmax]: %s" % [e["v"] for e in scan], rep,
             key="window")
    return subs


def correspondence(ctx, proved):
    rng = ctx.rng
    n = ctx.n(260, 5000)
    terms, kept = [], []
    # the degenerate-bracket corner (known finding) is visited a FIXED number of times per run,
    # once per call style, so that the number of hits of that class is the same on every seed
    scen = ["root", "runaway", "doubling", "positive", "multi", "zero_end", "nonconv",
            "degenerate:direct", "degenerate:given", "degenerate:deflag"] + \
           ([] if ctx.quick else ["degenerate:direct"])
    for i in range(n):
        case = gen_case(rng, scenario=scen[i] if i < len(scen) else None)
        try:
            obs = run_impl(case)
        except Exception as e:
            fail(ctx, "solveWall raised %r" % e, dict(kind="synthetic", case=case_json(case)),
                           key="raises")
            ctx.log(traceback.format_exc())
            continue
        bucket = "raised" if obs["raised"] else "%s/%s" % (obs["type"], msg_kind(obs))
        ctx.count("synthetic_run", case_json(case), bucket=bucket)
        ctx.count("scenario", None, nontrivial=False, bucket="%s/%s" % (case["mode"], case["scenario"]))
        direct_synthetic(ctx, case, obs)
        if not obs["raised"] and msg_kind(obs) == "MsgUnclassified":
            ctx.broken.append("correspondence: message %r is none of the messages of "
                              "solveWall's exits" % obs["message"][:80])
            continue
        terms.append(coq_case(case, obs))
        kept.append((case, obs))
        if i < 2:
            ctx.sample(dict(case=case_json(case), observed={k: obs[k] for k in obs
                                                           if k not in ("log", "rec")},
                            evaluations=[e["v"] for e in obs["log"]]))
    # the detonation search: real findWallVelocityDetonation on the same kind of curves; each
    # solveWall call it makes is one more correspondence case (both end tuples supplied)
    dscen = ["root", "runaway", "positive", "posneg", "multi", "late"]
    for i in range(ctx.n(60, 1000)):
        case = gen_deton_case(rng, scenario=dscen[i] if i < len(dscen) else None)
        try:
            out = run_deton(case)
        except Exception as e:
            fail(ctx, "findWallVelocityDetonation raised %r" % e,
                 dict(kind="synthetic-deton", case=case_json(case)), key="raises")
            ctx.log(traceback.format_exc())
            continue
        verdict = "+".join(sorted({r["type"] for r in out["results"]})) if out["results"] \
            else "raised"
        ctx.count("synthetic_deton_run", case_json(case),
                  bucket="%s/%d calls/%s" % (case["scenario"], len(out["calls"]), verdict))
        for sub, obs in direct_deton(ctx, case, out):
            if obs["raised"] or msg_kind(obs) != "MsgUnclassified":
                terms.append(coq_case(sub, obs))
                kept.append((sub, obs))
    if proved:
        bad = ctx.run_cases("corr", HEADER, terms, per_file=70)
        for bfile in bad:
            ctx.broken.append("correspondence: model vs EOM.solveWall %s" % bfile["file"])
            ctx.log("correspondence failure", json.dumps(bfile)[:600])
            for idx in bfile["cases"][:3]:
                case, obs = kept[idx]
                ctx.log("  case", json.dumps(case_json(case))[:1500])
                ctx.log("  observed", json.dumps({k: obs[k] for k in obs if k != "rec"},
                                                 default=str)[:1500])
    return kept


def zero_scan_witness(ctx):
    """recorded input of the known class deton-zero-pressure-scan-point, replayed on every run"""
    nf = 1
    case = dict(nf=nf, errTol=1e-2, rel=0.1, mode="deton", vmin=Fraction(211, 512),
                vmax=Fraction(951, 1024), vJ=Fraction(13, 32), fastest=Fraction(13, 32),
                vLTE=Fraction(1, 2), segs=[Seg(0, Fraction(-108633, 8192), Fraction(49, 2), nf)],
                scenario="deton-zero-scan", fault="none", maxiter=None, TLow=(10, 200),
                THigh=(10, 200), wbounds=(Fraction(1, 128), 10), obounds=(-10, 10),
                s0=(0.0, True, True), g0=([Fraction(1)], [Fraction(0)]), thick=None,
                givenMin=None, givenMax=None, npmin=5, npmax=20, overshoot=0.05,
                onlySmallest=False)
    out = run_deton(case)
    ctx.count("zero_scan_witness")
    if out["raised"] and "ZeroDivisionError" in out["raised"]:
        direct_deton(ctx, case, out)
    else:
        ctx.log("note: the recorded zero-pressure scan input no longer raises:", out["raised"],
                out["results"])
        direct_deton(ctx, case, out)
    return out


def degenerate_witness(ctx):
    """Replay of the Coq witness of unsuccessful_always_labelled_refuted on the real code."""
    nf = 1
    vmax = Fraction(1, 2) + Fraction(1, 2 ** 40)
    segs = [Seg(0, 1, 0, nf), Seg(Fraction(3, 10), -1, 0, nf), Seg(vmax, 2, 0, nf)]
    case = dict(nf=nf, errTol=1e-3, rel=0.1, mode="direct", vmin=Fraction(1, 4), vmax=vmax,
                vJ=Fraction(7, 10), fastest=vmax, vLTE=Fraction(1, 2), segs=segs,
                scenario="degenerate", fault="none", maxiter=None, TLow=(10, 200),
                THigh=(10, 200), wbounds=(Fraction(1, 128), 10), obounds=(-10, 10),
                s0=(0.0, True, True), g0=([Fraction(1)], [Fraction(0)]), thick=None,
                givenMin=None, givenMax=None)
    obs = run_impl(case)
    ctx.count("degenerate_witness")
    if obs["raised"]:
        what = ("EOM.solveWall lets ValueError('f(a) and f(b) must have different signs') "
                "escape (no WallGoResults, not labelled ERROR) when the doubled lower end "
                "lands within 1e-10 of the upper end: solveWall(0.25, 0.5+2**-40, ...) with "
                "pressure >0 below 0.3, <0 on [0.3, 0.5], >0 at the upper end")
        listed = any(k.get("property") == "C01" and k.get("key") == "degenerate-bracket-raises"
                     for k in ctx.known.get("findings", []))
        if listed:
            fail(ctx, what, dict(kind="degenerate", case=case_json(case)),
                           key="degenerate-bracket-raises")
        else:
            ctx.log("NOTE (unlisted corner finding, see Props/C01.v "
                    "unsuccessful_always_labelled_refuted):", what)
            ctx.cov.setdefault("findings_not_listed", []).append(
                dict(key="degenerate-bracket-raises", what=what, case=case_json(case)))
        return case, obs
    ctx.broken.append("witness: the degenerate bracket no longer raises on the implementation "
                      "(model outcome RRaises is stale)")
    return case, obs


# ======================================================================================
# end to end: WallGoManager on a one-field quartic model (equilibrium mode)

def make_model(params):
    import WallGo
    from WallGo import EffectivePotential, Fields, GenericModel

    class QPot(EffectivePotential):
        fieldCount = 1
        effectivePotentialError = 1e-15

        def __init__(self, owner):
            super().__init__()
            self.owner = owner

        def evaluate(self, fields, temperature):
            p = self.owner.modelParameters
            fields = Fields(fields)
            phi = fields.getField(0)
            T = np.asarray(temperature)
            return (p["D"] * (T ** 2 - p["T0"] ** 2) * phi ** 2 - p["E"] * T * phi ** 3
                    + p["lam"] / 4 * phi ** 4 - p["g"] * math.pi ** 2 / 90 * T ** 4)

    class QModel(GenericModel):
        def __init__(self, params):
            self.modelParameters = dict(params)
            self.potential = QPot(self)

        @property
        def fieldCount(self):
            return 1

        def getEffectivePotential(self):
            return self.potential

    return QModel(params)


def phi_broken(p, T):
    disc = 9 * p["E"] ** 2 * T ** 2 - 8 * p["lam"] * p["D"] * (T ** 2 - p["T0"] ** 2)
    return (3 * p["E"] * T + math.sqrt(disc)) / (2 * p["lam"])


def new_manager(params, errTol, M=20, maxIter=None):
    import WallGo
    m = WallGo.WallGoManager()
    m.setVerbosity(logging.ERROR)
    m.config.configGrid.spatialGridSize = M
    m.config.configEOM.errTol = errTol
    if maxIter is not None:
        m.config.configEOM.maxIterations = maxIter
    model = make_model(params)
    m.registerModel(model)
    return m, model


def set_point(m, model, params, Tn):
    import WallGo
    from WallGo import Fields
    model.modelParameters.update(params)
    m.setupThermodynamicsHydrodynamics(
        WallGo.PhaseInfo(temperature=Tn, phaseLocation1=Fields([0.0]),
                         phaseLocation2=Fields([phi_broken(model.modelParameters, Tn)])),
        WallGo.VeffDerivativeSettings(temperatureVariationScale=2.0,
                                      fieldValueVariationScale=[50.0]))


def settings(thick=5.0):
    import WallGo
    return WallGo.WallSolverSettings(bIncludeOffEquilibrium=False, meanFreePathScale=50.0,
                                     wallThicknessGuess=thick)


def summary(r):
    f = lambda x: None if x is None else float(x)
    g = lambda name: getattr(r, name, None)
    arr = lambda x: None if x is None else [float(y) for y in np.atleast_1d(x)]
    return dict(success=bool(r.success), type=r.solutionType.name, message=r.message,
                vw=f(g("wallVelocity")), err=f(g("wallVelocityError")),
                lte=f(g("wallVelocityLTE")), Tplus=f(g("temperaturePlus")),
                Tminus=f(g("temperatureMinus")), vJ=f(g("velocityJouguet")),
                widths=arr(g("wallWidths")), offsets=arr(g("wallOffsets")))


POINT_A = dict(D=0.2, E=0.05, lam=0.1, T0=80.0, g=100.0)
POINT_B = dict(D=0.2, E=0.052, lam=0.1, T0=80.0, g=100.0)
TN = 83.0


def e2e_sign_and_window(ctx, params, errTol, res, label, M=20, calls=None, maxIter=None,
                        thick=5.0, Tn=TN, conf=None):
    """property on one result: window, labelling, pressure sign change at vw -+ k errTol on a
    FRESH EOM of a FRESH manager"""
    from WallGo.containers import WallParams
    rep = dict(kind="e2e", params=params, Tn=Tn, errTol=errTol, M=M, label=label,
               maxIter=maxIter, thick=thick, result=summary(res))
    m2, model2 = new_manager(params, errTol, M, maxIter)
    for k_, v_ in (conf or {}).items():
        setattr(m2.config.configEOM, k_, v_)
    rep["configEOM"] = conf
    set_point(m2, model2, params, Tn)
    hyd = m2.hydrodynamics
    if (res.solutionType.name == "ERROR") != (not res.success):
        fail(ctx, "e2e: success=%s with type %s" % (res.success, res.solutionType.name),
                       rep, key="label")
    if res.solutionType.name == "RUNAWAY" and res.wallVelocity is not None:
        fail(ctx, "e2e: runaway with a velocity", rep, key="runaway")
    if not (res.success and res.wallVelocity is not None):
        return
    vw = float(res.wallVelocity)
    vmax = min(hyd.vJ, hyd.fastestDeflag())
    ctx.count("e2e_window")
    if not (hyd.vMin <= vw <= vmax and res.solutionType.name == "DEFLAGRATION"):
        fail(ctx, "e2e: vw=%r outside [vMin=%r, min(vJ,fastestDeflag)=%r] or type %s" % (
            vw, hyd.vMin, vmax, res.solutionType.name), rep, key="window")
    if res.velocityJouguet != hyd.vJ:
        fail(ctx, "e2e: returned vJ=%r is not the current hydrodynamics' vJ=%r" % (
            res.velocityJouguet, hyd.vJ), rep, key="history")
    eom = m2.setupWallSolver(settings(thick)).eom
    # reference for (ii): same fresh manager, inner iteration allowed to run to convergence
    eom_ref = m2.setupWallSolver(settings(thick)).eom
    eom_ref.maxIterations = max(50, eom_ref.maxIterations)
    # (i) the function the solver saw: its own last first-guess and pressure tolerance, on the
    #     fresh EOM.  At the reported velocity this must reproduce the solver's final pressure
    #     bit for bit (wallPressure is a function of (v, guess, tolerance) only).
    ps_solver = None
    if calls:
        last = calls[-1]
        rep["solver_calls"] = [dict(v=c["v"], atol=c["atol"], guess=c["guess"][0],
                                    pressure=c["pressure"], widths_out=c["out"][0])
                               for c in calls]
        mk = lambda: WallParams(widths=np.array(last["guess"][0], dtype=float),
                                offsets=np.array(last["guess"][1], dtype=float))
        p0 = float(eom.wallPressure(vw, mk(), atol=last["atol"])[0])
        ctx.count("e2e_pressure_eval")
        if last["v"] != vw or p0 != last["pressure"]:
            fail(ctx, "e2e: re-evaluating the final call (v=%r, same guess and tolerance) on a "
                      "fresh EOM gives P=%r, the solver saw P=%r at v=%r [%s]" % (
                          vw, p0, last["pressure"], last["v"], label), rep, key="history")
        ps_solver = {}
        for k in (-2, 2):
            ps_solver[k] = float(eom.wallPressure(vw + k * errTol, mk(), atol=last["atol"])[0])
            ctx.count("e2e_pressure_eval")
        rep["pressures_solver_guess"] = ps_solver
    # (ii) the property's own recipe: EOM.wallPressure(vw -+ k errTol, returned wallParams)
    ps = {}
    wout = {}
    for k in (-2, 2):
        g = WallParams(widths=np.array(res.wallWidths, dtype=float).copy(),
                       offsets=np.array(res.wallOffsets, dtype=float).copy())
        r = eom_ref.wallPressure(vw + k * errTol, g, atol=1e-10, rtol=1e-6)
        if not eom_ref.successWallPressure:
            ctx.log("note: reference pressure evaluation did not converge at", vw + k * errTol)
        ps[k] = float(r[0])
        wout[k] = [float(x) for x in r[1].widths]
        ctx.count("e2e_pressure_eval")
    rep["pressures"] = ps
    rep["widths_reevaluated"] = wout
    # tolerance margin of the sign test: distance of the (linearly interpolated) zero from the
    # reported velocity in units of the half-width 2*errTol of the test interval (< 1 = pass)
    for name, pp in (("returned_wallParams", ps), ("solver_guess", ps_solver)):
        if pp and pp[2] != pp[-2]:
            off = abs((pp[2] + pp[-2]) / (pp[2] - pp[-2]))
            ctx.cov.setdefault("margins", []).append(
                dict(test="sign change at vw-+2errTol (%s)" % name, label=label, errTol=errTol,
                     zero_offset_over_halfwidth=round(off, 4)))
    if ps_solver is not None and not (ps_solver[-2] < 0 < ps_solver[2]):
        fail(ctx,
             "e2e: pressure (solver's own first guess and tolerance, fresh EOM) does not change "
             "sign within 2*errTol of the reported velocity: P(%r - 2*%g) = %.6g, "
             "P(vw + 2*%g) = %.6g  [%s]" % (vw, errTol, ps_solver[-2], errTol, ps_solver[2],
                                            label), rep, key="no-sign-change")
    elif not (ps[-2] < 0 < ps[2]):
        extra = ""
        if ps_solver is not None:
            extra = ("; with the solver's own first guess (widths %s) it does: %.6g / %.6g -- "
                     "the reported velocity is a zero only of a guess-dependent branch of "
                     "wallPressure (re-evaluated widths %s vs returned %s)" % (
                         calls[-1]["guess"][0], ps_solver[-2], ps_solver[2], wout[2],
                         [float(x) for x in res.wallWidths]))
        what = ("e2e: pressure does not change sign within 2*errTol of the reported velocity: "
                "P(%r - 2*%g) = %.6g, P(vw + 2*%g) = %.6g  [%s]%s" % (
                    vw, errTol, ps[-2], errTol, ps[2], label, extra))
        frozen = (conf or {}).get("conserveEnergyMomentum") is False
        if frozen and ps_solver is not None and ps_solver[-2] < 0 < ps_solver[2]:
            # known class (narrow): profiles frozen (conserveEnergyMomentum=False), the
            # solver's-own-guess test passes, only the returned-wallParams recipe fails
            known_or_note(ctx, "frozen-profiles-root-depends-on-guess", what, rep)
        else:
            fail(ctx, what, rep, key="no-sign-change" if ps_solver is None else
                 "no-sign-change-from-returned-wallParams")
    # T+, T- returned are those of the hydrodynamic matching at the returned velocity
    c1, c2, Tp, Tm, vmid = hyd.findHydroBoundaries(vw)
    if abs(Tp - res.temperaturePlus) > 1e-9 * Tp or abs(Tm - res.temperatureMinus) > 1e-9 * Tm:
        fail(ctx, "e2e: returned T+/T- (%r, %r) are not those at the returned velocity "
                       "(%r, %r)" % (res.temperaturePlus, res.temperatureMinus, Tp, Tm), rep,
                       key="not-final-eval")


def snapshot(obj, depth=0):
    """plain nested structure of a config / settings object, for before/after comparison"""
    if depth > 6:
        return repr(obj)
    if isinstance(obj, (int, float, str, bool, type(None))):
        return (type(obj).__name__, obj)
    if isinstance(obj, (list, tuple)):
        return [type(obj).__name__] + [snapshot(x, depth + 1) for x in obj]
    if isinstance(obj, dict):
        return {str(k): snapshot(v, depth + 1) for k, v in sorted(obj.items(), key=str)}
    if isinstance(obj, np.ndarray):
        return ("ndarray", obj.tolist())
    if hasattr(obj, "__dict__"):
        return {k: snapshot(v, depth + 1) for k, v in sorted(vars(obj).items())}
    return repr(obj)


class Unchanged:
    """the manager's config, the WallSolverSettings and the identity of its model /
    thermodynamics / hydrodynamics must be the same after a solver call as before"""

    def __init__(self, ctx, m, S, label, rep):
        self.ctx, self.m, self.S, self.label, self.rep = ctx, m, S, label, rep

    def __enter__(self):
        import copy
        m = self.m
        self.config_before = copy.deepcopy(m.config)
        self.before = (snapshot(m.config), snapshot(self.S) if self.S is not None else None)
        self.ids = (id(m.model), id(m.thermodynamics), id(m.hydrodynamics), id(m.phasesAtTn))
        self.params = dict(m.model.modelParameters)
        return self

    def __exit__(self, et, ev, tb):
        m = self.m
        after = (snapshot(m.config), snapshot(self.S) if self.S is not None else None)
        bad = []
        if after != self.before:
            def diff(a, b, path=""):
                if isinstance(a, dict) and isinstance(b, dict):
                    for k in sorted(set(a) | set(b)):
                        diff(a.get(k), b.get(k), path + "." + k)
                elif a != b:
                    bad.append("%s: %r -> %r" % (path, a, b))
            diff(self.before[0], after[0], "config")
            diff(self.before[1], after[1], "settings")
        if self.ids != (id(m.model), id(m.thermodynamics), id(m.hydrodynamics),
                        id(m.phasesAtTn)):
            bad.append("model/thermodynamics/hydrodynamics/phasesAtTn object replaced")
        if self.params != dict(m.model.modelParameters):
            bad.append("model parameters changed")
        self.ctx.count("e2e_unchanged_guard")
        if bad:
            fail(self.ctx, "e2e [%s]: the call changed the manager's settings: %s" % (
                self.label, "; ".join(bad)), dict(self.rep, label=self.label, mutated=bad),
                key="settings-mutated")
        return False


def recorded_solve(m, S):
    """manager.solveWall with every EOM.wallPressure call recorded and the root finder's
    keywords spied on (bound methods / module functions wrapped from outside for the duration
    of the call).  recorded_solve.spy holds the EOM object(s) used and the xtol values."""
    import scipy.optimize
    from WallGo.equationOfMotion import EOM
    orig = EOM.wallPressure
    orig_rs = scipy.optimize.root_scalar
    import copy
    calls = []
    spy = dict(eoms=[], xtol=[], config_before=copy.deepcopy(m.config),
               settings_before=copy.deepcopy(S))

    def wallPressure(self, wallVelocity, wallParams, atol=None, rtol=None,
                     boltzmannResultsInput=None):
        if not any(e is self for e in spy["eoms"]):
            spy["eoms"].append(self)
        guess = ([float(x) for x in wallParams.widths], [float(x) for x in wallParams.offsets])
        a = float(self.pressAbsErrTol if atol is None else atol)
        r = orig(self, wallVelocity, wallParams, atol, rtol, boltzmannResultsInput)
        calls.append(dict(v=float(wallVelocity), atol=a, guess=guess, pressure=float(r[0]),
                          out=([float(x) for x in r[1].widths],
                               [float(x) for x in r[1].offsets]),
                          pressOk=bool(self.successWallPressure),
                          tprofOk=bool(self.successTemperatureProfile)))
        return r

    def root_scalar(f, *a, **kw):
        # only the root finder call made by EOM.solveWall itself (its function argument is a
        # closure of solveWall); hydrodynamics makes root_scalar calls of its own
        if getattr(f, "__qualname__", "").startswith("EOM.solveWall.<locals>"):
            spy["xtol"].append(kw.get("xtol"))
        return orig_rs(f, *a, **kw)

    EOM.wallPressure = wallPressure
    scipy.optimize.root_scalar = root_scalar
    try:
        res = m.solveWall(S)
    finally:
        EOM.wallPressure = orig
        scipy.optimize.root_scalar = orig_rs
    recorded_solve.spy = spy
    return res, calls


def detonation_spied(m, S):
    """manager.solveWallDetonation with the arguments of EOM.findWallVelocityDetonation
    recorded"""
    from WallGo.equationOfMotion import EOM
    orig = EOM.findWallVelocityDetonation
    got = {}

    def findWallVelocityDetonation(self, vmin, vmax, *a, **kw):
        names = ["wallThicknessIni", "nbrPointsMin", "nbrPointsMax", "overshootProb", "rtol",
                 "onlySmallest"]
        d = dict(zip(names, a))
        d.update(kw)
        got.update(vmin=float(vmin), vmax=float(vmax), rtol=d.get("rtol"),
                   eom_errTol=self.errTol, hydro_is_current=self.hydrodynamics is m.hydrodynamics
                   and self.thermo is m.thermodynamics)
        return orig(self, vmin, vmax, *a, **kw)

    EOM.findWallVelocityDetonation = findWallVelocityDetonation
    try:
        res = m.solveWallDetonation(S)
    finally:
        EOM.findWallVelocityDetonation = orig
    return res, got


def check_settings(ctx, m, S, res, rep, label):
    """the EOM that just solved was built from the manager's CURRENT settings and objects, the
    root finder got the configured tolerance, the reported error is errTol * vw"""
    spy = recorded_solve.spy
    # what was configured BEFORE the call (a call that rewrites the config must not be able to
    # make itself consistent), and the config must still be that afterwards
    cb = spy["config_before"]
    ce, cg = cb.configEOM, cb.configGrid
    ctx.count("e2e_settings_spy")
    bad = []
    if snapshot(m.config) != snapshot(cb):
        bad.append("the call changed the manager's config")
    if snapshot(S) != snapshot(spy["settings_before"]):
        bad.append("the call changed the WallSolverSettings")
    S = spy["settings_before"]
    if len(spy["eoms"]) != 1:
        bad.append("%d EOM objects evaluated the pressure" % len(spy["eoms"]))
    for eom in spy["eoms"]:
        for attr, want in (("errTol", ce.errTol), ("maxIterations", ce.maxIterations),
                           ("pressRelErrTol", ce.pressRelErrTol),
                           ("forceEnergyConservation", ce.conserveEnergyMomentum),
                           ("wallThicknessBounds", ce.wallThicknessBounds),
                           ("wallOffsetBounds", ce.wallOffsetBounds),
                           ("includeOffEq", S.bIncludeOffEquilibrium)):
            got = getattr(eom, attr, "<missing>")
            if got != want or type(got) is not type(want):
                bad.append("EOM.%s = %r, configured %r" % (attr, got, want))
        if eom.thermo is not m.thermodynamics:
            bad.append("EOM.thermo is not the manager's current thermodynamics")
        if eom.hydrodynamics is not m.hydrodynamics:
            bad.append("EOM.hydrodynamics is not the manager's current hydrodynamics")
        if eom.grid.M != cg.spatialGridSize or eom.grid.N != cg.momentumGridSize:
            bad.append("grid %dx%d, configured %dx%d" % (eom.grid.M, eom.grid.N,
                                                        cg.spatialGridSize, cg.momentumGridSize))
        if eom.grid is not eom.boltzmannSolver.grid:
            bad.append("EOM and BoltzmannSolver use different grids")
        if eom.nbrFields != m.model.fieldCount:
            bad.append("EOM.nbrFields=%r, model has %r" % (eom.nbrFields, m.model.fieldCount))
    for x in spy["xtol"]:
        if x != ce.errTol:
            bad.append("root finder got xtol=%r, configured errTol=%r" % (x, ce.errTol))
    if res.wallVelocity is not None and res.wallVelocityError != ce.errTol * res.wallVelocity:
        bad.append("wallVelocityError=%r, errTol*vw=%r" % (res.wallVelocityError,
                                                          ce.errTol * res.wallVelocity))
    if res.wallVelocity is not None and not spy["xtol"]:
        bad.append("a velocity was reported without a root finder call")
    if bad:
        fail(ctx, "e2e [%s]: solver not built from the current settings: %s" % (
            label, "; ".join(bad)), dict(rep, label=label, stale=bad), key="stale-settings")


def same(a, b):
    return json.dumps(a, sort_keys=True) == json.dumps(b, sort_keys=True)


def e2e_history(ctx, errTol, thorough_extra=False):
    """one manager, a history of calls; every answer must be bit-identical to the answer of a
    manager that has seen nothing else"""
    S = settings()
    hist = []
    m, model = new_manager(POINT_A, errTol)
    set_point(m, model, POINT_A, TN)
    rA1, callsA = recorded_solve(m, S)
    check_settings(ctx, m, S, rA1, dict(kind="history", errTol=errTol), "first solve")
    hist.append("solveWall@A")
    sA1 = summary(rA1)
    ctx.count("e2e_solve", dict(point="A", errTol=errTol))
    rep = dict(kind="history", errTol=errTol, A=POINT_A, B=POINT_B, Tn=TN)
    with Unchanged(ctx, m, S, "solveWall (repeat)", dict(rep, history=list(hist))):
        sA2 = summary(m.solveWall(S))
    hist.append("solveWall@A")
    ctx.count("e2e_solve")
    if not same(sA1, sA2):
        fail(ctx, "repeating solveWall on the same manager changed the result: %s vs %s"
                       % (sA1, sA2), dict(rep, history=list(hist)), key="history")
    with Unchanged(ctx, m, None, "wallSpeedLTE", dict(rep, history=list(hist))):
        lte = m.wallSpeedLTE()
    hist.append("wallSpeedLTE")
    try:
        with Unchanged(ctx, m, S, "solveWallDetonation", dict(rep, history=list(hist))) as g:
            det, dargs = detonation_spied(m, S)
        hist.append("solveWallDetonation")
        hyd, ce = m.hydrodynamics, g.config_before.configEOM
        drep = dict(rep, history=list(hist), detonation_args=dargs)
        ctx.count("e2e_detonation")
        want_lo = max(hyd.vJ + 1e-3, hyd.slowestDeton())
        if not (dargs and dargs["vmin"] == want_lo and dargs["vmin"] > hyd.vJ
                and dargs["vmax"] == ce.vwMaxDeton and dargs["vmin"] < dargs["vmax"] < 1
                and dargs["rtol"] == ce.errTol and dargs["eom_errTol"] == ce.errTol
                and dargs["hydro_is_current"]):
            fail(ctx, "solveWallDetonation searched %s; expected window [max(vJ+1e-3, "
                      "slowestDeton)=%r, vwMaxDeton=%r] with errTol=%r on the current "
                      "hydrodynamics" % (dargs, want_lo, ce.vwMaxDeton, ce.errTol), drep,
                 key="window")
        for d in det:
            if (d.solutionType.name == "ERROR") != (not d.success):
                fail(ctx, "detonation result success=%s type=%s" % (
                    d.success, d.solutionType.name), drep, key="label")
            if d.wallVelocity is not None and d.success and not (
                    dargs["vmin"] <= d.wallVelocity <= dargs["vmax"]
                    and d.solutionType.name == "DETONATION"):
                fail(ctx, "detonation velocity %r (%s) outside the searched window %s" % (
                    d.wallVelocity, d.solutionType.name, dargs), drep, key="window")
            if d.wallVelocity is None and not (d.success and d.solutionType.name in (
                    "RUNAWAY", "DEFLAGRATION", "DEFLAGRATION_OR_RUNAWAY")):
                fail(ctx, "detonation search without velocity: success=%s type=%s" % (
                    d.success, d.solutionType.name), drep, key="label")
        # the same search on a manager that has seen nothing else
        mfd, modelfd = new_manager(POINT_A, errTol)
        set_point(mfd, modelfd, POINT_A, TN)
        detf = mfd.solveWallDetonation(S)
        if [summary(x) for x in det] != [summary(x) for x in detf]:
            fail(ctx, "solveWallDetonation depends on call history: %s after %s, %s on a fresh "
                      "manager" % ([summary(x)["type"] for x in det], " -> ".join(hist[:-1]),
                                   [summary(x)["type"] for x in detf]), drep, key="history")
        # a runaway verdict: the pressure at the top of the searched window is negative
        if len(det) == 1 and det[0].solutionType.name == "RUNAWAY" and dargs:
            from WallGo.containers import WallParams
            e3 = mfd.setupWallSolver(S).eom
            g3 = WallParams(widths=np.array([S.wallThicknessGuess / TN]), offsets=np.zeros(1))
            ptop = float(e3.wallPressure(dargs["vmax"], g3, 0, dargs["rtol"], None)[0])
            ctx.count("e2e_pressure_eval")
            if not ptop < 0:
                fail(ctx, "solveWallDetonation reports RUNAWAY but the pressure at the top of "
                          "the searched window (v=%r) is %r" % (dargs["vmax"], ptop), drep,
                     key="runaway")
    except Exception as e:   # noqa
        ctx.log("solveWallDetonation raised", repr(e))
        ctx.broken.append("harness: solveWallDetonation raised %r" % e)
    sA3 = summary(m.solveWall(S))
    hist.append("solveWall@A")
    ctx.count("e2e_solve")
    if not same(sA1, sA3):
        fail(ctx, "solveWall after wallSpeedLTE/solveWallDetonation differs: %s vs %s"
                       % (sA1, sA3), dict(rep, history=list(hist)), key="history")
    if sA1["lte"] != float(lte):
        fail(ctx, "wallVelocityLTE in the result (%r) differs from wallSpeedLTE() (%r)"
                       % (sA1["lte"], lte), dict(rep, history=list(hist)), key="history")
    # other parameter point, parameters changed in place + re-setup (same Tn)
    set_point(m, model, POINT_B, TN)
    hist.append("params->B in place; setupThermodynamicsHydrodynamics")
    rB, callsB = recorded_solve(m, S)
    check_settings(ctx, m, S, rB, dict(kind="history", errTol=errTol, history=list(hist)),
                   "point B after history")
    hist.append("solveWall@B")
    sB = summary(rB)
    ctx.count("e2e_solve", dict(point="B after A", errTol=errTol))
    mf, modelf = new_manager(POINT_B, errTol)
    set_point(mf, modelf, POINT_B, TN)
    sBf = summary(mf.solveWall(S))
    ctx.count("e2e_solve", dict(point="B fresh", errTol=errTol))
    if not same(sB, sBf):
        fail(ctx, 
            "result depends on call history: after %s the manager returns vw=%r (vJ=%r, T+=%r) "
            "for point B, a fresh manager returns vw=%r (vJ=%r, T+=%r)" % (
                " -> ".join(hist[:-1]), sB["vw"], sB["vJ"], sB["Tplus"], sBf["vw"], sBf["vJ"],
                sBf["Tplus"]),
            dict(rep, history=list(hist), with_history=sB, fresh=sBf), key="history")
    ctx.sample(dict(e2e=dict(errTol=errTol, A=sA1, B=sB)))
    # settings changed on the live manager (no new setup): tolerance, iteration cap, grid size,
    # thickness guess -- the next solve must be the one a fresh manager with these settings gives
    tol2, M2, mi2, thick2 = errTol / 10, 24, 25, 6.0
    m.config.configEOM.errTol = tol2
    m.config.configEOM.maxIterations = mi2
    m.config.configGrid.spatialGridSize = M2
    S2 = settings(thick2)
    hist.append("config: errTol->%g, maxIterations->%d, spatialGridSize->%d; "
                "wallThicknessGuess->%g" % (tol2, mi2, M2, thick2))
    rC, callsC = recorded_solve(m, S2)
    repC = dict(rep, history=list(hist), settings=dict(errTol=tol2, maxIterations=mi2, M=M2,
                                                       wallThicknessGuess=thick2))
    check_settings(ctx, m, S2, rC, repC, "after changing settings on the live manager")
    hist.append("solveWall@B")
    ctx.count("e2e_solve", dict(point="B, settings changed", errTol=tol2))
    mg, modelg = new_manager(POINT_B, tol2, M2, mi2)
    set_point(mg, modelg, POINT_B, TN)
    sC, sCf = summary(rC), summary(mg.solveWall(S2))
    ctx.count("e2e_solve", dict(point="B fresh, new settings", errTol=tol2))
    if not same(sC, sCf):
        fail(ctx,
             "result depends on call history: after %s the manager returns vw=%r err=%r widths=%r, "
             "a fresh manager with the same settings returns vw=%r err=%r widths=%r" % (
                 " -> ".join(hist[:-1]), sC["vw"], sC["err"], sC["widths"], sCf["vw"], sCf["err"],
                 sCf["widths"]), dict(repC, with_history=sC, fresh=sCf), key="history")
    if same(sC, sB):
        ctx.broken.append("harness: changing the settings did not change the result "
                          "(settings-history test is blind)")
    e2e_sign_and_window(ctx, POINT_B, tol2, rC, "point B after settings change", M=M2,
                        calls=callsC, maxIter=mi2, thick=thick2)
    e2e_sign_and_window(ctx, POINT_A, errTol, rA1, "point A, first call", calls=callsA)
    e2e_sign_and_window(ctx, POINT_B, errTol, rB, "point B after history " + " -> ".join(hist),
                        calls=callsB)
    if sA1["vw"] is not None and sB["vw"] is not None and sA1["vw"] == sB["vw"]:
        ctx.broken.append("harness: points A and B give the same velocity (history test is blind)")
    return sA1, sB


def e2e_tolerance(ctx, errTol, params=POINT_A, M=20, maxIter=None, conf=None):
    m, model = new_manager(params, errTol, M, maxIter)
    for k_, v_ in (conf or {}).items():
        setattr(m.config.configEOM, k_, v_)
    set_point(m, model, params, TN)
    S = settings()
    r, calls = recorded_solve(m, S)
    label = "single solve errTol=%g M=%d%s%s" % (
        errTol, M, "" if maxIter is None else " maxIterations=%d" % maxIter,
        "" if not conf else " " + " ".join("%s=%s" % kv for kv in sorted(conf.items())))
    check_settings(ctx, m, S, r, dict(kind="e2e", params=params, Tn=TN, errTol=errTol, M=M,
                                      maxIter=maxIter, configEOM=conf), label)
    ctx.count("e2e_solve", dict(point=params, errTol=errTol, M=M, maxIter=maxIter, conf=conf),
              bucket="%s/%s" % (r.solutionType.name, "ok" if r.success else "fail"))
    # bounds that bind: a returned wall parameter sitting on a configured bound (to rounding)
    # must have been labelled as an error
    ce = m.config.configEOM
    on_bound = []
    for w in np.atleast_1d(r.wallWidths):
        for b_ in ce.wallThicknessBounds:
            if abs(float(w) * TN - b_) <= 1e-9 * abs(b_):
                on_bound.append("width*Tn=%r ~ %r" % (float(w) * TN, b_))
    for o in np.atleast_1d(r.wallOffsets)[1:]:
        for b_ in ce.wallOffsetBounds:
            if abs(float(o) - b_) <= 1e-9 * abs(b_):
                on_bound.append("offset=%r ~ %r" % (float(o), b_))
    ctx.count("e2e_bound_test", bucket="binding" if on_bound else "free")
    if on_bound and r.success:
        fail(ctx, "e2e: success although a returned wall parameter sits on a configured bound "
                  "(%s) [%s]" % ("; ".join(on_bound), label),
             dict(kind="e2e", params=params, Tn=TN, errTol=errTol, M=M, maxIter=maxIter,
                  configEOM=conf, label=label, result=summary(r)), key="saturated-success")
    # flag soundness of the real wallPressure: a success means the LAST evaluation claimed
    # convergence; the sign test below is then made against a reference EOM whose inner
    # iteration may run to convergence (maxIterations >= 50)
    if r.success and calls and not (calls[-1]["pressOk"] and calls[-1]["tprofOk"]):
        fail(ctx, "e2e: success although the final evaluation left successWallPressure=%s, "
                  "successTemperatureProfile=%s [%s]" % (calls[-1]["pressOk"],
                                                          calls[-1]["tprofOk"], label),
             dict(kind="e2e", params=params, Tn=TN, errTol=errTol, M=M, maxIter=maxIter,
                  label=label), key="label")
    e2e_sign_and_window(ctx, params, errTol, r, label, M, calls=calls, maxIter=maxIter,
                        conf=conf)
    return summary(r)


def e2e_detonation_history(ctx):
    """inner iteration capped at 3: solveWall is ERROR (not converged); an interleaved
    solveWallDetonation must change neither the config nor that answer"""
    S = settings()
    m, model = new_manager(POINT_A, 1e-3, 20, maxIter=3)
    set_point(m, model, POINT_A, TN)
    rep = dict(kind="history-deton", errTol=1e-3, maxIter=3)
    r1, _ = recorded_solve(m, S)
    check_settings(ctx, m, S, r1, rep, "maxIterations=3, first solve")
    with Unchanged(ctx, m, S, "solveWallDetonation (maxIterations=3)", rep):
        try:
            m.solveWallDetonation(S)
        except Exception as e:   # noqa
            ctx.log("solveWallDetonation (maxIterations=3) raised", repr(e))
    r2, _ = recorded_solve(m, S)
    check_settings(ctx, m, S, r2, rep, "maxIterations=3, after solveWallDetonation")
    ctx.count("e2e_solve", dict(point="A", maxIter=3, history="deton"),
              bucket="%s/%s" % (r2.solutionType.name, "ok" if r2.success else "fail"))
    a, b = summary(r1), summary(r2)
    if not same(a, b):
        fail(ctx, "result depends on call history: maxIterations=3, solveWall gives %s/%s "
                  "vw=%r; after an interleaved solveWallDetonation the same call gives %s/%s "
                  "vw=%r" % (a["type"], a["message"][:40], a["vw"], b["type"],
                             b["message"][:40], b["vw"]),
             dict(rep, before=a, after=b), key="history")


def e2e_tn_change(ctx):
    """nucleation temperature changed on a live manager (re-setup with another Tn, same model)"""
    S = settings()
    m, model = new_manager(POINT_A, 1e-3)
    set_point(m, model, POINT_A, TN)
    m.solveWall(S)
    Tn2 = TN + 0.5
    set_point(m, model, POINT_A, Tn2)
    r, calls = recorded_solve(m, S)
    rep = dict(kind="history", errTol=1e-3, history=["solveWall@Tn=%g" % TN,
                                                      "setup Tn=%g" % Tn2, "solveWall"])
    check_settings(ctx, m, S, r, rep, "after changing Tn")
    mf, modelf = new_manager(POINT_A, 1e-3)
    set_point(mf, modelf, POINT_A, Tn2)
    a, b = summary(r), summary(mf.solveWall(S))
    ctx.count("e2e_solve", dict(point="A", Tn=Tn2))
    if not same(a, b):
        fail(ctx, "result depends on call history: after a solve at Tn=%g the manager returns "
                  "%s at Tn=%g, a fresh manager %s" % (TN, a, Tn2, b),
             dict(rep, with_history=a, fresh=b), key="history")
    e2e_sign_and_window(ctx, POINT_A, 1e-3, r, "point A at Tn=%g after Tn=%g" % (Tn2, TN),
                        calls=calls, Tn=Tn2)


def direct_validation(ctx):
    t = time.time()
    try:
        e2e_history(ctx, 1e-3)
        ctx.log("e2e history (errTol=1e-3) %.1fs" % (time.time() - t))
        t = time.time()
        e2e_tolerance(ctx, 1e-5)
        ctx.log("e2e errTol=1e-5 %.1fs" % (time.time() - t))
        # inner iteration cut short: either labelled as not converged, or the velocity must
        # still be a zero of the converged pressure
        t = time.time()
        for mi, tol in ((2, 1e-5),) if ctx.quick else ((2, 1e-5), (3, 1e-5), (5, 1e-4),
                                                         (2, 1e-3), (8, 1e-5)):
            e2e_tolerance(ctx, tol, POINT_A, 20, maxIter=mi)
        ctx.log("e2e small maxIterations %.1fs" % (time.time() - t))
        t = time.time()
        e2e_detonation_history(ctx)
        # configuration family: thickness bounds that bind; profiles frozen
        e2e_tolerance(ctx, 1e-3, POINT_A, 20, conf=dict(wallThicknessBounds=[0.1, 7.0]))
        e2e_tolerance(ctx, 1e-4, POINT_A, 20, conf=dict(conserveEnergyMomentum=False))
        if not ctx.quick:
            e2e_tolerance(ctx, 1e-3, POINT_A, 20, conf=dict(wallThicknessBounds=[9.5, 100.0]))
            e2e_tolerance(ctx, 1e-3, POINT_B, 20, conf=dict(pressRelErrTol=0.01))
            e2e_tolerance(ctx, 1e-3, POINT_B, 20, conf=dict(pressRelErrTol=0.5))
            e2e_tolerance(ctx, 1e-3, POINT_B, 20, conf=dict(conserveEnergyMomentum=False))
        ctx.log("e2e detonation history + configuration family %.1fs" % (time.time() - t))
        if not ctx.quick:
            e2e_history(ctx, 1e-5)
            e2e_tn_change(ctx)
            for prm in (dict(POINT_A, lam=0.105), dict(POINT_A, D=0.21), dict(POINT_A, E=0.048)):
                for tol in (1e-3, 1e-4, 1e-5):
                    e2e_tolerance(ctx, tol, prm, M=rng_choice(ctx, [20, 30]))
    except Exception as e:
        ctx.log("end-to-end validation raised\n" + traceback.format_exc())
        ctx.broken.append("harness: end-to-end validation raised %r" % e)


def rng_choice(ctx, xs):
    return ctx.rng.choice(xs)


# ======================================================================================

def run(ctx):
    gen_ok = True
    try:
        eom_src = vlib.read_src("equationOfMotion.py")
        mgr_src = vlib.read_src("manager.py")
        text, info = gen_eom_facts.generate(eom_src, mgr_src)
        MESSAGES[:] = info["facts"]["messages"]
        ctx.write("EomFacts.v", text, sources=dict(
            files=["src/WallGo/equationOfMotion.py", "src/WallGo/manager.py"],
            sha=[vlib.sha(eom_src), vlib.sha(mgr_src)],
            spans="EOM.solveWall (all %d paths), EOM.wallPressure return tuple, "
                  "WallGoManager.setupWallSolver/buildGrid/buildEOM/solveWall/"
                  "solveWallDetonation" % info["facts"]["npaths"]))
    except gen_eom_facts.TranslateError as e:
        ctx.log("translator failed:", e)
        ctx.broken.append("translator: %s" % e)
        gen_ok = False
    proved = gen_ok and ctx.prove(extra=["EomFacts.v"])
    props_built = gen_ok and os.path.exists(os.path.join(ctx.bdir, "EomFacts.vo"))
    ctx.trusted += ["tools/gen_eom_facts.py (AST fact extractor: path enumeration of "
                    "solveWall, provenance of manager objects)",
                    "harness stubs: Hydrodynamics/Thermodynamics stand-ins and the synthetic "
                    "wallPressure installed on a real EOM instance; wrapper around "
                    "scipy.optimize.root_scalar that records the evaluation trace"]
    # (3) correspondence + (4) direct validation on synthetic curves
    try:
        zero_scan_witness(ctx)
        correspondence(ctx, props_built)
        degenerate_witness(ctx)
    except Exception as e:
        ctx.log("correspondence raised\n" + traceback.format_exc())
        ctx.broken.append("harness: correspondence raised %r" % e)
    # (4) end to end
    direct_validation(ctx)
    ctx.cov["rule"] = (
        "synthetic runs: piecewise-linear pressure curves with dyadic knots (scenarios: single "
        "root with/without kink, runaway, positive below a doubled lower end, positive "
        "everywhere, several roots/discontinuities, exact zero at an end, root finder cut "
        "short by maxiter, random), x flag/range/saturation faults on the root-phase outputs, "
        "x call style (deflagration search / direct / precomputed end tuples), x errTol in "
        "{1e-2..1e-5}, x random prior object state; distinct = distinct case; every run is "
        "compared with the Coq model on 18 observables (exact on velocities, sources, flags, "
        "types; 1e-9 relative on float-computed tolerances and guesses). End to end: "
        "WallGoManager on the one-field quartic model at two parameter points, two "
        "tolerances, histories with repeated / interleaved calls and in-place parameter "
        "changes")
    ctx.assumptions += [
        "brentq contract (scipy): on convergence the returned root and another evaluated point "
        "bracket a sign change and are closer than xtol + 4eps|root|; validated on the recorded "
        "evaluation trace of every synthetic run against the CONFIGURED errTol",
        "wallPressure is a function of (velocity, first guess, pressAbsErrTol): validated end "
        "to end by bit-identical repetition and by reproducing the solver's final call bit for "
        "bit on a fresh EOM. It DOES depend strongly on the first guess (unchanged tree, "
        "E=0.048, v=0.5665: P from -1.9e3 to -7.6e5 for guess widths 0.06..1.2, always flagged "
        "converged); on the public solveWall path this did not break the sign change "
        "re-evaluated from the returned wallParams (12 points x 4 thickness guesses)",
        "not covered: convergence of the inner pressure iteration (only its flag is modelled); "
        "out-of-equilibrium mode end to end (collision files unavailable offline)"]


def replay(rep):
    print(json.dumps({k: v for k, v in rep.items() if k not in ("case",)}, indent=1,
                     default=str)[:3000])
    if rep.get("kind") in ("synthetic", "degenerate"):
        case = case_from_json(rep["case"])
        obs = run_impl(case)
        print("raised:", obs["raised"])
        for k in ("success", "type", "message", "velocity", "velErr", "tags"):
            print(k, "=", obs.get(k))
        print("evaluations:", [(e["v"], e["atol"]) for e in obs["log"]])
        print("root finder:", {k: v for k, v in obs["rec"].items() if k != "calls"})
        print("root finder calls:", obs["rec"].get("calls"))
        return 0
    if rep.get("kind") == "synthetic-deton":
        case = case_from_json(rep["case"])
        out = run_deton(case)
        print("raised:", out["raised"])
        print("results:", out["results"])
        print("scan:", [(e["v"], float(find_seg(case["segs"], Fraction(e["v"])).p(Fraction(e["v"]))))
                        for e in out["log"] if e["atol"] == 0.0])
        print("solveWall calls:", [(c["vlo"], c["vhi"], c["tlo"], c["thi"]) for c in out["calls"]])
        return 0
    if rep.get("kind") in ("e2e", "history"):
        class C:   # minimal stand-in for Ctx
            quick = True
            def __init__(s): s.cov = {}
            def count(s, *a, **k): pass
            def sample(s, *a, **k): pass
            def log(s, *a): print(*a)
            def fail_input(s, what, rep, key=None): print("FAILS:", what)
            broken = []
        c = C()
        if rep["kind"] == "history":
            e2e_history(c, rep["errTol"])
        else:
            e2e_tolerance(c, rep["errTol"], rep["params"], rep.get("M", 20), rep.get("maxIter"),
                          rep.get("configEOM"))
        return 0
    return 0
