"""C14 -- collision data act identically after loading, basis change and interpolation."""
import itertools
import json
import os
import pathlib
import shutil
import tempfile

import numpy as np

import gen_collision
import vlib

EXPLANATION = (
    "The facts the loading state machine depends on (order and exception class of every "
    "check of CollisionArray.newFromDirectory, the basis labels of the equal-size and the "
    "interpolation branch, the statements and handlers of BoltzmannSolver.loadCollisions), "
    "the array pipeline of interpolateCollisionArray (evaluate -> truncate -> moveaxis -> "
    "reshape, meshgrid layout of the points) and the matrix pipeline of "
    "Polynomial.changeBasis are re-extracted from the Python AST on every run. Coq proves, "
    "for every number of particles, every size and every operation sequence: a failed load "
    "leaves the installed array in place and is reported as the load's own error; a "
    "successful load holds for every ordered pair exactly its file's numbers on the "
    "requested grid and basis; the faults of the quantifier are CollisionLoadError and are "
    "the only reasons for failure; entry (a,alpha,beta,b,j,k) of the interpolated data is "
    "the evaluation at target point (alpha,beta) of pair (a,b); the inverse-transpose basis "
    "change leaves the operator action on every distribution unchanged (mathcomp, any "
    "field). The model is compared exactly with the running code on op sequences over "
    "synthetic HDF5 directories and on tagged arrays; the property is evaluated directly on "
    "the implementation against an independent numpy reference.")

NAMES = ["a", "b", "c"]
BASES = ["Cardinal", "Chebyshev"]
KIND_CODE = {"ok": 0, "CollisionLoadError": 1, "AssertionError": 2, "other": 3}


# ----------------------------------------------------------------------------------
# independent reference (numpy only; nothing from WallGo)

def nodes(N, sp="Spectral"):
    if sp == "Uniform":
        rz = -1.0 + 2.0 / N + (2.0 - 2.0 / N) * np.arange(N - 1) / (N - 1)
        rp = -1.0 + 2.0 * np.arange(N - 1) / (N - 1)
        return rz, rp
    rz = -np.cos(np.arange(1, N) * np.pi / N)
    rp = -np.cos(np.arange(0, N - 1) * np.pi / (N - 1))
    return rz, rp


def _T(n, x):
    c = np.zeros(n + 1)
    c[n] = 1.0
    return np.polynomial.chebyshev.chebval(x, c)


def tbar(n, x):
    """Chebyshev polynomial made to vanish at x = +-1"""
    return _T(n, x) - (1.0 if n % 2 == 0 else x)


def ttil(n, y):
    """Chebyshev polynomial made to vanish at y = +1"""
    return _T(n, y) - 1.0


def cheb_mats(N, sp="Spectral"):
    rz, rp = nodes(N, sp)
    m1 = np.array([[tbar(j + 2, x) for j in range(N - 1)] for x in rz])
    m2 = np.array([[ttil(k + 1, y) for k in range(N - 1)] for y in rp])
    return m1, m2


def lagrange_matrix(xs, targets):
    """L[t, s] = prod_{m != s} (x_t - x_m) / (x_s - x_m)"""
    xs = np.asarray(xs)
    L = np.ones((len(targets), len(xs)))
    for s in range(len(xs)):
        for m in range(len(xs)):
            if m != s:
                L[:, s] *= (np.asarray(targets) - xs[m]) / (xs[s] - xs[m])
    return L


def interp_mats(Ns, Nt, sp="Spectral"):
    """values on the interior source nodes (zero at rz=+-1, rp=+1) -> values at target nodes"""
    rzs, rps = nodes(Ns, sp)
    rzt, rpt = nodes(Nt, sp)
    lz = lagrange_matrix(np.concatenate(([-1.0], rzs, [1.0])), rzt)[:, 1:-1]
    lp = lagrange_matrix(np.concatenate((rps, [1.0])), rpt)[:, :-1]
    return lz, lp


def reference_block(D, Ns, bf, Nt, br, sp="Spectral"):
    """what the (N_t, br) array must hold for one pair whose file holds D on (N_s, bf)"""
    X = np.asarray(D, dtype=float)
    cur = bf
    if Nt != Ns:
        if cur == "Cardinal":
            m1, m2 = cheb_mats(Ns, sp)
            X = np.einsum("abjk,jJ,kK->abJK", X, m1, m2)
        lz, lp = interp_mats(Ns, Nt, sp)
        X = np.einsum("ta,ub,abjk->tujk", lz, lp, X)[..., :Nt - 1, :Nt - 1]
        cur = "Chebyshev"
    if cur != br:
        m1, m2 = cheb_mats(Nt, sp)
        if br == "Cardinal":
            m1, m2 = np.linalg.inv(m1), np.linalg.inv(m2)
        X = np.einsum("abjk,jJ,kK->abJK", X, m1, m2)
    return X


def low_order_distribution(rs, P, nt, sp="Spectral"):
    """delta f_b = sum_{j,k<nt} c[b,j,k] Tbar_{j+2}(x) Ttil_{k+1}(y)"""
    c = rs.normal(size=(P, nt, nt))

    def values(N):
        rz, rp = nodes(N, sp)
        tz = np.array([[tbar(j + 2, x) for j in range(nt)] for x in rz])
        tp = np.array([[ttil(k + 1, y) for k in range(nt)] for y in rp])
        return np.einsum("xj,yk,bjk->bxy", tz, tp, c)
    return c, values


def representation(c, values, N, basis):
    """coefficients of delta f on grid N in `basis` (the Chebyshev ones are N-independent)"""
    if basis == "Chebyshev":
        out = np.zeros((c.shape[0], N - 1, N - 1))
        out[:, :c.shape[1], :c.shape[2]] = c
        return out
    return values(N)


# ----------------------------------------------------------------------------------
# fixtures

def file_data(seed, N, special=None):
    """the numbers of one file; `special`: zero / int / sym / range (see SPECIALS)"""
    rs = np.random.default_rng(seed)
    D = rs.normal(size=(N - 1,) * 4)
    if special == "zero":
        D = np.zeros_like(D)
    elif special == "int":
        D = rs.integers(-9, 10, size=D.shape)
    elif special == "sym":
        D = D + np.transpose(D, (2, 3, 0, 1))
    elif special == "range":
        D = D * 10.0 ** rs.integers(-8, 9, size=D.shape)
    return D


SPECIALS = [None, "zero", "int", "sym", "range"]
SHAPE_COQ = {"ok": "ShapeOk", "smaller": "ShapeSmaller", "broadcast2d": "ShapeBroadcast",
             "broadcast1": "ShapeBroadcast", "missing": "ShapeMissing",
             "unreadable": "FileUnreadable"}
WORST = {"rel_err": 0.0, "where": None}      # margin bookkeeping for the evidence


def note_err(err, where):
    if err == err and err > WORST["rel_err"]:
        WORST["rel_err"] = float(err)
        WORST["where"] = where


def dataset_for(f):
    """what is written as the dataset of one file (None: no dataset at all)"""
    D = file_data(f["seed"], f["N"], f.get("special"))
    shape = f.get("shape", "ok")
    n = f["N"] - 1
    if shape == "ok":
        return D
    if shape == "smaller":      # not broadcastable into the (n,n,n,n) slot
        if n >= 3 and f["seed"] % 2 == 0:
            return D[:2, :2, :2, :2]
        return np.random.default_rng(f["seed"]).normal(size=(n + 1,) * 4)
    if shape == "broadcast2d":  # lower rank: numpy would broadcast it silently
        return D[0, 0]
    if shape == "broadcast1":
        return np.array([3.0])
    return None


def write_dir(root, spec, into=None):
    """spec: {"a_b": {"N":7, "basis":"Chebyshev", "seed":5[, "shape", "bytes", "special"]}}
    `into`: an existing directory whose collision files are REPLACED IN PLACE by the spec
    (files regenerated under the same names, files of the old spec that the new one lacks
    deleted) -- the shipped workflow regenerates CollisionOutput_N<N>_UserGenerated this way"""
    import h5py
    if into is None:
        d = pathlib.Path(tempfile.mkdtemp(dir=root))
    else:
        d = pathlib.Path(into)
        d.mkdir(exist_ok=True)
        keep = {"collisions_%s_%s.hdf5" % tuple(k.split("_")) for k in spec}
        for old in d.iterdir():
            if old.name not in keep:
                old.unlink()
    for key, f in spec.items():
        p1, p2 = key.split("_")
        path = d / ("collisions_%s_%s.hdf5" % (p1, p2))
        if f.get("shape") == "unreadable":      # exists, but is not HDF5 (a git-lfs pointer)
            path.write_text("version https://git-lfs.github.com/spec/v1\n"
                            "oid sha256:%064x\nsize 165960\n" % f["seed"])
            continue
        with h5py.File(str(path), "w") as h:
            m = h.create_dataset("metadata", data=np.zeros(1))
            m.attrs["Basis Size"] = f["N"]
            m.attrs["Basis Type"] = np.bytes_(f["basis"].encode()) if f.get("bytes") \
                else f["basis"]
            data = dataset_for(f)
            if data is not None:
                h.create_dataset("%s, %s" % (p1, p2), data=data)
    return d


def particle(name):
    import WallGo
    return WallGo.Particle(name=name, index=0,
                           msqVacuum=lambda phi: 0.5 * phi.getField(0) ** 2,
                           msqDerivative=lambda fields: np.transpose([fields.getField(0)]),
                           statistics="Fermion", totalDOFs=12)


def make_grid(N, kind="plain"):
    import WallGo
    if kind == "3scales":       # unequal tails, falloff scales far from 1
        return WallGo.Grid3Scales(3, N, 2.5, 11.0, 0.7, 83.0)
    if kind == "uniform":
        return WallGo.Grid(3, N, 1.0, 1.0, spacing="Uniform")
    return WallGo.Grid(3, N, 1.0, 1.0)


def spacing_of(kind):
    return "Uniform" if kind == "uniform" else "Spectral"


def make_solver(N, req, grid="plain"):
    import WallGo
    g = grid if not isinstance(grid, str) else make_grid(N, grid)
    return WallGo.BoltzmannSolver(g, "Cardinal", req, "Spectral")


DS_FAULTS = {"ds_smaller": "smaller", "ds_broadcast": None, "ds_missing": "missing",
             "unreadable": "unreadable"}


def gen_dir_spec(rng, names, Ns, basis, fault, seed0, first=None):
    """`fault` may join several faults with '+' (planted in different files when possible);
    `first` = key of the file the loader reads first (the victim with probability 1/3)"""
    spec = {}
    s = seed0
    for p1, p2 in itertools.product(names, repeat=2):
        spec["%s_%s" % (p1, p2)] = dict(N=Ns, basis=basis, seed=s)
        s += 1
    free = sorted(spec)
    for k, flt in enumerate(fault.split("+")):
        if flt in ("none", "oversized", "missing_dir") or not free:
            continue
        if k == 0 and first in free and rng.random() < 1 / 3:
            victim = first
        else:
            victim = rng.choice(free)
        free.remove(victim)
        if flt == "missing":
            del spec[victim]
        elif flt == "size":
            other = rng.choice([n for n in (3, 5, 7, 9) if n != Ns])
            spec[victim]["N"] = other
        elif flt == "basis":
            spec[victim]["basis"] = "Cardinal" if basis == "Chebyshev" else "Chebyshev"
        elif flt == "ds_broadcast":
            spec[victim]["shape"] = rng.choice(["broadcast2d", "broadcast1"])
        elif flt in DS_FAULTS:
            spec[victim]["shape"] = DS_FAULTS[flt]
    return spec, s


def gen_scenario(rng, idx):
    """one solver, a sequence of particle-list updates and loads"""
    N = rng.choice([3, 5, 5, 7])
    req = rng.choice(BASES)
    ops = []
    seed = 1 + 100 * idx
    k = rng.randint(1, 3)
    names = rng.sample(NAMES, k)
    ops.append(["particles", names])
    for _ in range(rng.randint(2, 5)):
        if rng.random() < 0.25:
            names = rng.sample(NAMES, rng.randint(1, 3))
            ops.append(["particles", names])
            continue
        fault = rng.choice(["none", "none", "none", "missing", "size", "basis", "oversized",
                            "ds_smaller", "ds_broadcast", "ds_missing", "unreadable"])
        if fault not in ("none", "oversized") and rng.random() < 0.2:
            fault += "+" + rng.choice(["missing", "size", "basis", "ds_smaller",
                                       "ds_broadcast", "ds_missing", "unreadable"])
        if fault == "oversized":
            sizes = [n for n in (3, 5) if n < N]
            if not sizes:
                fault = "none"
        if fault == "oversized":
            Ns = rng.choice(sizes)
        else:
            Ns = rng.choice([n for n in (3, 5, 7, 9) if n >= N])
        if len(names) == 3 and Ns == 9:
            Ns = 7 if N <= 7 else 9
        basis = rng.choice(BASES)
        # files may name more particles than the solver currently uses
        fnames = sorted(set(names) | (set(rng.sample(NAMES, 1)) if rng.random() < 0.3
                                      else set()))
        spec, seed = gen_dir_spec(rng, fnames, Ns, basis, fault, seed,
                                  first="%s_%s" % (names[0], names[0]))
        # half of the loads go to the directory of the previous load, rewritten in place
        ops.append(["load", spec, fault, rng.random() < 0.5])
    return dict(N=N, req=req, ops=ops)


def classify(exc):
    """by IDENTITY of the class (the public WallGo.CollisionLoadError), never by name"""
    import WallGo
    import WallGo.exceptions
    if WallGo.CollisionLoadError is not WallGo.exceptions.CollisionLoadError:
        return "other"
    if isinstance(exc, WallGo.CollisionLoadError):
        return "CollisionLoadError"
    if isinstance(exc, AssertionError):
        return "AssertionError"
    return "other"


def exc_name(exc):
    return "%s.%s" % (type(exc).__module__, type(exc).__name__)


def summarize(ca, spec, N_solver, tol=1e-9):
    """state summary of an installed array: (N, label, {(i,j): (seed, ok)})"""
    if ca is None:
        return None
    names = [p.name for p in ca.particles]
    N = ca.getBasisSize() + 1
    label = ca.getBasisType()
    arr = np.asarray(ca[:])
    blocks = {}
    worst = 0.0
    for i, j in itertools.product(range(len(names)), repeat=2):
        f = spec.get("%s_%s" % (names[i], names[j]))
        blk = arr[i, :, :, j]
        ok = False
        if f is not None:
            ref = reference_block(file_data(f["seed"], f["N"]), f["N"], f["basis"], N, label)
            if ref.shape == blk.shape:
                err = float(np.max(np.abs(ref - blk)) / (np.max(np.abs(ref)) + 1e-300))
                worst = max(worst, err)
                ok = err < tol
        blocks[(i, j)] = (f["seed"] if f is not None else 0, ok)
    return dict(N=N, label=label, blocks=blocks, worst=worst, names=names)


def run_scenario(sc, root):
    """returns list of per-load observations"""
    b = make_solver(sc["N"], sc["req"])
    obs = []
    last_spec = None
    last_dir = None
    for op in sc["ops"]:
        if op[0] == "particles":
            b.updateParticleList([particle(n) for n in op[1]])
            continue
        spec = op[1]
        reuse = len(op) > 3 and op[3] and last_dir is not None
        d = write_dir(root, spec, into=last_dir if reuse else None)
        last_dir = d
        before = b.collisionArray
        before_copy = None if before is None else np.array(before[:], copy=True)
        try:
            b.loadCollisions(d)
            kind = "ok"
            detail = ""
        except Exception as e:       # noqa: BLE001
            kind = classify(e)
            detail = "%s: %s" % (exc_name(e), " ".join(str(e).split())[:100])
        after = b.collisionArray
        if kind == "ok":
            last_spec = spec
        same = (after is before) and (before is None or
                                      np.array_equal(before_copy, np.asarray(after[:])))
        obs.append(dict(kind=kind, detail=detail, unchanged=same,
                        summary=summarize(after, last_spec or {}, sc["N"]),
                        names=[p.name for p in b.offEqParticles],
                        fault=op[2] + ("@same-path" if reuse else "")))
    return obs


# ----------------------------------------------------------------------------------
# Coq side of the op-sequence differential

CORR_HEADER = """From Coq Require Import List Arith Bool.
From WG Require Import Model.CollisionLoad.
From GenC14 Require Import CollisionGen.
Import ListNotations.
Definition mkdir (l : list (nat * nat * file)) : directory :=
  fun p q => match find (fun e => (fst (fst e) =? p) && (snd (fst e) =? q)) l with
             | Some e => Some (snd e) | None => None end.
Definition summ (s : solver) : option (nat * basis * list (option block)) :=
  match s with
  | None => None
  | Some a => Some (a_N a, a_label a,
                    map (fun ij => a_blocks a (fst ij) (snd ij)) (list_prod [0;1;2] [0;1;2]))
  end.
Fixpoint trace (N : nat) (req : basis) (ops : list op) (parts : list nat) (s : solver) :=
  match ops with
  | [] => []
  | OpParticles ps :: ops' => trace N req ops' ps s
  | OpLoad dir :: ops' =>
    let (s1, o) := loadCollisions the_cfg s dir N req parts in
    (o, summ s1) :: trace N req ops' parts s1
  end.
Definition code (o : outcome unit) : nat :=
  match o with Ok _ => 0 | Err CollisionLoadError => 1 | Err AssertionError => 2
             | Err OtherError => 3 end.
Definition blk_eqb (a b : option block) : bool :=
  match a, b with
  | None, None => true
  | Some x, Some y => (b_data x =? b_data y) && (b_size x =? b_size y) &&
                      basis_eqb (b_basis x) (b_basis y) && eqb (b_ok x) (b_ok y)
  | _, _ => false
  end.
Fixpoint blks_eqb (a b : list (option block)) : bool :=
  match a, b with
  | [], [] => true
  | x :: a', y :: b' => blk_eqb x y && blks_eqb a' b'
  | _, _ => false
  end.
Definition summ_eqb (a b : option (nat * basis * list (option block))) : bool :=
  match a, b with
  | None, None => true
  | Some (n1, l1, b1), Some (n2, l2, b2) => (n1 =? n2) && basis_eqb l1 l2 && blks_eqb b1 b2
  | _, _ => false
  end.
Fixpoint obs_eqb (a : list (outcome unit * option (nat * basis * list (option block))))
         (b : list (nat * option (nat * basis * list (option block)))) : bool :=
  match a, b with
  | [], [] => true
  | (o, s) :: a', (c, t) :: b' => (code o =? c) && summ_eqb s t && obs_eqb a' b'
  | _, _ => false
  end.
Definition chk N req ops expected : bool := obs_eqb (trace N req ops [] None) expected.
"""


def coq_scenario(sc, obs):
    pid = {n: i for i, n in enumerate(NAMES)}
    ops = []
    for op in sc["ops"]:
        if op[0] == "particles":
            ops.append("OpParticles [%s]" % "; ".join(str(pid[n]) for n in op[1]))
        else:
            ents = []
            for key, f in sorted(op[1].items()):
                p1, p2 = key.split("_")
                ents.append("(%d, %d, mkfile %d %s %d %s)" % (
                    pid[p1], pid[p2], f["N"], f["basis"], f["seed"],
                    SHAPE_COQ[f.get("shape", "ok")]))
            ops.append("OpLoad (mkdir [%s])" % "; ".join(ents))
    exp = []
    for o in obs:
        s = o["summary"]
        if s is None:
            st = "None"
        else:
            blks = []
            for i, j in itertools.product(range(3), repeat=2):
                if (i, j) in s["blocks"]:
                    seed, ok = s["blocks"][(i, j)]
                    blks.append("Some (mkblock %d %d %s %s)" % (
                        seed, s["N"], s["label"], "true" if ok else "false"))
                else:
                    blks.append("None")
            st = "Some (%d, %s, [%s])" % (s["N"], s["label"], "; ".join(blks))
        exp.append("(%d, %s)" % (KIND_CODE[o["kind"]], st))
    return "chk %d %s [%s] [%s]" % (sc["N"], sc["req"], "; ".join(ops), "; ".join(exp))


# ----------------------------------------------------------------------------------
# layout correspondence: the real interpolateCollisionArray on a tagged evaluation

def tagged_interpolation(P, Ns, Nt):
    """run the real interpolateCollisionArray with Polynomial.evaluate replaced by a tagged
    integer array; returns (flat result, recorded points, axes)"""
    import WallGo
    from WallGo.collisionArray import CollisionArray
    from WallGo.polynomial import Polynomial
    src = WallGo.Grid(3, Ns, 1.0, 1.0)
    tgt = WallGo.Grid(3, Nt, 1.0, 1.0)
    parts = [particle(n) for n in NAMES[:P]]
    data = np.zeros((P, Ns - 1, Ns - 1, P, Ns - 1, Ns - 1))
    poly = Polynomial(data, src, ("Array", "Cardinal", "Cardinal", "Array", "Chebyshev",
                                  "Chebyshev"), CollisionArray.AXIS_TYPES, endpoints=False)
    ca = CollisionArray.newFromPolynomial(poly, parts)
    rec = {}
    orig = Polynomial.evaluate

    def fake(self, compactCoord, axes=None):
        rec["points"] = np.array(compactCoord)
        rec["axes"] = tuple(axes)
        npts = np.asarray(compactCoord).shape[1]
        shape = (npts, P, P, Ns - 1, Ns - 1)
        return np.arange(int(np.prod(shape)), dtype=float).reshape(shape)

    Polynomial.evaluate = fake
    try:
        out = CollisionArray.interpolateCollisionArray(ca, tgt)
    finally:
        Polynomial.evaluate = orig
    res = np.asarray(out[:])
    return res, rec, tgt


LAYOUT_HEADER = """From Coq Require Import List ZArith Bool.
From WG Require Import Lib.Reshape.
From GenC14 Require Import CollisionGen.
Import ListNotations.
Fixpoint zeq (a b : list Z) : bool :=
  match a, b with [], [] => true | x :: a', y :: b' => Z.eqb x y && zeq a' b' | _, _ => false end.
Definition tagged (sh : list nat) : arr Z := of_list 0%Z sh (map Z.of_nat (seq 0 (prod sh))).
Definition chk_layout (P Nt ns npts : nat) (want : list Z) : bool :=
  zeq (to_list (interp_layout P Nt (tagged [npts; P; P; ns; ns]))) want &&
  Nat.eqb (length want) (P * (Nt - 1) * (Nt - 1) * P * (Nt - 1) * (Nt - 1)).
Definition chk_points (Nt : nat) (axes : list nat) (want : list Z) : bool :=
  zeq (to_list (grid_points Nt (fun a => Z.of_nat a) (fun b => (100 + Z.of_nat b)%Z) (-1)%Z)) want
  && forallb (fun p => Nat.eqb (fst p) (snd p)) (combine axes eval_axes)
  && Nat.eqb (length axes) (length eval_axes).
"""


def zlist(v):
    return "[" + "; ".join("(%d)%%Z" % int(x) for x in v) + "]"


# ----------------------------------------------------------------------------------
# direct validation

def report(ctx, what, rep, key):
    """first failing input of each class is reported (and gets a replay file); the others
    of the same class are only counted"""
    seen = getattr(ctx, "_c14_seen", None)
    if seen is None:
        seen = ctx._c14_seen = {}
    seen[key] = seen.get(key, 0) + 1
    if seen[key] == 1:
        return ctx.fail_input(what, rep, key=key)
    return False


def load_joint(root, P, Ns, bf, Nt, br, seed0, names=None, grid="plain", opts=None):
    names = names or NAMES[:P]
    opts = opts or {}
    spec = {}
    s = seed0
    for p1, p2 in itertools.product(names, repeat=2):
        spec["%s_%s" % (p1, p2)] = dict(N=Ns, basis=bf, seed=s, **opts)
        s += 1
    d = write_dir(root, spec)
    b = make_solver(Nt, br, grid)
    b.updateParticleList([particle(n) for n in names])
    try:
        b.loadCollisions(d)
    finally:
        shutil.rmtree(d, ignore_errors=True)
    return b, spec


def direct_case(ctx, root, P, Ns, bf, Nt, br, seed0, pairwise, names=None, grid="plain",
                opts=None):
    """opts: extra per-file fields (bytes-typed basis attribute, special tensors)"""
    names = list(names or NAMES[:P])
    opts = dict(opts or {})
    sp = spacing_of(grid)
    case = dict(P=P, Ns=Ns, stored_basis=bf, Nt=Nt, requested_basis=br, seed0=seed0,
                names=names, grid=grid, opts=opts)
    try:
        b, spec = load_joint(root, P, Ns, bf, Nt, br, seed0, names=names, grid=grid,
                             opts=opts)
    except Exception as e:       # noqa: BLE001
        report(ctx, "loading a fault-free directory raised %s: %s [%s]" % (
            exc_name(e), str(e)[:80], json.dumps(case)),
            dict(kind="load_raises", case=case), key="fault-free-load-raises")
        return
    ca = b.collisionArray
    L = np.asarray(ca[:])
    D = np.zeros((P, Ns - 1, Ns - 1, P, Ns - 1, Ns - 1))
    for i, j in itertools.product(range(P), repeat=2):
        D[i, :, :, j] = file_data(spec["%s_%s" % (names[i], names[j])]["seed"], Ns,
                                  opts.get("special"))
    bucket = "P%d %s->%s %s%s" % (P, bf[:4], br[:4], "same" if Ns == Nt else "interp",
                                  "" if grid == "plain" and not opts else
                                  " " + grid + "".join(" %s=%s" % kv for kv in sorted(opts.items())))
    ctx.count("direct_action", case, bucket=bucket)
    # (i) loaded numbers: same size and basis -> exactly the file's numbers
    if Ns == Nt and bf == br and not np.array_equal(L, D):
        ij = np.argwhere(L != D)[0].tolist()
        report(ctx, "loaded array differs from the file numbers at index %s [%s]" % (
            ij, json.dumps(case)), dict(kind="numbers", case=case, index=ij),
            key="loaded-numbers")
    if L.shape != (P, Nt - 1, Nt - 1, P, Nt - 1, Nt - 1) or ca.getBasisType() != br:
        report(ctx, "loaded array has shape %s / basis %s [%s]" % (
            L.shape, ca.getBasisType(), json.dumps(case)),
            dict(kind="shape", case=case), key="loaded-shape")
        return
    # (ii) operator action on low-order distributions vs the source operator's action
    #      interpolated to the new grid points
    rs = np.random.default_rng(seed0 + 7)
    lz, lp = interp_mats(Ns, Nt, sp)
    for rep in range(2):
        c, values = low_order_distribution(rs, P, Nt - 1, sp)
        out_src = np.einsum("axybjk,bjk->axy", D, representation(c, values, Ns, bf))
        ref = np.einsum("tx,uy,axy->atu", lz, lp, out_src)
        got = np.einsum("axybjk,bjk->axy", L, representation(c, values, Nt, br))
        err = float(np.max(np.abs(got - ref)) / (np.max(np.abs(ref)) + 1e-300))
        if opts.get("special") == "zero":
            err = float(np.max(np.abs(got)))
        if err <= 1e-8:
            note_err(err, "action %s" % bucket)
        if err > 1e-8:
            a, t, u = np.unravel_index(np.argmax(np.abs(got - ref)), ref.shape)
            kind = "interp" if Ns != Nt else ("basis" if bf != br else "plain")
            report(ctx, 
                "operator action differs after loading (%s): P=%d files N=%d %s -> grid N=%d "
                "%s, particle %d point (%d,%d): got %.6g, source operator gives %.6g "
                "(rel. err %.2e)" % (kind, P, Ns, bf, Nt, br, a, t, u, got[a, t, u],
                                     ref[a, t, u], err),
                dict(kind="action", case=case, rep=rep, rel_err=err), key="action-" + kind)
            break
    # (iii) every pair against the independent per-pair reference
    for i, j in itertools.product(range(P), repeat=2):
        refb = reference_block(D[i, :, :, j], Ns, bf, Nt, br, sp)
        err = float(np.max(np.abs(refb - L[i, :, :, j])) / (np.max(np.abs(refb)) + 1e-300))
        if opts.get("special") == "zero":
            err = float(np.max(np.abs(L[i, :, :, j])))
        if err <= 1e-8:
            note_err(err, "pair block %s" % bucket)
        if err > 1e-8:
            report(ctx, 
                "pair (%s,%s) of the loaded array is not the transformed file data: P=%d files "
                "N=%d %s -> grid N=%d %s (rel. err %.2e)" % (names[i], names[j], P, Ns, bf,
                                                             Nt, br, err),
                dict(kind="pair_block", case=case, pair=[i, j], rel_err=err),
                key="pair-block-" + ("interp" if Ns != Nt else "same"))
            break
    # (iv) pairwise independence: each pair loaded alone as a one-particle directory
    if pairwise and P >= 2:
        for i, j in itertools.product(range(P), repeat=2):
            seed = spec["%s_%s" % (names[i], names[j])]["seed"]
            d1 = write_dir(root, {"x_x": dict(N=Ns, basis=bf, seed=seed, **opts)})
            b1 = make_solver(Nt, br, grid)
            b1.updateParticleList([particle("x")])
            b1.loadCollisions(d1)
            shutil.rmtree(d1, ignore_errors=True)
            alone = np.asarray(b1.collisionArray[:])[0, :, :, 0]
            err = float(np.max(np.abs(alone - L[i, :, :, j])) /
                        (np.max(np.abs(alone)) + 1e-300))
            if opts.get("special") == "zero":
                err = float(np.max(np.abs(L[i, :, :, j])))
            ctx.count("pairwise_independence", dict(case=case, pair=[i, j]))
            if err > 1e-10:
                report(ctx, 
                    "pair (%s,%s) loaded jointly (P=%d) differs from the same file loaded "
                    "alone: files N=%d %s -> grid N=%d %s, max rel. diff %.3g" % (
                        names[i], names[j], P, Ns, bf, Nt, br, err),
                    dict(kind="pairwise", case=case, pair=[i, j], rel_err=err),
                    key="pairwise-independence")
                break


def fault_sequences(ctx, root, rng, n):
    """error kinds and state after failure, on the real solver"""
    for t in range(n):
        P = rng.randint(1, 3)
        names = NAMES[:P]
        N = rng.choice([3, 5])
        req = rng.choice(BASES)
        b = make_solver(N, req)
        b.updateParticleList([particle(x) for x in names])
        good, _ = gen_dir_spec(rng, names, rng.choice([n_ for n_ in (5, 7) if n_ >= N]),
                               rng.choice(BASES), "none", 1000 + 20 * t)
        first_good = rng.random() < 0.8
        seq = []
        if first_good:
            seq.append(("none", good))
        for _ in range(rng.randint(1, 3)):
            fault = rng.choice(["missing", "size", "basis", "oversized", "missing_dir",
                                "ds_smaller", "ds_broadcast", "ds_missing", "unreadable"])
            if fault == "oversized":
                if N == 3:
                    fault = "missing"
                    Ns = 5
                else:
                    Ns = 3
            else:
                Ns = rng.choice([n_ for n_ in (5, 7) if n_ >= N])
            if P == 1 and fault in ("size", "basis"):
                fault = "missing"
            if fault not in ("oversized", "missing_dir") and P >= 2 and rng.random() < 0.25:
                fault += "+" + rng.choice(["missing", "size", "basis", "ds_smaller",
                                           "ds_broadcast", "ds_missing", "unreadable"])
            spec, _ = gen_dir_spec(rng, names, Ns, rng.choice(BASES), fault, 2000 + 20 * t,
                                   first="%s_%s" % (names[0], names[0]))
            seq.append((fault, spec))
        if rng.random() < 0.6:      # ... and the files are regenerated correctly at the end
            good2, _ = gen_dir_spec(rng, names, rng.choice([n_ for n_ in (5, 7) if n_ >= N]),
                                    rng.choice(BASES), "none", 3000 + 20 * t)
            seq.append(("none", good2))
        # every other history keeps ONE directory and rewrites its files in place
        same_path = rng.random() < 0.5
        case = dict(P=P, N=N, req=req, seq=[(f, s) for f, s in seq], same_path=same_path)
        last_dir = None
        for fault, spec in seq:
            if fault == "missing_dir":
                d = pathlib.Path(root) / "does_not_exist"
            else:
                d = write_dir(root, spec, into=last_dir if same_path else None)
                last_dir = d
            before = b.collisionArray
            snap = None if before is None else np.array(before[:], copy=True)
            err = None
            try:
                b.loadCollisions(d)
            except Exception as e:      # noqa: BLE001
                err = e
            if fault != "missing_dir" and not same_path:
                shutil.rmtree(d, ignore_errors=True)
            ctx.count("fault_sequence", dict(case=case, fault=fault),
                      bucket=fault + ("@same-path" if same_path else ""))
            fkey = fault.split("+")[0] if "+" not in fault else "double"
            dsf = [f for f in fault.split("+") if f.startswith("ds_")]
            if fault == "unreadable":
                fkey = "unreadable-file"
            if fault == "none":
                if err is not None:
                    report(ctx, "fault-free load raised %r" % err,
                                   dict(kind="faults", case=case, at=fault),
                                   key="fault-free-load-raises")
                else:
                    # the array now installed holds the numbers of THIS spec (a path-keyed
                    # cache would hand out those of an earlier one)
                    sm = summarize(b.collisionArray, spec, N)
                    note_err(sm["worst"], "fault_sequences")
                    if not all(v[1] for v in sm["blocks"].values()):
                        report(ctx, "after regenerating the collision files%s and loading "
                               "again, the installed array does not hold the numbers now on "
                               "disk; P=%d grid N=%d" % (
                                   " IN PLACE (same directory path)" if same_path else "",
                                   P, N),
                               dict(kind="faults", case=case, at=fault),
                               key="stale-numbers" + (":same-path" if same_path else ""))
                continue
            if err is None:
                report(ctx, "load with fault `%s` raised nothing [%s]" % (
                    fault, json.dumps(case)[:300]),
                    dict(kind="faults", case=case, at=fault),
                    key=("malformed-dataset:" + dsf[0][3:]) if dsf and len(dsf) == len(
                        fault.split("+")) else ("unreadable-file" if fault == "unreadable"
                                               else "fault-not-reported:" + fkey))
                continue
            kind = classify(err)
            if kind != "CollisionLoadError":
                report(ctx, 
                    "load with fault `%s` raised %s (%s) instead of CollisionLoadError; P=%d "
                    "grid N=%d files %s" % (
                        fault, exc_name(err), " ".join(str(err).split())[:60], P, N,
                        {k: (v["N"], v["basis"], v.get("shape", "ok"))
                         for k, v in spec.items()}),
                    dict(kind="faults", case=case, at=fault, raised=exc_name(err)),
                    key=("malformed-dataset:" + dsf[0][3:]) if dsf and len(dsf) == len(
                        fault.split("+")) else ("unreadable-file" if fault == "unreadable"
                                               else "error-kind:" + fkey))
            after = b.collisionArray
            if after is not before or (before is not None and
                                       not np.array_equal(snap, np.asarray(after[:]))):
                report(ctx, 
                    "after a failed load (fault `%s`) the solver no longer holds the "
                    "previously loaded array (collisionArray is %s); P=%d grid N=%d" % (
                        fault, "None" if after is None else "another object", P, N),
                    dict(kind="faults", case=case, at=fault), key="atomicity")


def evaluate_pointwise(ctx, P, Ns, Nt, seed):
    """metamorphic: Polynomial.evaluate on all target points at once == the stack of its
    single-point evaluations (any blocking / chunking / caching scheme must satisfy this),
    on the array sizes of the shipped files"""
    import WallGo
    from WallGo.collisionArray import CollisionArray
    from WallGo.polynomial import Polynomial
    src = WallGo.Grid(3, Ns, 1.0, 1.0)
    tgt = WallGo.Grid(3, Nt, 1.0, 1.0)
    D = np.random.default_rng(seed).normal(size=(P, Ns - 1, Ns - 1, P, Ns - 1, Ns - 1))
    poly = Polynomial(D, src, ("Array", "Cardinal", "Cardinal", "Array", "Chebyshev",
                               "Chebyshev"), CollisionArray.AXIS_TYPES, endpoints=False)
    pts = np.array(np.meshgrid(tgt.rzValues, tgt.rpValues, indexing="ij")).reshape(
        (2, (Nt - 1) ** 2))
    allp = np.asarray(poly.evaluate(pts, (1, 2)))
    lz, lp = interp_mats(Ns, Nt)
    worst = 0.0
    worst_ref = 0.0
    scale = float(np.max(np.abs(allp))) + 1e-300
    idx = list(range(pts.shape[1]))
    for q in idx:
        one = np.asarray(poly.evaluate(pts[:, q], (1, 2)))
        worst = max(worst, float(np.max(np.abs(one - allp[q]))) / scale)
        a_, b_ = divmod(q, Nt - 1)
        ref = np.einsum("x,y,axybjk->abjk", lz[a_], lp[b_], D)
        worst_ref = max(worst_ref, float(np.max(np.abs(ref - allp[q]))) / scale)
    ctx.count("evaluate_pointwise", dict(P=P, Ns=Ns, Nt=Nt), bucket="P%d %d->%d (%.1e el.)" % (
        P, Ns, Nt, pts.shape[1] * D.size))
    case = dict(P=P, Ns=Ns, Nt=Nt, seed=seed)
    if worst > 1e-12 or worst_ref > 1e-9 or allp.shape != (pts.shape[1], P, P, Ns - 1, Ns - 1):
        report(ctx, "Polynomial.evaluate on all %d target points at once differs from its own "
               "point-by-point evaluation (max rel. diff %.3g) / from the Lagrange reference "
               "(%.3g): collision array P=%d stored N=%d -> target N=%d (%.2g expanded "
               "elements)" % (pts.shape[1], worst, worst_ref, P, Ns, Nt,
                              pts.shape[1] * D.size),
               dict(kind="evaluate_pointwise", case=case), key="evaluate-all-vs-pointwise")
    else:
        note_err(worst_ref, "evaluate_pointwise")


def _action(arr, f):
    return np.einsum("axybjk,bjk->axy", np.asarray(arr), f)


def histories(ctx, root, rng, n):
    """object histories on the implementation: the finite-difference estimate of the EOM
    (only in-package caller of changeBasis on a live array), deep copies, solvers sharing a
    grid and a particle list, the public CollisionArray entry points on a reused object,
    setCollisionArray followed by a failing load, bInterpolate=False"""
    import copy
    import types
    import WallGo
    from WallGo.collisionArray import CollisionArray
    from WallGo.equationOfMotion import EOM
    for t in range(n):
        P = rng.randint(1, 3)
        names = rng.sample(["top", "gluon", "W", "a"], P)
        Ns = rng.choice([5, 7])
        Nt = rng.choice([n_ for n_ in (3, 5, 7) if n_ <= Ns])
        bf, br = rng.choice(BASES), rng.choice(BASES)
        seed0 = rng.randrange(10 ** 6)
        history_case(ctx, root, dict(P=P, names=names, Ns=Ns, Nt=Nt, stored_basis=bf,
                                     requested_basis=br, seed0=seed0))


def history_case(ctx, root, case):
    import copy
    import random
    import types
    import WallGo
    from WallGo.collisionArray import CollisionArray
    from WallGo.equationOfMotion import EOM
    P, names, Ns, Nt = case["P"], case["names"], case["Ns"], case["Nt"]
    bf, br, seed0 = case["stored_basis"], case["requested_basis"], case["seed0"]
    rng = random.Random(seed0)
    if True:
        try:
            b, spec = load_joint(root, P, Ns, bf, Nt, br, seed0, names=names)
        except Exception as e:      # noqa: BLE001
            report(ctx, "loading a fault-free directory raised %s [%s]" % (
                exc_name(e), json.dumps(case)), dict(kind="history", case=case, step="load"),
                key="fault-free-load-raises")
            return
        A = b.collisionArray
        snap = np.array(A[:], copy=True)
        rs = np.random.default_rng(seed0 + 3)
        f = rs.normal(size=(P, Nt - 1, Nt - 1))
        act0 = _action(snap, f)

        dead = []

        def intact(step):
            if dead:        # already reported for this history; later steps would only echo it
                return False
            ok = b.collisionArray is A and np.array_equal(snap, np.asarray(A[:])) and \
                A.getBasisType() == br == b.basisN and \
                tuple(A.polynomialData.basis[4:]) == (br, br)
            ctx.count("history", dict(case=case, step=step), bucket=step)
            if not ok:
                rel = float(np.max(np.abs(_action(A[:], f) - act0)) /
                            (np.max(np.abs(act0)) + 1e-300)) \
                    if np.asarray(A[:]).shape == snap.shape else float("nan")
                report(ctx,
                       "after `%s` the solver's loaded collision array changed (label %s, "
                       "polynomial basis %s, solver basisN %s; action on a fixed distribution "
                       "changed by %.3g rel.); P=%d files N=%d %s -> grid N=%d %s" % (
                           step, A.getBasisType(), tuple(A.polynomialData.basis[4:]),
                           b.basisN, rel, P, Ns, bf, Nt, br),
                       dict(kind="history", case=case, step=step), key="aliasing:" + step)
                dead.append(step)
            return ok

        # (a) the finite-difference error estimate, as EOM runs it (getDeltas stubbed)
        seen = {}
        orig = WallGo.BoltzmannSolver.getDeltas

        def fake(self, deltaF=None):
            seen["solver"] = self
            return None
        WallGo.BoltzmannSolver.getDeltas = fake
        try:
            EOM.getBoltzmannFiniteDifference(types.SimpleNamespace(boltzmannSolver=b))
        except Exception as e:      # noqa: BLE001
            report(ctx, "EOM.getBoltzmannFiniteDifference raised %s: %s" % (
                exc_name(e), str(e)[:80]), dict(kind="history", case=case, step="fd"),
                key="fd-estimate-raises")
        finally:
            WallGo.BoltzmannSolver.getDeltas = orig
        intact("fd-estimate")
        fd = seen.get("solver")
        if fd is not None:
            fa = fd.collisionArray
            okfd = fd is not b and fa is not A and fd.basisN == fa.getBasisType()
            if okfd:
                for i, j in itertools.product(range(P), repeat=2):
                    fl = spec["%s_%s" % (names[i], names[j])]
                    refb = reference_block(file_data(fl["seed"], Ns), Ns, bf, Nt,
                                           fa.getBasisType())
                    err = float(np.max(np.abs(refb - np.asarray(fa[:])[i, :, :, j])) /
                                (np.max(np.abs(refb)) + 1e-300))
                    okfd = okfd and err < 1e-8
            if not okfd:
                report(ctx,
                       "the finite-difference solver of EOM.getBoltzmannFiniteDifference "
                       "applies an array labelled %s under basisN=%s (or not the loaded "
                       "operator in that basis); shares the spectral solver's array: %s" % (
                           fa.getBasisType(), fd.basisN, fa is A),
                       dict(kind="history", case=case, step="fd-copy"), key="fd-copy-basis")
        # (b) a deep copy of the solver, then a failing load on the copy
        b2 = copy.deepcopy(b)
        try:
            b2.loadCollisions(pathlib.Path(root) / "does_not_exist")
        except Exception:      # noqa: BLE001
            pass
        if b2.collisionArray is None or not np.array_equal(np.asarray(b2.collisionArray[:]),
                                                           snap):
            report(ctx, "failed load on a deep copy of the solver lost the copy's array",
                   dict(kind="history", case=case, step="deepcopy"), key="atomicity")
        intact("deepcopy+failed-load")
        # (c) a second solver on the SAME grid object and particle list loads other data
        b3 = WallGo.BoltzmannSolver(b.grid, "Cardinal", "Cardinal" if br == "Chebyshev"
                                    else "Chebyshev", "Spectral")
        b3.updateParticleList(b.offEqParticles)
        spec3, _ = gen_dir_spec(rng, names, Ns, rng.choice(BASES), "none", seed0 + 500)
        d3 = write_dir(root, spec3)
        try:
            b3.loadCollisions(d3)
        except Exception as e:      # noqa: BLE001
            report(ctx, "second solver on a shared grid: load raised %s" % exc_name(e),
                   dict(kind="history", case=case, step="shared-grid"),
                   key="fault-free-load-raises")
        shutil.rmtree(d3, ignore_errors=True)
        intact("second-solver-shared-grid")
        # (d) public entry points on the live array: interpolate twice, change basis and back
        if Nt > 3:
            small = WallGo.Grid(3, Nt - 2, 1.0, 1.0)
            outs = []
            for _ in range(2):
                try:
                    outs.append(np.asarray(
                        CollisionArray.interpolateCollisionArray(A, small)[:]))
                except Exception as e:      # noqa: BLE001
                    report(ctx, "interpolateCollisionArray on a loaded array raised %s" %
                           exc_name(e), dict(kind="history", case=case, step="interp"),
                           key="interpolate-raises")
                intact("interpolateCollisionArray")
            if len(outs) == 2:
                bad = not np.array_equal(outs[0], outs[1])
                src_blocks = np.asarray(A[:])
                for i, j in itertools.product(range(P), repeat=2):
                    refb = reference_block(src_blocks[i, :, :, j], Nt, br, Nt - 2, br)
                    err = float(np.max(np.abs(refb - outs[0][i, :, :, j])) /
                                (np.max(np.abs(refb)) + 1e-300))
                    bad = bad or err > 1e-8
                if bad:
                    report(ctx, "interpolateCollisionArray(A, smaller grid) on a loaded array "
                           "is not the interpolation of A (or differs between two calls); "
                           "P=%d grid N=%d -> %d basis %s" % (P, Nt, Nt - 2, br),
                           dict(kind="history", case=case, step="interp-value"),
                           key="interpolate-reused-object")
        other = "Cardinal" if br == "Chebyshev" else "Chebyshev"
        C = copy.deepcopy(A)
        r1 = C.changeBasis(other)
        mid = np.array(C[:], copy=True)
        ok = r1 is C and C.getBasisType() == other
        for i, j in itertools.product(range(P), repeat=2):
            refb = reference_block(snap[i, :, :, j], Nt, br, Nt, other)
            ok = ok and float(np.max(np.abs(refb - mid[i, :, :, j])) /
                              (np.max(np.abs(refb)) + 1e-300)) < 1e-8
        C.changeBasis(other)            # no-op
        ok = ok and np.array_equal(mid, np.asarray(C[:]))
        C.changeBasis(br)
        back = np.asarray(C[:])
        ok = ok and C.getBasisType() == br and \
            float(np.max(np.abs(back - snap)) / (np.max(np.abs(snap)) + 1e-300)) < 1e-9
        ctx.count("history", dict(case=case, step="changeBasis"), bucket="changeBasis-roundtrip")
        if not ok:
            report(ctx, "CollisionArray.changeBasis(%s) / no-op / back to %s on a copy of the "
                   "loaded array does not give the operator in the other basis and back; P=%d "
                   "grid N=%d" % (other, br, P, Nt),
                   dict(kind="history", case=case, step="changeBasis"),
                   key="changeBasis-reused-object")
        intact("changeBasis-on-copy")
        # (e) setCollisionArray, then a failing load
        b4 = make_solver(Nt, br)
        b4.updateParticleList([particle(x) for x in names])
        b4.setCollisionArray(A)
        held = b4.collisionArray
        held_snap = np.array(held[:], copy=True)
        bad_spec, _ = gen_dir_spec(rng, names, Ns, bf, rng.choice(
            ["missing", "ds_missing", "ds_smaller", "ds_broadcast"]), seed0 + 900)
        d4 = write_dir(root, bad_spec)
        err4 = None
        try:
            b4.loadCollisions(d4)
        except Exception as e:      # noqa: BLE001
            err4 = e
        shutil.rmtree(d4, ignore_errors=True)
        kept = b4.collisionArray is held and np.array_equal(held_snap, np.asarray(held[:]))
        if err4 is None or classify(err4) != "CollisionLoadError" or not kept:
            report(ctx, "setCollisionArray(A) then a faulty load: raised %s, array kept: %s" % (
                "nothing" if err4 is None else exc_name(err4), kept),
                dict(kind="history", case=case, step="setCollisionArray"),
                key="atomicity" if err4 is not None and classify(err4) == "CollisionLoadError"
                else "error-kind:after-setCollisionArray")
        intact("setCollisionArray+failed-load")
        # (f) bInterpolate=False
        dq = write_dir(root, spec)
        try:
            r = CollisionArray.newFromDirectory(dq, b.grid, br, b.offEqParticles,
                                                bInterpolate=False)
            if Ns != Nt:
                report(ctx, "newFromDirectory(bInterpolate=False) with files N=%d on grid N=%d "
                       "returned an array" % (Ns, Nt),
                       dict(kind="history", case=case, step="bInterpolate"),
                       key="fault-not-reported:no-interpolation")
            elif not np.array_equal(np.asarray(r[:]), snap):
                report(ctx, "newFromDirectory(bInterpolate=False) differs from the default load",
                       dict(kind="history", case=case, step="bInterpolate"),
                       key="loaded-numbers")
        except Exception as e:      # noqa: BLE001
            if Ns == Nt or classify(e) != "CollisionLoadError":
                report(ctx, "newFromDirectory(bInterpolate=False), files N=%d grid N=%d: "
                       "raised %s" % (Ns, Nt, exc_name(e)),
                       dict(kind="history", case=case, step="bInterpolate"),
                       key="error-kind:no-interpolation")
        shutil.rmtree(dq, ignore_errors=True)
        ctx.count("history", dict(case=case, step="bInterpolate"), bucket="bInterpolate=False")
        # (h) the consumer: build the linear system once on the loaded solver; the collision
        #     term must be T(xi)^2 x the loaded numbers, and building it must not touch them
        try:
            M = b.grid.M
            v = -np.ones(M + 1) / np.sqrt(3) + 0.01 * np.sin(np.arange(M + 1))
            bg = WallGo.BoltzmannBackground(
                velocityMid=0.5 * (v[0] + v[-1]), velocityProfile=v,
                fieldProfiles=WallGo.Fields((1.0 + 0.1 * np.arange(M + 1))[:, None]),
                temperatureProfile=100.0 + np.arange(M + 1), polynomialBasis="Cardinal")
            b.setBackground(bg)
            for _ in range(2):
                coll = b.buildLinearEquations()[3]
                Tb = np.asarray(b.background.temperatureProfile)[1:-1]
                exp = np.zeros_like(coll)
                for x in range(M - 1):
                    exp[:, x, :, :, :, x, :, :] = b.collisionMultiplier * Tb[x] ** 2 * snap
                errc = float(np.max(np.abs(exp - coll)) / (np.max(np.abs(exp)) + 1e-300))
                if errc > 1e-12:
                    report(ctx, "BoltzmannSolver.buildLinearEquations: the collision term is not "
                           "T^2 x the loaded collision array (rel. diff %.3g); P=%d grid N=%d "
                           "basis %s" % (errc, P, Nt, br),
                           dict(kind="history", case=case, step="linear-system"),
                           key="consumer:collision-term")
                    break
                intact("buildLinearEquations")
        except Exception as e:      # noqa: BLE001
            report(ctx, "buildLinearEquations on a loaded solver raised %s: %s" % (
                exc_name(e), str(e)[:80]), dict(kind="history", case=case,
                                                step="linear-system"),
                key="consumer:raises")
        # (g) ONE directory path, two solvers taking turns, files regenerated / deleted in
        #     place between the loads (Models/wallGoExampleBase.py regenerates
        #     CollisionOutput_N<N>_UserGenerated for every benchmark point and reloads it)
        solvers = [make_solver(Nt, br), make_solver(Nt, br)]
        for sv in solvers:
            sv.updateParticleList([particle(x) for x in names])
        dpath = None
        for rnd in range(4):
            sv = solvers[rnd % 2]
            flt = "none" if rnd != 2 else rng.choice(["missing", "ds_missing", "unreadable"])
            spec_g, _ = gen_dir_spec(rng, names, Ns, bf, flt, seed0 + 2000 + 100 * rnd)
            dpath = write_dir(root, spec_g, into=dpath)
            held = sv.collisionArray
            err_g = None
            try:
                sv.loadCollisions(dpath)
            except Exception as e:      # noqa: BLE001
                err_g = e
            ctx.count("history", dict(case=case, step="same-path", rnd=rnd),
                      bucket="same-path:" + flt)
            rp = dict(kind="history", case=case, step="same-path-%d" % rnd)
            if flt == "none":
                sm = None if err_g is not None else summarize(sv.collisionArray, spec_g, Nt)
                if sm is None or not all(v[1] for v in sm["blocks"].values()):
                    report(ctx, "collision files regenerated IN PLACE (same directory path, "
                           "load no. %d on that path): %s; P=%d files N=%d %s -> grid N=%d %s" % (
                               rnd + 1, "the load raised " + exc_name(err_g) if err_g is not None
                               else "the installed array holds other numbers than the files "
                               "now on disk (rel. err %.3g)" % sm["worst"], P, Ns, bf, Nt, br),
                           rp, key="stale-numbers:same-path")
                elif sm is not None:
                    note_err(sm["worst"], "same-path history")
            else:
                if err_g is None:
                    report(ctx, "a collision file was deleted / corrupted IN PLACE (%s) in a "
                           "directory loaded before: the load raised nothing and installed an "
                           "array; P=%d grid N=%d" % (flt, P, Nt), rp,
                           key="fault-not-reported:same-path")
                elif classify(err_g) != "CollisionLoadError" or sv.collisionArray is not held:
                    report(ctx, "same-path history, fault `%s`: raised %s, array kept: %s" % (
                        flt, exc_name(err_g), sv.collisionArray is held), rp,
                        key="unreadable-file" if flt == "unreadable" and
                        sv.collisionArray is held else "atomicity")


def manager_route(ctx, root, rng, n):
    """the route every user takes: WallGoManager.setupWallSolver -> loadCollisions, on the real
    manager class; only phase/hydro set-up, grid sizing and EOM construction are stand-ins"""
    import logging
    import types
    import WallGo
    from WallGo.manager import WallGoManager, WallSolverSettings
    for t in range(n):
        P = rng.randint(1, 3)
        names = rng.sample(["top", "gluon", "W", "a"], P)
        N = rng.choice([3, 5])
        Ns = rng.choice([n_ for n_ in (5, 7) if n_ >= N])
        bf = rng.choice(BASES)
        seed0 = rng.randrange(10 ** 6)
        # one manager, one collision directory whose files are rewritten in place between the
        # calls: good, faulty, good again with other numbers
        steps = []
        for k, fault in enumerate(["none", rng.choice(["missing", "size", "basis", "ds_missing",
                                                       "ds_smaller", "ds_broadcast",
                                                       "unreadable"]), "none"]):
            if P == 1 and fault in ("size", "basis"):
                fault = "missing"
            spec, _ = gen_dir_spec(rng, names, Ns, bf, fault, seed0 + 50 * k)
            steps.append([fault, spec])
        manager_case(ctx, root, dict(P=P, names=names, N=N, Ns=Ns, stored_basis=bf,
                                     steps=steps, entry=rng.choice(["solveWall",
                                                                    "setupWallSolver"])))


def manager_case(ctx, root, case):
    import logging
    import types
    from WallGo.manager import WallGoManager, WallSolverSettings
    P, names, N, Ns = case["P"], case["names"], case["N"], case["Ns"]
    bf = case["stored_basis"]
    steps = case.get("steps") or [[case["fault"], case["spec"]]]
    entry = case.get("entry", "setupWallSolver")
    d = None
    m = WallGoManager()
    m.setVerbosity(logging.ERROR)
    m.phasesAtTn = types.SimpleNamespace(temperature=100.0)
    m.hydrodynamics = object()
    m.model = types.SimpleNamespace(outOfEquilibriumParticles=[particle(x) for x in names])
    m.isModelValid = lambda: True
    grid = make_grid(N, "3scales")
    m.buildGrid = lambda *a, **k: grid
    built = []

    def build_eom(g, solver, mfp):
        eom = types.SimpleNamespace(includeOffEq=None, solver=solver,
                                    findWallVelocityDeflagrationHybrid=lambda t: "RESULT")
        built.append(eom)
        return eom
    m.buildEOM = build_eom
    for fault, spec in steps:
        d = write_dir(root, spec, into=d)
        m.setPathToCollisionData(d)
        del built[:]
        err = None
        ws = None
        try:
            settings = WallSolverSettings(bIncludeOffEquilibrium=True)
            if entry == "solveWall":
                res = m.solveWall(settings)
                ws = types.SimpleNamespace(eom=built[-1], boltzmannSolver=built[-1].solver) \
                    if built else None
                if res != "RESULT":
                    ws = None
            else:
                ws = m.setupWallSolver(settings)
        except Exception as e:      # noqa: BLE001
            err = e
        ctx.count("manager_route", dict(case=case, fault=fault), bucket=entry + ":" + fault)
        rp = dict(kind="manager", case=case, at=fault)
        where = "WallGoManager.%s" % entry
        if fault == "none":
            if err is not None or ws is None:
                report(ctx, "%s on a fault-free directory raised %s: %s" % (
                    where, "nothing" if err is None else exc_name(err), str(err)[:80]), rp,
                    key="manager:fault-free-raises")
                continue
            ca = ws.boltzmannSolver.collisionArray
            ok = ca is not None and ws.eom.includeOffEq is True and \
                ca.getBasisType() == ws.boltzmannSolver.basisN
            if ok:
                arr = np.asarray(ca[:])
                for i, j in itertools.product(range(P), repeat=2):
                    fl = spec["%s_%s" % (names[i], names[j])]
                    refb = reference_block(file_data(fl["seed"], fl["N"]), fl["N"], bf, N,
                                           ca.getBasisType())
                    e_ = float(np.max(np.abs(refb - arr[i, :, :, j])) /
                               (np.max(np.abs(refb)) + 1e-300)) if arr.shape[0] == P else 1.0
                    if e_ < 1e-8:
                        note_err(e_, "manager_route")
                    ok = ok and e_ < 1e-8
            if not ok:
                report(ctx, "%s (off-equilibrium requested, fault-free directory, files "
                       "rewritten in place between calls) did not install the complete array of "
                       "the files now on disk: collisionArray %s, includeOffEq=%r" % (
                           where, "None" if ca is None else "present", ws.eom.includeOffEq), rp,
                       key="manager:incomplete")
        else:
            if err is None:
                ca = ws.boltzmannSolver.collisionArray if ws is not None else None
                report(ctx, "%s with off-equilibrium requested and a faulty collision directory "
                       "(%s) raised nothing: collisionArray is %s, eom.includeOffEq=%r -- the "
                       "wall would be solved without (or with wrong) collisions; P=%d grid N=%d"
                       % (where, fault, "None" if ca is None else "installed",
                          ws.eom.includeOffEq if ws is not None else None, P, N), rp,
                       key="manager:silent-" + ("lte" if ca is None else "wrong-array"))
            elif classify(err) != "CollisionLoadError":
                report(ctx, "%s, fault `%s`: raised %s instead of CollisionLoadError" % (
                    where, fault, exc_name(err)), rp,
                    key="unreadable-file" if fault == "unreadable" else "manager:error-kind")


def all_sources():
    import glob
    out = {}
    for path in sorted(glob.glob(os.path.join(vlib.SRC, "*.py"))):
        with open(path) as f:
            out[os.path.basename(path)] = f.read()
    return out


def run(ctx):
    WORST.update(rel_err=0.0, where=None)
    srcs = all_sources()
    gen_ok = True
    try:
        gen, bas, facts = gen_collision.generate(srcs)
        meta = dict(files=["src/WallGo/" + n for n in gen_collision.NEEDED],
                    sha={n: vlib.sha(srcs[n]) for n in gen_collision.NEEDED},
                    scanned_modules=len(srcs))
        ctx.write("CollisionGen.v", gen, sources=meta)
        ctx.write("BasisGen.v", bas, sources=meta)
        ctx.log("extracted: guards", facts["c_guards_every"], facts["c_guards_later"],
                "| labels", facts["c_direct_label"], facts["c_interp_label"],
                "| loadCollisions", facts["c_prog_pre"], facts["c_prog_try"])
        ctx.log("extracted: interp_layout =", facts["interp_term"])
        ctx.log("extracted: fd_prog =", facts["fd_prog"], "| manager handlers =",
                facts["manager_handlers"])
        for path in facts["new_paths"]:
            ctx.log("UNREVIEWED path into collision loading/conversion: %s %s: %s" % path)
            ctx.broken.append("new call path: %s %s: %s" % path)
    except gen_collision.TranslateError as e:
        ctx.log("translator failed:", e)
        ctx.broken.append("translator: %s" % e)
        gen_ok = False
    proved = gen_ok and ctx.prove(extra=["CollisionGen.v", "BasisGen.v"])
    ctx.trusted += ["tools/gen_collision.py (AST fact extractor / array-pipeline translator)",
                    "mathcomp 1.x matrix library", "h5py fixtures written by the harness"]
    root = tempfile.mkdtemp(prefix="c14_")
    rng = ctx.rng
    try:
        # ---- correspondence 1: op-sequence differential -------------------------------
        nsc = ctx.n(36, 400)
        terms, scen = [], []
        for k in range(nsc):
            sc = gen_scenario(rng, k)
            obs = run_scenario(sc, root)
            scen.append((sc, obs))
            for o in obs:
                ctx.count("op_sequence_load", dict(sc=k, o=o["kind"], f=o["fault"]),
                          bucket=o["fault"] + "/" + o["kind"])
            if k < 2:
                ctx.sample(dict(scenario=dict(N=sc["N"], req=sc["req"],
                                              ops=[(o[0], o[2] if o[0] == "load" else o[1])
                                                   for o in sc["ops"]]),
                                observed=[(o["kind"], o["unchanged"]) for o in obs]))
            if gen_ok:
                terms.append(coq_scenario(sc, obs))
        if gen_ok:
            bad = ctx.run_cases("opseq", CORR_HEADER, terms, per_file=12)
            for bfile in bad:
                ctx.broken.append("correspondence:op-sequence %s" % bfile["file"])
                ctx.log("op-sequence correspondence failure", json.dumps(bfile)[:300])
                for idx in bfile["cases"][:2]:
                    sc, obs = scen[idx]
                    ctx.log("  scenario", json.dumps(dict(
                        N=sc["N"], req=sc["req"],
                        ops=[(o[0], o[2] if o[0] == "load" else o[1]) for o in sc["ops"]])),
                        "observed", [(o["kind"], o["detail"], o["unchanged"],
                                      None if o["summary"] is None else
                                      (o["summary"]["N"], o["summary"]["label"],
                                       all(v[1] for v in o["summary"]["blocks"].values())))
                                     for o in obs])
        # ---- correspondence 2: array layout on tagged evaluations ---------------------
        lay_terms, lay_cases = [], []
        combos = [(1, 5, 3), (2, 5, 3), (2, 7, 5), (3, 5, 3), (3, 7, 5), (2, 9, 5)]
        if not ctx.quick:
            combos += [(1, 7, 5), (3, 9, 7), (2, 9, 7), (3, 7, 3)]
        for P, Ns, Nt in combos:
            try:
                res, rec, tgt = tagged_interpolation(P, Ns, Nt)
            except Exception as e:      # noqa: BLE001
                ctx.log("tagged interpolation raised", repr(e))
                ctx.broken.append("correspondence:layout raised %r" % e)
                continue
            ctx.count("layout_tagged", dict(P=P, Ns=Ns, Nt=Nt))
            pts = rec["points"]
            rz = {float(v): i for i, v in enumerate(tgt.rzValues)}
            rp = {float(v): 100 + i for i, v in enumerate(tgt.rpValues)}
            flat = []
            for r, row in enumerate(pts):
                prim, sec = (rz, rp) if r == 0 else (rp, rz)
                for v in row:
                    flat.append(prim.get(float(v), sec.get(float(v), -7)))
            if gen_ok:
                lay_terms.append("chk_layout %d %d %d %d %s" % (
                    P, Nt, Ns - 1, pts.shape[1], zlist(res.ravel())))
                lay_cases.append(dict(P=P, Ns=Ns, Nt=Nt, what="layout"))
                lay_terms.append("chk_points %d [%s] %s" % (
                    Nt, "; ".join(str(a) for a in rec["axes"]), zlist(flat)))
                lay_cases.append(dict(P=P, Ns=Ns, Nt=Nt, what="points"))
        if gen_ok and lay_terms:
            bad = ctx.run_cases("layout", LAYOUT_HEADER, lay_terms, per_file=4)
            for bfile in bad:
                ctx.broken.append("correspondence:interp-layout %s" % bfile["file"])
                ctx.log("layout correspondence failure", json.dumps(bfile)[:300],
                        [lay_cases[i] for i in bfile["cases"][:4]])
        # ---- direct validation ---------------------------------------------------------
        sizes = [(5, 5), (5, 3), (7, 5), (7, 3)] if ctx.quick else \
            [(3, 3), (5, 5), (5, 3), (7, 7), (7, 5), (7, 3), (9, 7), (9, 5), (9, 3)]

        def guarded(*a, **k):
            try:
                direct_case(ctx, root, *a, **k)
            except Exception as e:      # noqa: BLE001
                import traceback
                ctx.log("direct case raised", traceback.format_exc())
                ctx.broken.append("harness: direct case raised %r" % e)

        for P in (1, 2, 3):
            for (Ns, Nt), bf, br in itertools.product(sizes, BASES, BASES):
                if P == 3 and Ns >= 9 and ctx.quick:
                    continue
                pairwise = (P == 2) or (not ctx.quick) or (Ns, Nt) == (5, 3)
                guarded(P, Ns, bf, Nt, br, rng.randrange(10 ** 6), pairwise)
        # outside the comfortable region: the shipped stored size (11) and a larger one,
        # coinciding rz nodes (9 -> 3), Grid3Scales with unequal tails, a uniform grid,
        # bytes-typed "Basis Type" (what WallGoCollision writes), realistic particle names in
        # non-sorted order, special tensors
        extra = [
            dict(P=1, Ns=9, Nt=3), dict(P=2, Ns=11, Nt=5), dict(P=1, Ns=11, Nt=11),
            # the stored sizes that are shipped (11, 15, 19, 21): 1e7 and more expanded
            # elements in Polynomial.evaluate
            dict(P=1, Ns=21, Nt=11, once=True), dict(P=2, Ns=21, Nt=5, once=True),
            dict(P=2, Ns=15, Nt=9, once=True), dict(P=1, Ns=19, Nt=11, once=True),
            dict(P=2, Ns=7, Nt=5, grid="3scales"), dict(P=2, Ns=5, Nt=5, grid="3scales"),
            dict(P=2, Ns=7, Nt=5, grid="uniform"),
            dict(P=2, Ns=7, Nt=5, opts=dict(bytes=True)),
            dict(P=3, Ns=5, Nt=3, names=["top", "gluon", "W"]),
            dict(P=2, Ns=5, Nt=5, names=["psiR", "Zb"]),
        ] + [dict(P=2, Ns=7, Nt=5, opts=dict(special=sp_)) for sp_ in SPECIALS[1:]] + \
            [dict(P=2, Ns=5, Nt=5, opts=dict(special=sp_)) for sp_ in ("int", "zero")]
        if not ctx.quick:
            extra += [dict(P=2, Ns=13, Nt=7), dict(P=1, Ns=21, Nt=11), dict(P=2, Ns=19, Nt=9),
                      dict(P=1, Ns=15, Nt=15),
                      dict(P=3, Ns=11, Nt=7, grid="3scales", names=["W", "top", "gluon"]),
                      dict(P=2, Ns=9, Nt=5, grid="uniform")]
        for e in extra:
            combos_ = itertools.product(BASES, BASES) if not ctx.quick else \
                [(rng.choice(BASES), rng.choice(BASES)), ("Chebyshev", "Chebyshev")]
            if e.get("once") and ctx.quick:
                combos_ = [(rng.choice(BASES), rng.choice(BASES))]
            for bf, br in combos_:
                guarded(e["P"], e["Ns"], bf, e["Nt"], br, rng.randrange(10 ** 6),
                        e["P"] == 2 and e["Ns"] <= 7, names=e.get("names"),
                        grid=e.get("grid", "plain"), opts=e.get("opts"))
        fault_sequences(ctx, root, rng, ctx.n(40, 400))
        try:
            for P_, Ns_, Nt_ in [(1, 21, 11), (2, 15, 9)] + \
                    ([] if ctx.quick else [(2, 21, 7), (1, 19, 11), (3, 11, 5)]):
                evaluate_pointwise(ctx, P_, Ns_, Nt_, rng.randrange(10 ** 6))
        except Exception as e:      # noqa: BLE001
            import traceback
            ctx.log("evaluate_pointwise raised", traceback.format_exc())
            ctx.broken.append("harness: evaluate_pointwise raised %r" % e)
        try:
            histories(ctx, root, rng, ctx.n(8, 80))
            manager_route(ctx, root, rng, ctx.n(5, 50))
        except Exception as e:      # noqa: BLE001
            import traceback
            ctx.log("history / manager run raised", traceback.format_exc())
            ctx.broken.append("harness: history run raised %r" % e)
    finally:
        shutil.rmtree(root, ignore_errors=True)
    ctx.cov["worst_rel_err"] = dict(value=WORST["rel_err"], where=WORST["where"],
                                    tolerance=1e-8,
                                    margin=(1e-8 / WORST["rel_err"]) if WORST["rel_err"] else None)
    ctx.log("worst relative error of a passing comparison against the reference: %.3g (%s); "
            "tolerance 1e-8" % (WORST["rel_err"], WORST["where"]))
    for key, cnt in sorted(getattr(ctx, "_c14_seen", {}).items()):
        if cnt > 1:
            ctx.log("failing inputs of class %s: %d in total (first one reported)" % (key, cnt))
    ctx.cov["rule"] = (
        "op sequences: one solver (N in 3/5/7, requested basis), 2-5 operations = particle "
        "list updates (1-3 of a,b,c in any order) and loads of h5py directories (stored N "
        "in 3..9, both bases, faults: none/missing file/size mismatch/basis mismatch/"
        "oversized target, extra files allowed); distinct = distinct (scenario, outcome, "
        "fault). direct: P in 1..3 x (stored N, target N) x stored basis x requested basis, "
        "two random low-order distributions each, per-pair blocks against an independent "
        "numpy reference (Chebyshev evaluation + Lagrange interpolation), each pair loaded "
        "alone; fault sequences on the real solver (identity and contents of "
        "solver.collisionArray after each failure)")
    ctx.assumptions += [
        "np.linalg.inv returns a right inverse of an invertible matrix (Section hypothesis "
        "inv_ok; validated through the operator-action runs)",
        "the restricted Chebyshev matrices on the grid nodes are invertible (unitmx "
        "hypotheses; property C16)",
        "Polynomial.evaluate(points, axes) returns (points, remaining axes in order) and "
        "uses row r of the points for axes[r] (definition `evaluated`; validated by the "
        "direct runs against the independent reference)",
        "the restricted Chebyshev basis functions do not depend on the grid size, so the "
        "coefficients of a low-order distribution on the smaller grid are the truncated ones",
        "h5py/file-system behaviour: a missing file raises FileNotFoundError"]


def replay(rep):
    print(json.dumps(rep, indent=1, default=str))
    root = tempfile.mkdtemp(prefix="c14r_")

    class C:        # minimal ctx
        quick = True

        def count(self, *a, **k):
            pass

        def fail_input(self, what, r, key=None):
            print("FAILS:", what)
            self.failed = True
            return True
    c = C()
    c.failed = False
    try:
        if rep.get("kind") in ("action", "pair_block", "pairwise", "numbers", "shape",
                               "load_raises"):
            k = rep["case"]
            direct_case(c, root, k["P"], k["Ns"], k["stored_basis"], k["Nt"],
                        k["requested_basis"], k["seed0"], True, names=k.get("names"),
                        grid=k.get("grid", "plain"), opts=k.get("opts"))
        elif rep.get("kind") == "evaluate_pointwise":
            k = rep["case"]
            evaluate_pointwise(c, k["P"], k["Ns"], k["Nt"], k["seed"])
        elif rep.get("kind") == "history":
            history_case(c, root, rep["case"])
        elif rep.get("kind") == "manager":
            manager_case(c, root, rep["case"])
        elif rep.get("kind") == "faults":
            k = rep["case"]
            b = make_solver(k["N"], k["req"])
            b.updateParticleList([particle(x) for x in NAMES[:k["P"]]])
            last_dir = None
            for fault, spec in k["seq"]:
                if fault == "missing_dir":
                    d = pathlib.Path(root) / "does_not_exist"
                else:
                    d = write_dir(root, spec, into=last_dir if k.get("same_path") else None)
                    last_dir = d
                before = b.collisionArray
                try:
                    b.loadCollisions(d)
                    print(fault, "-> loaded")
                    if fault != "none":
                        c.failed = True
                    elif not all(v[1] for v in summarize(b.collisionArray, spec,
                                                         k["N"])["blocks"].values()):
                        print("   but the installed array is not the one now on disk")
                        c.failed = True
                except Exception as e:      # noqa: BLE001
                    print(fault, "->", exc_name(e), "| array kept:",
                          b.collisionArray is before)
                    if classify(e) != "CollisionLoadError" or b.collisionArray is not before:
                        c.failed = True
    finally:
        shutil.rmtree(root, ignore_errors=True)
    return 1 if c.failed else 0
